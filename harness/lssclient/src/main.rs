//! C17 harness, client side of the LSS read exchange.
//!
//! Drives the REAL `lightning_storage_server::client::PrivClient` (`get` / `put`, driver.rs: nonce
//! construction, request, shared-HMAC check of the reply, per-value HMAC checks) over a real gRPC
//! connection to an in-process endpoint, and records what went over the wire.  No property logic:
//! the nonce of every get request, whether the client accepted the reply and what it returned are
//! written as observations; TLC (spec/Auth.tla client session, TraceAuthClient.tla) judges them.
//!
//! The endpoint is an honest storage server (mirrors lssd/src/lib.rs put / get handlers with the
//! real `util::compute_shared_hmac` and the "next version" rule of the lssd databases) behind an
//! on-path intermediary that records every GetReply and can answer a later get with a recorded one.
//!
//!   authcli run  --seqs <ndjson> --out <steps.ndjson>     TLC-generated sessions / replay files
//!   authcli walk --seed S --steps K --out <steps.ndjson>  seeded random sessions
use std::collections::BTreeMap;
use std::io::Write;
use std::net::TcpListener;
use std::sync::{Arc, Mutex};
use std::time::Duration;

use lightning_storage_server::client::{ClientError, PrivAuth, PrivClient};
use lightning_storage_server::proto::lightning_storage_server::{LightningStorage, LightningStorageServer};
use lightning_storage_server::proto::{
    GetReply, GetRequest, InfoReply, InfoRequest, KeyValue, PingReply, PingRequest, PutReply, PutRequest,
};
use lightning_storage_server::util::compute_shared_hmac;
use lightning_storage_server::Value;
use rand::rngs::StdRng;
use rand::{Rng, SeedableRng};
use secp256k1::{PublicKey, Secp256k1, SecretKey};
use serde_json::{json, Value as J};
use tonic::{Request, Response, Status};

const HMAC_SECRET: [u8; 32] = [0x33; 32];

/// per client id: the store, what the intermediary saw and what it is told to do next
#[derive(Default)]
struct ClientSide {
    store: BTreeMap<String, Value>,
    /// nonce of every get request seen on the wire
    nonces: Vec<Vec<u8>>,
    /// the reply that was sent back for every get request
    replies: Vec<GetReply>,
    /// answer the next get with the reply recorded for get number j (1-based)
    replay_next: Option<usize>,
}

#[derive(Default)]
struct Shared {
    clients: Mutex<BTreeMap<Vec<u8>, ClientSide>>,
}

struct Endpoint {
    server_key: SecretKey,
    shared: Arc<Shared>,
}

impl Endpoint {
    fn shared_secret(&self, client_id: &[u8]) -> Result<Vec<u8>, Status> {
        let client_id = PublicKey::from_slice(client_id).map_err(|_| Status::unauthenticated("client id"))?;
        Ok(PrivAuth::new_for_server(&self.server_key, &client_id).shared_secret)
    }
}

#[tonic::async_trait]
impl LightningStorage for Endpoint {
    async fn ping(&self, request: Request<PingRequest>) -> Result<Response<PingReply>, Status> {
        Ok(Response::new(PingReply { message: request.into_inner().message }))
    }

    async fn info(&self, _request: Request<InfoRequest>) -> Result<Response<InfoReply>, Status> {
        let secp = Secp256k1::new();
        let server_id = PublicKey::from_secret_key(&secp, &self.server_key).serialize().to_vec();
        Ok(Response::new(InfoReply { version: "0.1".to_string(), server_id }))
    }

    // lssd put handler: keys sorted, client HMAC, "next version" rule, server HMAC
    async fn put(&self, request: Request<PutRequest>) -> Result<Response<PutReply>, Status> {
        let request = request.into_inner();
        let auth = request.auth.ok_or_else(|| Status::invalid_argument("missing auth"))?;
        let secret = self.shared_secret(&auth.client_id)?;
        let kvs: Vec<(String, Value)> = request.kvs.into_iter().map(|kv| kv.into()).collect();
        for w in kvs.windows(2) {
            if w[0].0 > w[1].0 {
                return Err(Status::invalid_argument("keys are not sorted"));
            }
        }
        if compute_shared_hmac(&secret, &[0x01], &kvs) != request.hmac {
            return Err(Status::invalid_argument("invalid client HMAC"));
        }
        let mut clients = self.shared.clients.lock().unwrap();
        let side = clients.entry(auth.client_id.clone()).or_default();
        let mut conflicts = vec![];
        for (key, value) in kvs.iter() {
            let next = side.store.get(key).map(|v| v.version + 1).unwrap_or(0);
            if value.version != next {
                let (version, value) =
                    side.store.get(key).map(|v| (v.version, v.value.clone())).unwrap_or((-1, vec![]));
                conflicts.push(KeyValue { key: key.clone(), version, value });
            }
        }
        if !conflicts.is_empty() {
            return Ok(Response::new(PutReply { success: false, hmac: vec![], conflicts }));
        }
        for (key, value) in kvs.iter() {
            side.store.insert(key.clone(), value.clone());
        }
        let hmac = compute_shared_hmac(&secret, &[0x02], &kvs);
        Ok(Response::new(PutReply { success: true, hmac, conflicts: vec![] }))
    }

    // the intermediary in front of the lssd get handler
    async fn get(&self, request: Request<GetRequest>) -> Result<Response<GetReply>, Status> {
        let request = request.into_inner();
        let auth = request.auth.ok_or_else(|| Status::invalid_argument("missing auth"))?;
        let secret = self.shared_secret(&auth.client_id)?;
        let mut clients = self.shared.clients.lock().unwrap();
        let side = clients.entry(auth.client_id.clone()).or_default();
        side.nonces.push(request.nonce.clone());
        let reply = match side.replay_next.take() {
            Some(j) => side.replies[j - 1].clone(),
            None => {
                let kvs: Vec<(String, Value)> = side
                    .store
                    .iter()
                    .filter(|(k, _)| k.starts_with(&request.key_prefix))
                    .map(|(k, v)| (k.clone(), v.clone()))
                    .collect();
                let hmac = compute_shared_hmac(&secret, &request.nonce, &kvs);
                GetReply { kvs: kvs.into_iter().map(|kv| kv.into()).collect(), hmac }
            }
        };
        side.replies.push(reply.clone());
        Ok(Response::new(reply))
    }
}

fn arg(name: &str) -> Option<String> {
    let args: Vec<String> = std::env::args().collect();
    let key = format!("--{}", name);
    (0..args.len()).find(|i| args[*i] == key && i + 1 < args.len()).map(|i| args[i + 1].clone())
}

fn bytes(v: &J) -> Vec<u8> {
    v.as_array().map(|a| a.iter().map(|b| b.as_u64().expect("byte") as u8).collect()).unwrap_or_default()
}

fn jrecs(kvs: &[(String, Value)]) -> J {
    J::Array(
        kvs.iter()
            .map(|(k, v)| json!({"k": k.as_bytes(), "v": (v.version as u64).to_be_bytes().to_vec(), "x": v.value}))
            .collect(),
    )
}

fn err_name(e: &ClientError) -> String {
    match e {
        ClientError::Connect(_) => "Connect".into(),
        ClientError::Tonic(s) => format!("Tonic:{:?}", s.code()),
        ClientError::InvalidResponse => "InvalidResponse".into(),
        ClientError::InvalidHmac(_, _) => "InvalidHmac".into(),
        ClientError::InvalidServerHmac() => "InvalidServerHmac".into(),
        ClientError::PutConflict(_) => "PutConflict".into(),
    }
}

struct Rig {
    uri: String,
    server_id: PublicKey,
    shared: Arc<Shared>,
}

async fn start() -> Rig {
    let secp = Secp256k1::new();
    let server_key = SecretKey::from_slice(&[0x11; 32]).unwrap();
    let server_id = PublicKey::from_secret_key(&secp, &server_key);
    let port = TcpListener::bind("127.0.0.1:0").unwrap().local_addr().unwrap().port();
    let addr = format!("127.0.0.1:{}", port).parse().unwrap();
    let shared = Arc::new(Shared::default());
    let endpoint = Endpoint { server_key, shared: shared.clone() };
    tokio::spawn(async move {
        tonic::transport::Server::builder()
            .add_service(LightningStorageServer::new(endpoint))
            .serve(addr)
            .await
            .expect("serve");
    });
    Rig { uri: format!("http://127.0.0.1:{}", port), server_id, shared }
}

/// a fresh client identity per session: its own namespace on the server, its own connection
async fn connect(rig: &Rig, nseq: usize) -> (PrivClient, Vec<u8>) {
    let secp = Secp256k1::new();
    let mut kb = [0x22u8; 32];
    kb[24..32].copy_from_slice(&(nseq as u64 + 1).to_be_bytes());
    let client_key = SecretKey::from_slice(&kb).unwrap();
    let client_id = PublicKey::from_secret_key(&secp, &client_key).serialize().to_vec();
    let auth = PrivAuth::new_for_client(&client_key, &rig.server_id);
    for _ in 0..200 {
        match PrivClient::new(&rig.uri, auth.clone()).await {
            Ok(c) => return (c, client_id),
            Err(_) => tokio::time::sleep(Duration::from_millis(50)).await,
        }
    }
    panic!("could not connect to the in-process endpoint");
}

async fn step(rig: &Rig, client: &mut PrivClient, client_id: &[u8], r: &J) -> J {
    let op = r["op"].as_str().unwrap_or("");
    match op {
        "Put" => {
            let kvs: Vec<(String, Value)> = r["recs"]
                .as_array()
                .cloned()
                .unwrap_or_default()
                .iter()
                .map(|x| {
                    let mut a = [0u8; 8];
                    a.copy_from_slice(&bytes(&x["v"]));
                    (
                        String::from_utf8(bytes(&x["k"])).expect("key"),
                        Value { version: u64::from_be_bytes(a) as i64, value: bytes(&x["x"]) },
                    )
                })
                .collect();
            match client.put(&HMAC_SECRET, kvs).await {
                Ok(()) => json!({"ok": true, "err": "", "nonce": [], "recs": []}),
                Err(e) => json!({"ok": false, "err": err_name(&e), "nonce": [], "recs": []}),
            }
        }
        "Get" | "GetReplay" => {
            let before = {
                let mut clients = rig.shared.clients.lock().unwrap();
                let side = clients.entry(client_id.to_vec()).or_default();
                if op == "GetReplay" {
                    side.replay_next = Some(r["j"].as_u64().expect("j") as usize);
                }
                side.nonces.len()
            };
            let prefix = String::from_utf8(bytes(&r["p"])).expect("prefix");
            let res = client.get(&HMAC_SECRET, prefix).await;
            // the nonce the real client put on the wire for this request
            let nonce = {
                let clients = rig.shared.clients.lock().unwrap();
                let side = &clients[client_id];
                if side.nonces.len() == before + 1 {
                    side.nonces[before].clone()
                } else {
                    vec![]
                }
            };
            match res {
                Ok(kvs) => json!({"ok": true, "err": "", "nonce": nonce, "recs": jrecs(&kvs)}),
                Err(e) => json!({"ok": false, "err": err_name(&e), "nonce": nonce, "recs": []}),
            }
        }
        other => panic!("unknown op {}", other),
    }
}

async fn run_one(rig: &Rig, seq: &[J], nseq: usize, out: &mut impl Write) -> u64 {
    let (mut client, client_id) = connect(rig, nseq).await;
    let mut n = 0;
    for (i, r) in seq.iter().enumerate() {
        let resp = step(rig, &mut client, &client_id, r).await;
        writeln!(out, "{}", json!({"seq": nseq, "step": i, "req": r, "resp": resp})).unwrap();
        n += 1;
    }
    rig.shared.clients.lock().unwrap().remove(&client_id);
    n
}

fn ver(n: u64) -> Vec<u8> {
    n.to_be_bytes().to_vec()
}

/// seeded random sessions (input generation only): puts of the next version of a few keys, honest
/// reads, reads answered with an earlier reply
fn random_session(g: &mut StdRng, len: usize) -> Vec<J> {
    let keys: [&[u8]; 3] = [b"ch/1", b"ch/2", b"node"];
    let mut next = [0u64; 3];
    let mut gets = 0u64;
    let mut seq = vec![];
    for _ in 0..len {
        let pick = g.gen_range(0..10);
        if pick < 4 {
            let mut recs = vec![];
            for (i, k) in keys.iter().enumerate() {
                if g.gen_range(0..2) == 0 || (i == 2 && recs.is_empty()) {
                    let x: Vec<u8> = (0..g.gen_range(0..24)).map(|_| g.gen()).collect();
                    recs.push(json!({"k": k, "v": ver(next[i]), "x": x}));
                    next[i] += 1;
                }
            }
            seq.push(json!({"op": "Put", "recs": recs, "p": [], "j": 0}));
        } else {
            let p: &[u8] = [&b""[..], &b"ch/"[..], &b"ch/1"[..], &b"zz"[..]][g.gen_range(0..4)];
            if pick < 7 || gets == 0 {
                seq.push(json!({"op": "Get", "recs": [], "p": p, "j": 0}));
            } else {
                seq.push(json!({"op": "GetReplay", "recs": [], "p": p, "j": g.gen_range(1..=gets)}));
            }
            gets += 1;
        }
    }
    seq
}

#[tokio::main(flavor = "multi_thread", worker_threads = 2)]
async fn main() {
    let cmd = std::env::args().nth(1).unwrap_or_default();
    let rig = start().await;
    let file = std::fs::File::create(arg("out").expect("--out")).expect("create");
    let mut out = std::io::BufWriter::new(file);
    let mut steps = 0;
    let mut nseq = 0;
    match cmd.as_str() {
        "run" => {
            let text = std::fs::read_to_string(arg("seqs").expect("--seqs")).expect("read");
            for line in text.lines().filter(|l| !l.trim().is_empty()) {
                let seq: Vec<J> = serde_json::from_str(line).expect("json");
                steps += run_one(&rig, &seq, nseq, &mut out).await;
                nseq += 1;
            }
        }
        "walk" => {
            let seed: u64 = arg("seed").and_then(|s| s.parse().ok()).unwrap_or(1);
            let want: u64 = arg("steps").and_then(|s| s.parse().ok()).unwrap_or(500);
            let per: usize = arg("per").and_then(|s| s.parse().ok()).unwrap_or(25);
            let mut g = StdRng::seed_from_u64(seed);
            while steps < want {
                let seq = random_session(&mut g, per);
                steps += run_one(&rig, &seq, nseq, &mut out).await;
                nseq += 1;
            }
        }
        _ => {
            eprintln!("usage: authcli run|walk ...");
            std::process::exit(2);
        }
    }
    out.flush().unwrap();
    println!("{}", json!({"sequences": nseq, "steps": steps}));
}
