//! Channel enforcement-state driver shared by the `chan` and `locks` binaries
//! (originally: Channel enforcement-state explorer (legs B and C for C01, C02, C03, C10, C11).
//!
//!   chan explore --alphabet alphabet.json --n 3 --out DIR [--phase ready|stub] [--threads 16]
//!        exhaustive breadth-first exploration of the REAL implementation's state graph:
//!        every request of the alphabet is applied to every discovered state; one ndjson
//!        record per edge.  No property logic here: TLC judges the edges.
//!   chan run --alphabet alphabet.json --seqs seqs.ndjson --out FILE
//!        replays request sequences (TLC-generated behaviours or a replay file) from the
//!        initial state and records one edge per step.
use std::collections::HashMap;


use bitcoin::secp256k1::ecdsa::Signature;
use bitcoin::secp256k1::{PublicKey, SecretKey};
use bitcoin::Network;
use lightning::types::payment::PaymentHash;
use lightning_signer::channel::{ChannelId, ChannelSlot, CommitmentType};
use lightning_signer::policy::validator::EnforcementState;
use lightning_signer::tx::tx::{CommitmentInfo2, HTLCInfo2};
use lightning_signer::util::status::Status;
use lightning_signer::util::test_utils::{
    channel_commitment, counterparty_sign_holder_commitment, TestChannelContext,
};
use serde_json::{json, Value};
use crate::*;

pub const CHANNEL_VALUE: u64 = 3_000_000;
pub const PUSH_MSAT: u64 = 100_000_000;

#[derive(Clone)]
pub struct Content {
    pub to_holder: u64,
    pub to_cp: u64,
    pub received: Vec<HTLCInfo2>,
    pub offered: Vec<HTLCInfo2>,
}

pub fn content(name: &str) -> Content {
    let h = HTLCInfo2 { value_sat: 10_000, payment_hash: PaymentHash([7u8; 32]), cltv_expiry: 500 };
    match name {
        "A" => Content { to_holder: 2_999_000, to_cp: 0, received: vec![], offered: vec![] },
        "B" => Content { to_holder: 2_899_000, to_cp: 100_000, received: vec![], offered: vec![] },
        "H" => Content { to_holder: 2_889_000, to_cp: 100_000, received: vec![h], offered: vec![] },
        "P" => Content { to_holder: 2_998_900, to_cp: 100, received: vec![], offered: vec![] },
        _ => panic!("unknown content {}", name),
    }
}

pub const CONTENT_NAMES: [&str; 4] = ["A", "B", "H", "P"];

pub fn holder_info(c: &Content) -> CommitmentInfo2 {
    CommitmentInfo2::new(false, c.to_cp, c.to_holder, c.offered.clone(), c.received.clone(), 0)
}
pub fn cp_info(c: &Content) -> CommitmentInfo2 {
    // counterparty broadcasts: countersigner = holder; "received" by the holder = offered by cp
    CommitmentInfo2::new(true, c.to_holder, c.to_cp, c.received.clone(), c.offered.clone(), 0)
}

pub struct Snap {
    pub phase: &'static str,
    pub estate: Option<EnforcementState>,
    pub nsnap: NodeSnap,
    pub store: Vec<(String, u64, Vec<u8>)>,
}

pub struct Sigs {
    pub commit: Signature,
    pub htlc: Vec<Signature>,
}

/// Deep-index exploration: the counterparty side starts after BASE honest commitment cycles
/// (SignCp 0..=BASE, ValidateRevocation 0..=BASE-2, all tree A / content A), so that the
/// explored numbers straddle BASE.  0 (default): start at the beginning.
pub static BASE: std::sync::atomic::AtomicU64 = std::sync::atomic::AtomicU64::new(0);
pub fn base() -> u64 {
    BASE.load(std::sync::atomic::Ordering::Relaxed)
}

fn tree_names(nmax: u64) -> &'static HashMap<Vec<u8>, (&'static str, u64)> {
    static T: std::sync::OnceLock<HashMap<Vec<u8>, (&'static str, u64)>> = std::sync::OnceLock::new();
    T.get_or_init(|| {
        let mut m = HashMap::new();
        for t in ["A", "B"] {
            for k in 0..=base() + nmax + 4 {
                m.insert(tree_point(&tree_of(t), k).serialize().to_vec(), (t, k));
                m.insert(tree_secret(&tree_of(t), k).secret_bytes().to_vec(), (t, k));
            }
        }
        m
    })
}

/// the funding transaction of the "ready-onchain" fixture (its txid is the channel's funding outpoint)
pub fn onchain_funding_tx() -> bitcoin::Transaction {
    use bitcoin::{absolute::LockTime, transaction::Version, Amount, ScriptBuf, Sequence, TxIn, TxOut, Witness};
    bitcoin::Transaction {
        version: Version::TWO,
        lock_time: LockTime::ZERO,
        input: vec![TxIn {
            previous_output: bitcoin::OutPoint { txid: { use bitcoin::hashes::Hash; bitcoin::Txid::from_slice(&[9u8; 32]).unwrap() }, vout: 1 },
            script_sig: ScriptBuf::new(),
            sequence: Sequence(0xFFFF_FFFD),
            witness: Witness::default(),
        }],
        output: vec![TxOut { value: Amount::from_sat(CHANNEL_VALUE), script_pubkey: ScriptBuf::from_bytes(vec![0x51, 0x01, 0x01]) }],
    }
}

pub struct Ctx {
    pub fx: NodeFx,
    pub id: ChannelId,
    pub cc: Option<TestChannelContext>,
    pub nmax: u64,
    /// (n, content, kind) -> signatures
    pub sigs: HashMap<(u64, String, String), Sigs>,
    /// (n, content) -> the canonical holder commitment transaction and its output witness scripts
    /// (what the raw / phase-1 entry point `validate_holder_commitment_tx` is given)
    pub raw: HashMap<(u64, String), (bitcoin::Transaction, Vec<Vec<u8>>)>,
}

impl Ctx {
    /// phase "ready" / "stub"; "ready-onchain" = a ready channel on a node whose validator stack is the one vlsd
    /// installs (OnchainValidatorFactory wrapping the simple validator), with the funding transaction confirmed
    /// deeply enough for the on-chain validator to allow commitments beyond the initial one
    pub fn new(phase: &str, nmax: u64) -> Ctx {
        if phase.ends_with("-onchain") {
            use lightning_signer::policy::onchain_validator::OnchainValidatorFactory;
            let fx = NodeFx::new_with_factory(Network::Regtest, std::sync::Arc::new(OnchainValidatorFactory::new()));
            return Ctx::with_fx(fx, phase, nmax);
        }
        Ctx::with_fx(NodeFx::new(Network::Regtest, None), phase, nmax)
    }

    pub fn with_fx(fx: NodeFx, phase: &str, nmax: u64) -> Ctx {
        Ctx::with_fx_opts(fx, phase, nmax, true)
    }

    /// `precompute = false`: the caller installs the (deterministic) signature table itself
    pub fn with_fx_opts(fx: NodeFx, phase: &str, nmax: u64, precompute: bool) -> Ctx {
        let mut ctx = Ctx { fx, id: ChannelId::new(&[0u8; 32]), cc: None, nmax, sigs: HashMap::new(), raw: HashMap::new() };
        let probe = NodeFx { node: ctx.fx.node.clone(), store: ctx.fx.store.clone(), clock: ctx.fx.clock.clone(),
                             policy: None, network: ctx.fx.network, cloud: ctx.fx.cloud.clone(), factory: ctx.fx.factory.clone() };
        let onchain = phase.ends_with("-onchain");
        let phase = phase.trim_end_matches("-onchain").to_string();
        let ((), _) = probe.tx(|| {
            let id = new_stub(&ctx.fx, 1);
            ctx.id = id.clone();
            if phase == "ready" {
                let mut setup = test_setup(CHANNEL_VALUE, PUSH_MSAT, CommitmentType::StaticRemoteKey, 2);
                let ftx = onchain_funding_tx();
                if onchain {
                    setup.funding_outpoint = bitcoin::OutPoint { txid: ftx.compute_txid(), vout: 0 };
                }
                let cc = ready_channel(&ctx.fx, &id, setup.clone());
                ctx.cc = Some(cc);
                if onchain {
                    // confirm the funding transaction and bury it; the tracker entry (which holds the monitor
                    // state) is written to the store so that a restarted signer sees the same chain
                    use lightning_signer::persist::Persist;
                    let monitor = {
                        let tracker = ctx.fx.node.get_tracker();
                        tracker.listeners.get(&setup.funding_outpoint).map(|(m, _)| m.clone()).expect("monitor")
                    };
                    for b in 1..=10u8 {
                        let txs = if b == 1 { vec![ftx.clone()] } else { vec![] };
                        let h = { use bitcoin::hashes::Hash; bitcoin::BlockHash::from_slice(&[b; 32]).unwrap() };
                        { use lightning_signer::chain::tracker::ChainListener; monitor.on_add_block(&txs, &h); }
                    }
                    let tracker = ctx.fx.node.get_tracker();
                    ctx.fx.store.update_tracker(&ctx.fx.node.get_id(), &tracker).expect("update_tracker");
                }
                if precompute {
                    ctx.precompute_sigs();
                }
                for n in 0..=base() {
                    if base() == 0 {
                        break;
                    }
                    let r = ctx.apply(&json!({"op": "SignCp", "n": n, "t": "A", "c": "A"}));
                    assert!(r["ok"] == true, "honest prefix SignCp({}) refused: {}", n, r);
                    if n >= 1 && n - 1 + 2 <= base() {
                        let r = ctx.apply(&json!({"op": "ValidateRevocation", "n": n - 1, "t": "A", "m": n - 1}));
                        assert!(r["ok"] == true, "honest prefix ValidateRevocation({}) refused: {}", n - 1, r);
                    }
                }
            }
        });
        ctx
    }

    pub fn precompute_sigs(&mut self) {
        let node_ctx = self.fx.node_ctx();
        let cc = self.cc.as_ref().unwrap();
        let saved = self
            .fx
            .node
            .with_channel(&self.id, |chan| Ok(chan.enforcement_state.clone()))
            .unwrap();
        for n in 0..=self.nmax + 2 {
            self.fx
                .node
                .with_channel(&self.id, |chan| {
                    chan.enforcement_state.set_next_holder_commit_num_for_testing(n);
                    Ok(())
                })
                .unwrap();
            let mut good: HashMap<String, Sigs> = HashMap::new();
            for name in CONTENT_NAMES {
                let c = content(name);
                let mut tctx = channel_commitment(
                    &node_ctx,
                    cc,
                    n,
                    0,
                    c.to_holder,
                    c.to_cp,
                    c.offered.clone(),
                    c.received.clone(),
                );
                let (cs, hs) = counterparty_sign_holder_commitment(&node_ctx, cc, &mut tctx);
                good.insert(name.to_string(), Sigs { commit: cs, htlc: hs });
                // the same commitment as a raw transaction with its witness scripts
                let tx = tctx.tx.as_ref().unwrap().trust().built_transaction().transaction.clone();
                let wits = self
                    .fx
                    .node
                    .with_channel(&self.id, |chan| {
                        use lightning_signer::util::test_utils::build_tx_scripts;
                        let channel_parameters = chan.make_channel_parameters();
                        let parameters = channel_parameters.as_holder_broadcastable();
                        use lightning::ln::chan_utils::TxCreationKeys;
                        use lightning::sign::ChannelSigner;
                        use lightning_signer::channel::ChannelBase;
                        let point = chan.get_per_commitment_point(n)?;
                        let hpk = chan.keys.pubkeys().clone();
                        let cpk = chan.setup.counterparty_points.clone();
                        let keys = TxCreationKeys::derive_new(
                            &bitcoin::secp256k1::Secp256k1::new(),
                            &point,
                            &hpk.delayed_payment_basepoint,
                            &hpk.htlc_basepoint,
                            &cpk.revocation_basepoint,
                            &cpk.htlc_basepoint,
                        );
                        let htlcs = lightning_signer::channel::Channel::htlcs_info2_to_oic(&c.offered, &c.received);
                        let scripts = build_tx_scripts(
                            &keys,
                            tctx.to_broadcaster,
                            tctx.to_countersignatory,
                            &htlcs,
                            &parameters,
                            &hpk.funding_pubkey,
                            &cpk.funding_pubkey,
                        )
                        .expect("scripts");
                        Ok(scripts.iter().map(|s| s.as_bytes().to_vec()).collect::<Vec<_>>())
                    })
                    .expect("witness scripts");
                self.raw.insert((n, name.to_string()), (tx, wits));
            }
            for name in CONTENT_NAMES {
                let g = &good[name];
                self.sigs.insert(
                    (n, name.to_string(), "good".into()),
                    Sigs { commit: g.commit, htlc: g.htlc.clone() },
                );
                // commitment signature valid for ANOTHER content of the same number
                let other = if name == "A" { "B" } else { "A" };
                self.sigs.insert(
                    (n, name.to_string(), "badcommit".into()),
                    Sigs { commit: good[other].commit, htlc: g.htlc.clone() },
                );
                // good commitment signature, HTLC signature replaced by the commitment signature
                if !g.htlc.is_empty() {
                    self.sigs.insert(
                        (n, name.to_string(), "badhtlc".into()),
                        Sigs { commit: g.commit, htlc: vec![g.commit; g.htlc.len()] },
                    );
                    // good commitment signature, fewer HTLC signatures than HTLC outputs
                    self.sigs.insert(
                        (n, name.to_string(), "shorthtlc".into()),
                        Sigs { commit: g.commit, htlc: g.htlc[..g.htlc.len() - 1].to_vec() },
                    );
                }
                // "replay": the counterparty's VALID signatures for the same content at the previous
                // commitment number (they verify for n - 1, not for the transaction rebuilt for n)
                if n >= 1 {
                    if let Some(prev) = self.sigs.get(&(n - 1, name.to_string(), "good".to_string())) {
                        let prev = Sigs { commit: prev.commit, htlc: prev.htlc.clone() };
                        self.sigs.insert((n, name.to_string(), "replay".into()), prev);
                    }
                }
            }
        }
        self.fx
            .node
            .with_channel(&self.id, |chan| {
                chan.enforcement_state = saved.clone();
                Ok(())
            })
            .unwrap();
    }

    pub fn snap(&self) -> Snap {
        snap_of(&self.fx, &self.id)
    }

    pub fn restore(&self, s: &Snap) {
        if let Some(es) = &s.estate {
            self.fx
                .node
                .with_channel(&self.id, |chan| {
                    chan.enforcement_state = es.clone();
                    Ok(())
                })
                .expect("restore estate");
        }
        {
            let mut st = self.fx.node.get_state();
            node_restore(&mut st, &s.nsnap);
        }
        load_store(&self.fx.store.0, &s.store);
    }

    // ---- classification of returned values against independently derived ones
    pub fn holder_secret_index(&self, sk: &SecretKey) -> i64 {
        let keys = self.holder_keys();
        for k in 0..=self.nmax + 4 {
            if holder_secret(&keys, k) == sk.secret_bytes() {
                return k as i64;
            }
        }
        -2 // a secret that is none of the expected ones
    }
    pub fn holder_point_index(&self, p: &PublicKey) -> i64 {
        let keys = self.holder_keys();
        for k in 0..=self.nmax + 4 {
            if holder_point(&keys, k) == *p {
                return k as i64;
            }
        }
        -2
    }
    pub fn holder_keys(&self) -> lightning::sign::InMemorySigner {
        let slot = self.fx.node.get_channel(&self.id).unwrap();
        let g = slot.lock().unwrap();
        match &*g {
            ChannelSlot::Stub(s) => s.keys.clone(),
            ChannelSlot::Ready(c) => c.keys.clone(),
        }
    }

    pub fn apply(&self, r: &Value) -> Value {
        let op = r["op"].as_str().unwrap();
        let n = r["n"].as_u64().unwrap_or(0);
        let node = &self.fx.node;
        let id = &self.id;
        let res: Result<Result<Value, Status>, String> = catch(|| match op {
            "GetPoint" => node
                .with_channel_base(id, |b| b.get_per_commitment_point(n))
                .map(|p| json!({"pt": self.holder_point_index(&p)})),
            "GetSecret" => node
                .with_channel_base(id, |b| b.get_per_commitment_secret(n))
                .map(|s| json!({"sec": self.holder_secret_index(&s)})),
            "GetSecretOrNone" => node
                .with_channel_base(id, |b| Ok(b.get_per_commitment_secret_or_none(n)))
                .map(|s| match s {
                    Some(s) => json!({"sec": self.holder_secret_index(&s)}),
                    None => json!({}),
                }),
            "CheckFutureSecret" => {
                let good = r["good"].as_bool().unwrap();
                let keys = self.holder_keys();
                let sk = SecretKey::from_slice(&holder_secret(&keys, if good { n } else { n + 1 }))
                    .unwrap();
                node.with_channel_base(id, |b| b.check_future_secret(n, &sk))
                    .map(|b| json!({"flag": if b { 1 } else { 0 }}))
            }
            "ValidateHolder" => {
                let cname = r["c"].as_str().unwrap();
                let kind = r["sig"].as_str().unwrap();
                let c = content(cname);
                let key = (n, cname.to_string(), kind.to_string());
                let s = self.sigs.get(&key).or_else(|| {
                    // numbers beyond the precomputed range are refused before signatures matter
                    self.sigs.get(&(0, cname.to_string(), "good".to_string()))
                });
                let s = match s {
                    Some(s) => s,
                    None => return Err(Status::invalid_argument("harness: channel not ready")),
                };
                node.with_channel(id, |chan| {
                    chan.validate_holder_commitment_tx_phase2(
                        n,
                        0,
                        c.to_holder,
                        c.to_cp,
                        c.offered.clone(),
                        c.received.clone(),
                        &s.commit,
                        &s.htlc,
                    )
                })
                .map(|_| json!({}))
            }
            // the raw-transaction (phase 1) entry point: what ValidateCommitmentTx of the protocol carries
            "ValidateHolderRaw" => {
                let cname = r["c"].as_str().unwrap();
                let kind = r["sig"].as_str().unwrap();
                let c = content(cname);
                let s = self.sigs.get(&(n, cname.to_string(), kind.to_string()))
                    .or_else(|| self.sigs.get(&(0, cname.to_string(), "good".to_string())));
                let raw = self.raw.get(&(n, cname.to_string())).or_else(|| self.raw.get(&(0, cname.to_string())));
                match (s, raw) {
                    (Some(s), Some((tx, wits))) => node
                        .with_channel(id, |chan| {
                            chan.validate_holder_commitment_tx(tx, wits, n, 0, c.offered.clone(), c.received.clone(), &s.commit, &s.htlc)
                        })
                        .map(|_| json!({})),
                    _ => Err(Status::invalid_argument("harness: channel not ready")),
                }
            }
            "Activate" => node
                .with_channel(id, |chan| chan.activate_initial_commitment())
                .map(|p| json!({"pt": self.holder_point_index(&p)})),
            "Revoke" => node
                .with_channel(id, |chan| chan.revoke_previous_holder_commitment(n))
                .map(|(p, s)| {
                    json!({"pt": self.holder_point_index(&p),
                           "sec": s.map(|s| self.holder_secret_index(&s)).unwrap_or(-1)})
                }),
            "SignHolder" => node
                .with_channel(id, |chan| chan.sign_holder_commitment_tx_phase2(n))
                .map(|_| json!({})),
            "SignHolderRecovery" => node
                .with_channel(id, |chan| chan.sign_holder_commitment_tx_for_recovery(0, &[]))
                .map(|_| json!({})),
            "SignHolderRedundant" => {
                let c = content(r["c"].as_str().unwrap());
                node.with_channel(id, |chan| {
                    chan.sign_holder_commitment_tx_phase2_redundant(
                        n,
                        0,
                        c.to_holder,
                        c.to_cp,
                        c.offered.clone(),
                        c.received.clone(),
                    )
                })
                .map(|_| json!({}))
            }
            "SignMutualClose" => {
                use lightning_signer::node::SpendType;
                use lightning_signer::util::test_utils::make_test_funding_wallet_addr;
                let c = content(r["c"].as_str().unwrap());
                // the funder (holder) pays the closing fee of 1000 sat
                let script = make_test_funding_wallet_addr(&self.fx.node, 1, SpendType::P2wpkh).script_pubkey();
                let cp_script = make_test_funding_wallet_addr(&self.fx.node, 77, SpendType::P2wpkh).script_pubkey();
                let path: bitcoin::bip32::DerivationPath =
                    vec![bitcoin::bip32::ChildNumber::from_normal_idx(1).unwrap()].into();
                let cp = if c.to_cp > 0 { Some(cp_script) } else { None };
                node.with_channel(id, |chan| {
                    chan.sign_mutual_close_tx_phase2(c.to_holder - 1000, c.to_cp, &Some(script.clone()), &cp, &path)
                })
                .map(|_| json!({}))
            }
            "SignMutualCloseRaw" => {
                // the phase-1 entry point: the caller supplies the closing transaction itself
                use bitcoin::{absolute::LockTime, transaction::Version, Amount, ScriptBuf, Sequence, Transaction, TxIn, TxOut, Witness};
                use lightning_signer::node::SpendType;
                use lightning_signer::util::test_utils::make_test_funding_wallet_addr;
                let c = content(r["c"].as_str().unwrap());
                let script = make_test_funding_wallet_addr(&self.fx.node, 1, SpendType::P2wpkh).script_pubkey();
                let cp_script = make_test_funding_wallet_addr(&self.fx.node, 77, SpendType::P2wpkh).script_pubkey();
                let path: bitcoin::bip32::DerivationPath =
                    vec![bitcoin::bip32::ChildNumber::from_normal_idx(1).unwrap()].into();
                let mut outs = vec![(TxOut { value: Amount::from_sat(c.to_holder - 1000), script_pubkey: script }, path)];
                if c.to_cp > 0 {
                    outs.push((TxOut { value: Amount::from_sat(c.to_cp), script_pubkey: cp_script }, vec![].into()));
                }
                // BIP 69 order, as the canonical closing transaction has it
                outs.sort_by(|a, b| a.0.value.cmp(&b.0.value).then_with(|| a.0.script_pubkey.as_bytes().cmp(b.0.script_pubkey.as_bytes())));
                let funding = self.cc.as_ref().map(|cc| cc.setup.funding_outpoint);
                match funding {
                    None => Err(Status::invalid_argument("harness: channel is not set up")),
                    Some(outpoint) => {
                        let tx = Transaction {
                            version: Version::TWO,
                            lock_time: LockTime::ZERO,
                            input: vec![TxIn { previous_output: outpoint, script_sig: ScriptBuf::new(), sequence: Sequence::MAX, witness: Witness::new() }],
                            output: outs.iter().map(|o| o.0.clone()).collect(),
                        };
                        let opaths: Vec<bitcoin::bip32::DerivationPath> = outs.iter().map(|o| o.1.clone()).collect();
                        node.with_channel(id, |chan| chan.sign_mutual_close_tx(&tx, &opaths)).map(|_| json!({}))
                    }
                }
            }
            "SignCp" => {
                let c = content(r["c"].as_str().unwrap());
                let pt = tree_point(&tree_of(r["t"].as_str().unwrap()), n);
                node.with_channel(id, |chan| {
                    chan.sign_counterparty_commitment_tx_phase2(
                        &pt,
                        n,
                        0,
                        c.to_holder,
                        c.to_cp,
                        // HTLCs from the counterparty's point of view
                        c.received.clone(),
                        c.offered.clone(),
                    )
                })
                .map(|_| json!({}))
            }
            "ValidateRevocation" => {
                let m = r["m"].as_u64().unwrap();
                let sk = tree_secret(&tree_of(r["t"].as_str().unwrap()), m);
                node.with_channel(id, |chan| chan.validate_counterparty_revocation(n, &sk))
                    .map(|_| json!({}))
            }
            _ => Err(Status::invalid_argument("harness: unknown op")),
        });
        match res {
            Ok(Ok(v)) => json!({
                "ok": true,
                "sec": v.get("sec").and_then(|x| x.as_i64()).unwrap_or(-1),
                "pt": v.get("pt").and_then(|x| x.as_i64()).unwrap_or(-1),
                "flag": v.get("flag").and_then(|x| x.as_i64()).unwrap_or(-1),
                "err": "",
            }),
            Ok(Err(st)) => json!({"ok": false, "sec": -1, "pt": -1, "flag": -1,
                                   "err": format!("{:?}: {}", st.code(), first_words(st.message()))}),
            Err(p) => json!({"ok": false, "sec": -1, "pt": -1, "flag": -1, "err": format!("PANIC: {}", p)}),
        }
    }
}

pub fn first_words(s: &str) -> String {
    s.chars().take(90).collect()
}

pub fn snap_of(fx: &NodeFx, id: &ChannelId) -> Snap {
    let slot = fx.node.get_channel(id).unwrap();
    let g = slot.lock().unwrap();
    let (phase, estate) = match &*g {
        ChannelSlot::Stub(_) => ("stub", None),
        ChannelSlot::Ready(c) => ("ready", Some(c.enforcement_state.clone())),
    };
    drop(g);
    let nsnap = node_snap(&fx.node.get_state());
    Snap { phase, estate, nsnap, store: dump_store(&fx.store.0) }
}

// ---- projection of the concrete enforcement state onto Channel.tla's variables
pub fn content_name(info: &Option<CommitmentInfo2>, holder: bool) -> String {
    match info {
        None => "none".into(),
        Some(i) => {
            for name in CONTENT_NAMES {
                let c = content(name);
                let e = if holder { holder_info(&c) } else { cp_info(&c) };
                if &e == i {
                    return name.into();
                }
            }
            "?".into()
        }
    }
}

pub fn point_name(p: &Option<PublicKey>, nmax: u64) -> Value {
    match p {
        None => json!({"t": "none", "n": -1}),
        Some(p) => {
            match tree_names(nmax).get(&p.serialize().to_vec()) {
                Some((t, k)) => json!({"t": t, "n": k}),
                None => json!({"t": "?", "n": -2}),
            }
        }
    }
}

pub fn project(s: &Snap, nmax: u64) -> Value {
    match &s.estate {
        None => json!({"phase": s.phase, "nh": 0, "curH": "none", "nextH": "none", "closed": false,
                       "nc": 0, "nr": 0, "curC": "none", "prevC": "none",
                       "curPt": {"t": "none", "n": -1}, "prevPt": {"t": "none", "n": -1}, "sec": []}),
        Some(es) => {
            // the secret store is only visible through serde
            let v = serde_json::to_value(es).unwrap();
            let mut sec = vec![];
            if let Some(arr) = v["counterparty_secrets"]["old_secrets"].as_array() {
                for e in arr {
                    let bytes: Vec<u8> = match &e[0] {
                        Value::String(h) => hex::decode(h).unwrap(),
                        Value::Array(a) => a.iter().map(|x| x.as_u64().unwrap() as u8).collect(),
                        _ => vec![],
                    };
                    let idx = e[1].as_u64().unwrap();
                    let n = INITIAL_COMMITMENT_NUMBER - idx;
                    // a stored secret is named by the tree AND number it is the secret of
                    let t = match tree_names(nmax).get(&bytes) {
                        Some((tn, k)) if *k == n => *tn,
                        _ => "?",
                    };
                    sec.push(json!({"t": t, "n": n}));
                }
            }
            json!({
                "phase": s.phase,
                "nh": es.next_holder_commit_num,
                "curH": content_name(&es.current_holder_commit_info, true),
                "nextH": content_name(&es.next_holder_commit_info.as_ref().map(|x| x.0.clone()), true),
                "closed": es.channel_closed,
                "nc": es.next_counterparty_commit_num,
                "nr": es.next_counterparty_revoke_num,
                "curC": content_name(&es.current_counterparty_commit_info, false),
                "prevC": content_name(&es.previous_counterparty_commit_info, false),
                "curPt": point_name(&es.current_counterparty_point, nmax),
                "prevPt": point_name(&es.previous_counterparty_point, nmax),
                "sec": sec,
            })
        }
    }
}

/// component digests: [enforcement state, node state, store (exact, with versions)]
pub fn comp_digests(s: &Snap, network: Network, fx: &NodeFx) -> (String, String, String, String) {
    let es = serde_json::to_value(&s.estate).unwrap();
    // rebuild a NodeState-shaped json from the snapshot via a scratch restore
    let ns = {
        let mut st = fx.node.get_state();
        let keep = node_snap(&st);
        node_restore(&mut st, &s.nsnap);
        let j = node_state_json(&st, network);
        node_restore(&mut st, &keep);
        j
    };
    let store_exact = dump_to_json(&s.store);
    let store_vals = Value::Array(
        s.store
            .iter()
            .map(|(k, _v, x)| json!([k, String::from_utf8_lossy(x).to_string()]))
            .collect(),
    );
    (digest(&es), digest(&ns), digest(&store_exact), digest(&store_vals))
}

pub fn state_key(d: &(String, String, String, String), phase: &str) -> String {
    // versions are left out of the identity of a state (they grow on every retry)
    digest(&json!([phase, d.0, d.1, d.3]))
}

/// compare the running signer with one restored from a copy of its store (C11 observation)
pub fn restart_view(ctx: &Ctx) -> (Value, Option<Snap>) {
    match ctx.fx.restart_copy() {
        Err(e) => (json!({"restored": false, "equal": false, "diff": [e]}), None),
        Ok(fx2) => {
            let a = ctx.snap();
            let b = snap_of(&fx2, &ctx.id);
            let mut diff = vec![];
            if a.phase != b.phase {
                diff.push("phase".to_string());
            }
            let ea = serde_json::to_value(&a.estate).unwrap();
            let eb = serde_json::to_value(&b.estate).unwrap();
            if ea != eb {
                if let (Some(oa), Some(ob)) = (ea.as_object(), eb.as_object()) {
                    for (k, v) in oa {
                        if ob.get(k) != Some(v) {
                            diff.push(format!("estate.{}", k));
                        }
                    }
                } else {
                    diff.push("estate".into());
                }
            }
            // ... and through the Debug form, which does not depend on the serde attributes the store uses
            if diff.is_empty() && format!("{:?}", a.estate) != format!("{:?}", b.estate) {
                diff.push("estate.debug".into());
            }
            let na = node_state_json(&ctx.fx.node.get_state(), ctx.fx.network);
            let nb = node_state_json(&fx2.node.get_state(), fx2.network);
            for k in ["invoices", "issued", "allow", "dbid", "vc", "fvc"] {
                if na[k] != nb[k] {
                    diff.push(format!("node.{}", k));
                }
            }
            // preimages known to the node
            let pre = |j: &Value| -> Vec<String> {
                j["payments"]
                    .as_array()
                    .unwrap()
                    .iter()
                    .filter_map(|p| p[1]["pre"].as_str().map(|s| s.to_string()))
                    .collect()
            };
            if pre(&na) != pre(&nb) {
                diff.push("node.preimages".into());
            }
            (json!({"restored": true, "equal": diff.is_empty(), "diff": diff}), Some(b))
        }
    }
}

