//! Node / channel fixtures over the real crates.
use std::sync::Arc;
use std::time::Duration;

use bitcoin::bip32::DerivationPath;
use bitcoin::hashes::Hash;
use bitcoin::secp256k1::{self, PublicKey, Secp256k1, SecretKey};
use bitcoin::{Network, Txid};
use lightning::ln::chan_utils::build_commitment_secret;
use lightning::sign::InMemorySigner;
use lightning_signer::channel::{ChannelId, ChannelSetup, CommitmentType};
use lightning_signer::node::{Node, NodeConfig, NodeServices};
use lightning_signer::persist::{MemorySeedPersister, Persist};
use lightning_signer::policy::simple_validator::{
    make_default_simple_policy, SimplePolicy, SimpleValidatorFactory,
};
use lightning_signer::policy::validator::ValidatorFactory;
use lightning_signer::util::clock::ManualClock;
use lightning_signer::util::test_utils::key::make_test_counterparty_points;
use lightning_signer::util::test_utils::{
    make_test_counterparty_keys, FixedStartingTimeFactory,
    TestChannelContext, TestNodeContext,
};
use serde_json::{json, Value};
use vls_persist::kvv::memory::MemoryKVVStore;
use vls_persist::kvv::{JsonFormat, KVVPersister, KVVStore, KVV};

pub const INITIAL_COMMITMENT_NUMBER: u64 = (1 << 48) - 1;
pub const SEED_HEX: &str = "6c696768746e696e672d32000000000000000000000000000000000000000000";
/// commitment seed of counterparty secret tree "A" (= test_utils counterparty keys) and "B"
pub const TREE_A: [u8; 32] = [3u8; 32];
pub const TREE_B: [u8; 32] = [5u8; 32];
pub const NOW_SECS: u64 = 1_700_000_000;

pub type MemPersister = KVVPersister<MemoryKVVStore, JsonFormat>;
pub type CloudPersister = KVVPersister<vls_persist::kvv::cloud::CloudKVVStore<MemoryKVVStore>, JsonFormat>;

pub fn seed() -> [u8; 32] {
    let mut seed = [0u8; 32];
    seed.copy_from_slice(&hex::decode(SEED_HEX).unwrap());
    seed
}

pub fn new_mem_persister() -> Arc<MemPersister> {
    Arc::new(KVVPersister(MemoryKVVStore::new([1u8; 16]), JsonFormat))
}

pub fn make_services(
    persister: Arc<dyn Persist>,
    clock: Arc<ManualClock>,
    policy: Option<SimplePolicy>,
) -> NodeServices {
    let validator_factory: Arc<dyn ValidatorFactory> = match policy {
        Some(p) => Arc::new(SimpleValidatorFactory::new_with_policy(p)),
        None => Arc::new(SimpleValidatorFactory::new()),
    };
    NodeServices {
        validator_factory,
        starting_time_factory: FixedStartingTimeFactory::new(NOW_SECS, 0),
        persister,
        clock,
        trusted_oracle_pubkeys: vec![],
    }
}

/// all (key, version, value) of a store
pub fn dump_store<S: KVVStore>(store: &S) -> Vec<(String, u64, Vec<u8>)> {
    store.get_prefix("").expect("get_prefix").map(|kvv| (kvv.0, kvv.1 .0, kvv.1 .1)).collect()
}

pub fn dump_to_json(d: &[(String, u64, Vec<u8>)]) -> Value {
    Value::Array(
        d.iter()
            .map(|(k, v, x)| json!([k, v, String::from_utf8_lossy(x).to_string()]))
            .collect(),
    )
}

pub fn load_store<S: KVVStore>(store: &S, d: &[(String, u64, Vec<u8>)]) {
    store.clear_database().expect("clear");
    store
        .put_batch(d.iter().map(|(k, v, x)| KVV(k.clone(), (*v, x.clone()))).collect())
        .expect("put_batch");
}

/// A node over an in-memory KVV store, created the way HandlerBuilder::build does.
pub struct NodeFx {
    pub node: Arc<Node>,
    pub store: Arc<MemPersister>,
    pub clock: Arc<ManualClock>,
    pub policy: Option<SimplePolicy>,
    pub network: Network,
    /// set when the node runs over the cloud-staged (transactional) store instead of `store`
    pub cloud: Option<Arc<CloudPersister>>,
    /// set by `new_with_factory`: the validator stack (e.g. OnchainValidatorFactory); a restart keeps it
    pub factory: Option<Arc<dyn ValidatorFactory>>,
}

impl NodeFx {
    /// A node over CloudKVVStore<MemoryKVVStore>: every request must run inside
    /// enter() .. prepare() .. commit() (see `tx`).
    pub fn new_cloud(network: Network) -> NodeFx {
        let cloud: Arc<CloudPersister> = Arc::new(KVVPersister(
            vls_persist::kvv::cloud::CloudKVVStore::new(MemoryKVVStore::new([1u8; 16])),
            JsonFormat,
        ));
        let clock = Arc::new(ManualClock::new(Duration::from_secs(NOW_SECS)));
        let services = make_services(cloud.clone(), clock.clone(), None);
        let config = NodeConfig::new(network);
        cloud.enter().expect("enter");
        let node = Arc::new(Node::new(config, &seed(), vec![], services));
        node.add_allowlist(&[]).expect("allowlist");
        cloud.new_node(&node.get_id(), &config, &*node.get_state()).expect("new_node");
        cloud.new_tracker(&node.get_id(), &node.get_tracker()).expect("new_tracker");
        let _ = cloud.prepare();
        cloud.commit().expect("commit");
        NodeFx { node, store: new_mem_persister(), clock, policy: None, network, cloud: Some(cloud), factory: None }
    }

    /// run `f` inside a store transaction (no-op wrapper for the plain in-memory store);
    /// returns f's result and the number of mutations prepare() reported
    pub fn tx<T>(&self, f: impl FnOnce() -> T) -> (T, usize) {
        match &self.cloud {
            None => (f(), 0),
            Some(c) => {
                c.enter().expect("enter");
                let r = f();
                let m = c.prepare();
                let n = m.len();
                c.commit().expect("commit");
                (r, n)
            }
        }
    }

    /// restore a signer from the given key-version-values (cloud fixture)
    pub fn restore_from(&self, d: &[(String, u64, Vec<u8>)]) -> Result<NodeFx, String> {
        let cloud: Arc<CloudPersister> = Arc::new(KVVPersister(
            vls_persist::kvv::cloud::CloudKVVStore::new(MemoryKVVStore::new([1u8; 16])),
            JsonFormat,
        ));
        cloud
            .0
            .put_batch_unlogged(d.iter().map(|(k, v, x)| KVV(k.clone(), (*v, x.clone()))).collect())
            .map_err(|e| format!("{:?}", e))?;
        let clock = Arc::new(ManualClock::new(self.clock_now()));
        let services = make_services(cloud.clone(), clock.clone(), None);
        cloud.enter().map_err(|e| format!("{:?}", e))?;
        let r = crate::catch(|| {
            Node::restore_nodes(services, Arc::new(MemorySeedPersister::new(seed().to_vec())))
        });
        let _ = cloud.prepare();
        let _ = cloud.commit();
        match r {
            Err(p) => Err(format!("panic: {}", p)),
            Ok(Err(st)) => Err(format!("status: {:?}", st)),
            Ok(Ok(nodes)) => {
                let node = nodes.into_iter().next().ok_or("no node restored")?.1;
                Ok(NodeFx { node, store: new_mem_persister(), clock, policy: None, network: self.network, cloud: Some(cloud), factory: None })
            }
        }
    }

    pub fn new(network: Network, policy: Option<SimplePolicy>) -> NodeFx {
        let store = new_mem_persister();
        let clock = Arc::new(ManualClock::new(Duration::from_secs(NOW_SECS)));
        let services = make_services(store.clone(), clock.clone(), policy.clone());
        let config = NodeConfig::new(network);
        let node = Arc::new(Node::new(config, &seed(), vec![], services));
        node.add_allowlist(&[]).expect("allowlist");
        store.new_node(&node.get_id(), &config, &*node.get_state()).expect("new_node");
        store.new_tracker(&node.get_id(), &node.get_tracker()).expect("new_tracker");
        NodeFx { node, store, clock, policy, network, cloud: None, factory: None }
    }

    /// A second signer restored from a *copy* of the store ("crash + restart").
    pub fn restart_copy(&self) -> Result<NodeFx, String> {
        let d = dump_store(&self.store.0);
        let store = new_mem_persister();
        load_store(&store.0, &d);
        let clock = Arc::new(ManualClock::new(self.clock_now()));
        let mut services = make_services(store.clone(), clock.clone(), self.policy.clone());
        if let Some(f) = &self.factory {
            services.validator_factory = f.clone();
        }
        let r = crate::catch(|| {
            Node::restore_nodes(services, Arc::new(MemorySeedPersister::new(seed().to_vec())))
        });
        match r {
            Err(p) => Err(format!("panic: {}", p)),
            Ok(Err(st)) => Err(format!("status: {:?}", st)),
            Ok(Ok(nodes)) => {
                let node = nodes.into_iter().next().ok_or("no node restored")?.1;
                Ok(NodeFx { node, store, clock, policy: self.policy.clone(), network: self.network, cloud: None, factory: self.factory.clone() })
            }
        }
    }

    pub fn clock_now(&self) -> Duration {
        use lightning_signer::util::clock::Clock;
        self.clock.now()
    }

    pub fn node_ctx(&self) -> TestNodeContext {
        TestNodeContext { node: self.node.clone(), secp_ctx: Secp256k1::signing_only() }
    }
}

impl NodeFx {
    /// Like `NodeFx::new`, with an arbitrary validator factory (e.g. OnchainValidatorFactory).
    /// `restart_copy` of such a fixture falls back to the default simple factory.
    pub fn new_with_factory(network: Network, factory: Arc<dyn ValidatorFactory>) -> NodeFx {
        let store = new_mem_persister();
        let clock = Arc::new(ManualClock::new(Duration::from_secs(NOW_SECS)));
        let services = NodeServices {
            validator_factory: factory.clone(),
            starting_time_factory: FixedStartingTimeFactory::new(NOW_SECS, 0),
            persister: store.clone(),
            clock: clock.clone(),
            trusted_oracle_pubkeys: vec![],
        };
        let config = NodeConfig::new(network);
        let node = Arc::new(Node::new(config, &seed(), vec![], services));
        node.add_allowlist(&[]).expect("allowlist");
        store.new_node(&node.get_id(), &config, &*node.get_state()).expect("new_node");
        store.new_tracker(&node.get_id(), &node.get_tracker()).expect("new_tracker");
        NodeFx { node, store, clock, policy: None, network, cloud: None, factory: Some(factory) }
    }
}

pub fn default_policy(network: Network) -> SimplePolicy {
    make_default_simple_policy(network)
}

pub fn peer_id() -> [u8; 33] {
    let secp = Secp256k1::new();
    PublicKey::from_secret_key(&secp, &SecretKey::from_slice(&[42u8; 32]).unwrap()).serialize()
}

pub fn test_setup(
    channel_value_sat: u64,
    push_value_msat: u64,
    commitment_type: CommitmentType,
    funding_byte: u8,
) -> ChannelSetup {
    ChannelSetup {
        is_outbound: true,
        channel_value_sat,
        push_value_msat,
        funding_outpoint: bitcoin::OutPoint {
            txid: Txid::from_slice(&[funding_byte; 32]).unwrap(),
            vout: 0,
        },
        holder_selected_contest_delay: 6,
        holder_shutdown_script: None,
        counterparty_points: make_test_counterparty_points(),
        counterparty_selected_contest_delay: 7,
        counterparty_shutdown_script: None,
        commitment_type,
    }
}

/// new_channel (stub) through the public API; returns the channel id
pub fn new_stub(fx: &NodeFx, dbid: u64) -> ChannelId {
    let (id, _) = fx.node.new_channel(dbid, &peer_id(), &fx.node).expect("new_channel");
    id
}

/// setup_channel; returns the test context (with counterparty keys matching the setup)
pub fn ready_channel(fx: &NodeFx, id: &ChannelId, setup: ChannelSetup) -> TestChannelContext {
    let node_ctx = fx.node_ctx();
    let counterparty_keys = make_test_counterparty_keys(&node_ctx, id, setup.channel_value_sat);
    fx.node
        .setup_channel(id.clone(), None, setup.clone(), &DerivationPath::master())
        .expect("setup_channel");
    TestChannelContext { channel_id: id.clone(), setup, counterparty_keys }
}

/// per-commitment secret / point number n of a counterparty secret tree
pub fn tree_secret(tree: &[u8; 32], n: u64) -> SecretKey {
    SecretKey::from_slice(&build_commitment_secret(tree, INITIAL_COMMITMENT_NUMBER - n)).unwrap()
}

pub fn tree_point(tree: &[u8; 32], n: u64) -> PublicKey {
    let secp = Secp256k1::new();
    PublicKey::from_secret_key(&secp, &tree_secret(tree, n))
}

pub fn tree_of(name: &str) -> [u8; 32] {
    match name {
        "A" => TREE_A,
        "B" => TREE_B,
        _ => panic!("unknown tree {}", name),
    }
}

/// holder per-commitment secret number n, derived independently (LDK) from the channel seed
pub fn holder_secret(keys: &InMemorySigner, n: u64) -> [u8; 32] {
    build_commitment_secret(&keys.commitment_seed, INITIAL_COMMITMENT_NUMBER - n)
}

pub fn holder_point(keys: &InMemorySigner, n: u64) -> PublicKey {
    let secp = Secp256k1::new();
    PublicKey::from_secret_key(&secp, &SecretKey::from_slice(&holder_secret(keys, n)).unwrap())
}

pub fn status_json(st: &lightning_signer::util::status::Status) -> Value {
    json!({"code": format!("{:?}", st.code()), "msg": st.message()})
}

pub fn secp() -> Secp256k1<secp256k1::All> {
    Secp256k1::new()
}

// ---------------------------------------------------------------------------------------------
// node state snapshot / projection

use lightning_signer::node::{NodeState, PaymentState, RoutedPayment};
use lightning_signer::util::velocity::VelocityControl;
use lightning::types::payment::PaymentHash;
use lightning_signer::node::Allowable;
use std::collections::BTreeSet;

#[derive(Clone)]
pub struct NodeSnap {
    pub invoices: Vec<(PaymentHash, PaymentState)>,
    pub issued_invoices: Vec<(PaymentHash, PaymentState)>,
    pub payments: Vec<(PaymentHash, RoutedPayment)>,
    pub excess_amount: u64,
    pub velocity_control: VelocityControl,
    pub fee_velocity_control: VelocityControl,
    pub dbid_high_water_mark: u64,
    pub allowlist: BTreeSet<Allowable>,
}

pub fn node_snap(st: &NodeState) -> NodeSnap {
    NodeSnap {
        invoices: st.invoices.iter().map(|(k, v)| (*k, v.clone())).collect(),
        issued_invoices: st.issued_invoices.iter().map(|(k, v)| (*k, v.clone())).collect(),
        payments: st.payments.iter().map(|(k, v)| (*k, v.clone())).collect(),
        excess_amount: st.excess_amount,
        velocity_control: st.velocity_control.clone(),
        fee_velocity_control: st.fee_velocity_control.clone(),
        dbid_high_water_mark: st.dbid_high_water_mark,
        allowlist: st.allowlist.clone(),
    }
}

pub fn node_restore(st: &mut NodeState, snap: &NodeSnap) {
    st.invoices = snap.invoices.iter().cloned().collect();
    st.issued_invoices = snap.issued_invoices.iter().cloned().collect();
    st.payments = snap.payments.iter().cloned().collect();
    st.excess_amount = snap.excess_amount;
    st.velocity_control = snap.velocity_control.clone();
    st.fee_velocity_control = snap.fee_velocity_control.clone();
    st.dbid_high_water_mark = snap.dbid_high_water_mark;
    st.allowlist = snap.allowlist.clone();
}

fn vc_json(vc: &VelocityControl) -> Value {
    // the lazy rotation of buckets to "now" is not a semantic change: report the
    // control as (limit, interval, non-zero buckets with their absolute start second)
    let mut b = vec![];
    for (i, v) in vc.buckets.iter().enumerate() {
        if *v != 0 {
            b.push(json!([vc.start_sec as i64 - (i as i64) * vc.bucket_interval as i64, v]));
        }
    }
    json!({"limit": vc.limit.to_string(), "interval": vc.bucket_interval, "n": vc.buckets.len(), "b": b})
}

fn pay_state_json(p: &PaymentState) -> Value {
    json!({"ih": hex::encode(p.invoice_hash), "amt": p.amount_msat, "payee": p.payee.to_string(),
           "ts": p.duration_since_epoch.as_secs(), "exp": p.expiry_duration.as_secs(),
           "ff": p.is_fulfilled, "ty": format!("{}", p.payment_type)})
}

/// semantic content of the node state (log-only fields left out)
pub fn node_state_json(st: &NodeState, network: Network) -> Value {
    use lightning_signer::node::ToStringForNetwork;
    let mut inv: Vec<(String, Value)> =
        st.invoices.iter().map(|(k, v)| (hex::encode(k.0), pay_state_json(v))).collect();
    inv.sort_by(|a, b| a.0.cmp(&b.0));
    let mut iss: Vec<(String, Value)> =
        st.issued_invoices.iter().map(|(k, v)| (hex::encode(k.0), pay_state_json(v))).collect();
    iss.sort_by(|a, b| a.0.cmp(&b.0));
    let mut pay: Vec<(String, Value)> = st
        .payments
        .iter()
        .map(|(k, v)| {
            let inc: Vec<Value> =
                v.incoming.iter().map(|(c, a)| json!([hex::encode(c.as_slice()), a])).collect();
            let out: Vec<Value> =
                v.outgoing.iter().map(|(c, a)| json!([hex::encode(c.as_slice()), a])).collect();
            (
                hex::encode(k.0),
                json!({"in": inc, "out": out, "cmin": v.incoming_cltv_min, "cmax": v.outgoing_cltv_max,
                       "pre": v.preimage.map(|p| hex::encode(p.0))}),
            )
        })
        .collect();
    pay.sort_by(|a, b| a.0.cmp(&b.0));
    let allow: Vec<String> = st.allowlist.iter().map(|a| a.to_string(network)).collect();
    json!({"invoices": inv, "issued": iss, "payments": pay, "excess": st.excess_amount,
           "vc": vc_json(&st.velocity_control), "fvc": vc_json(&st.fee_velocity_control),
           "dbid": st.dbid_high_water_mark, "allow": allow})
}

// ---------------------------------------------------------------------------------------------
// whole-signer state (node state, tracker with monitors, every channel) as JSON, for digests and
// for comparing a running signer with a restored one

use lightning_signer::channel::ChannelSlot;
use vls_persist::model::ChainTrackerEntry;

pub fn channels_json(fx: &NodeFx) -> Value {
    let mut out = vec![];
    let ids: Vec<(ChannelId, std::sync::Arc<lightning_signer::prelude::Mutex<ChannelSlot>>)> =
        fx.node.get_channels().iter().map(|(k, v)| (k.clone(), v.clone())).collect();
    for (key, slot) in ids {
        let g = slot.lock().unwrap();
        let v = match &*g {
            ChannelSlot::Stub(s) => json!({"key": hex::encode(key.as_slice()), "phase": "stub",
                                            "id0": hex::encode(s.id0.as_slice()), "blockheight": s.blockheight}),
            ChannelSlot::Ready(c) => json!({"key": hex::encode(key.as_slice()), "phase": "ready",
                                             "id0": hex::encode(c.id0.as_slice()),
                                             "id": c.id.as_ref().map(|i| hex::encode(i.as_slice())),
                                             "estate": serde_json::to_value(&c.enforcement_state).unwrap(),
                                             // the same state through its Debug form: independent of the serde
                                             // attributes / persistence model the store uses
                                             "estate_dbg": format!("{:?}", c.enforcement_state),
                                             "setup": format!("{:?}", c.setup),
                                             "forget": c.monitor.forget_seen()}),
        };
        out.push(v);
    }
    Value::Array(out)
}

pub fn tracker_json(fx: &NodeFx) -> Value {
    let t = fx.node.get_tracker();
    let e = ChainTrackerEntry::from(&*t);
    let mut v = serde_json::to_value(&e).unwrap();
    // a second projection taken directly from the tracker's public fields through Debug: the entry above goes
    // through the very conversion and serde attributes the store uses, so a field dropped THERE would be missing
    // on the running side as well
    let listeners: Vec<Value> = t
        .listeners
        .iter()
        .map(|(k, (l, s))| json!([format!("{:?}", k), format!("{:?}", &*l.get_state()), format!("{:?}", s)]))
        .collect();
    let headers: Vec<String> = t.headers.iter().map(|h| format!("{:?}/{:?}", h.0, h.1)).collect();
    v["direct"] = json!({"headers": headers, "tip": format!("{:?}/{:?}", t.tip.0, t.tip.1), "height": t.height,
                         "network": format!("{:?}", t.network), "listeners": listeners});
    v
}

pub fn full_state_json(fx: &NodeFx) -> Value {
    let ns = node_state_json(&fx.node.get_state(), fx.network);
    json!({"node": ns, "tracker": tracker_json(fx), "channels": channels_json(fx)})
}

/// the part of the node state that must survive a restart (C11): everything except the
/// in-flight payment bookkeeping, which is rebuilt from the channels
pub fn durable_state_json(fx: &NodeFx) -> Value {
    let mut v = full_state_json(fx);
    let pre: Vec<Value> = v["node"]["payments"]
        .as_array()
        .unwrap()
        .iter()
        .filter(|p| !p[1]["pre"].is_null())
        .map(|p| json!([p[0], p[1]["pre"]]))
        .collect();
    v["node"]["preimages"] = Value::Array(pre);
    v["node"].as_object_mut().unwrap().remove("payments");
    // velocity counters are the subject of C12, not of the durable view of C11
    v["node"].as_object_mut().unwrap().remove("vc");
    v["node"].as_object_mut().unwrap().remove("fvc");
    v
}

/// paths of differing leaves (depth-limited), e.g. "channels.0.estate.next_holder_commit_num"
pub fn json_diff(a: &Value, b: &Value, prefix: &str, depth: usize, out: &mut Vec<String>) {
    if a == b {
        return;
    }
    match (a, b) {
        (Value::Object(x), Value::Object(y)) if depth > 0 => {
            let mut keys: Vec<&String> = x.keys().chain(y.keys()).collect();
            keys.sort();
            keys.dedup();
            for k in keys {
                let p = if prefix.is_empty() { k.clone() } else { format!("{}.{}", prefix, k) };
                json_diff(x.get(k).unwrap_or(&Value::Null), y.get(k).unwrap_or(&Value::Null), &p, depth - 1, out);
            }
        }
        (Value::Array(x), Value::Array(y)) if depth > 0 && x.len() == y.len() => {
            for i in 0..x.len() {
                json_diff(&x[i], &y[i], &format!("{}.{}", prefix, i), depth - 1, out);
            }
        }
        _ => out.push(prefix.to_string()),
    }
}
