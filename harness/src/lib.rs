//! Shared fixtures for the verification harness binaries.
//!
//! Every binary drives the *real* crates of /repo through their public API and writes
//! ndjson observation records; all property logic lives in the TLA+ specifications.
#![allow(dead_code)]

pub mod chanlib;
pub mod fx;
pub mod jout;
pub mod nodelib;
pub mod sched;

pub use fx::*;
pub use jout::*;
