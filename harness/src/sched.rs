//! Controlled scheduling of two concurrent requests on one real signer (needs the `vls_verif`
//! traced mutex).  One thread is held before its k-th lock acquisition, the other request is then
//! started and runs until it finishes or blocks, then the held thread continues.
use std::cell::Cell;
use std::sync::atomic::{AtomicBool, AtomicUsize, Ordering};
use std::sync::{Arc, Condvar, Mutex as StdMutex};
use std::time::{Duration, Instant};

use lightning_signer::verif_sync::{set_lock_tracer, LockTracer};
use serde_json::Value;

thread_local! {
    pub static TID: Cell<usize> = Cell::new(usize::MAX);
    pub static NACQ: Cell<usize> = Cell::new(0);
}

#[derive(Clone, Debug)]
pub struct Ev {
    pub tid: usize,
    pub kind: &'static str, // "want" | "acq" | "rel"
    pub class: &'static str,
    pub addr: usize,
}

pub struct Tracer {
    pub events: StdMutex<Vec<Ev>>,
    /// per thread: stop before this acquisition index until released
    pub stop_at: Vec<AtomicUsize>,
    pub arrived: Vec<AtomicBool>,
    pub gate: (StdMutex<bool>, Condvar),
}

impl Tracer {
    pub fn new(nthreads: usize) -> Tracer {
        Tracer {
            events: StdMutex::new(vec![]),
            stop_at: (0..nthreads).map(|_| AtomicUsize::new(usize::MAX)).collect(),
            arrived: (0..nthreads).map(|_| AtomicBool::new(false)).collect(),
            gate: (StdMutex::new(false), Condvar::new()),
        }
    }
    fn push(&self, kind: &'static str, class: &'static str, addr: usize) {
        let tid = TID.with(|t| t.get());
        if tid == usize::MAX {
            return;
        }
        self.events.lock().unwrap().push(Ev { tid, kind, class, addr });
    }
    pub fn open_gate(&self) {
        *self.gate.0.lock().unwrap() = true;
        self.gate.1.notify_all();
    }
}

impl LockTracer for Tracer {
    fn before_lock(&self, class: &'static str, addr: usize) {
        let tid = TID.with(|t| t.get());
        if tid == usize::MAX {
            return;
        }
        let k = NACQ.with(|c| c.get());
        if tid < self.stop_at.len() && self.stop_at[tid].load(Ordering::SeqCst) == k {
            self.arrived[tid].store(true, Ordering::SeqCst);
            let (m, cv) = (&self.gate.0, &self.gate.1);
            let mut open = m.lock().unwrap();
            let deadline = Instant::now() + Duration::from_secs(10);
            while !*open && Instant::now() < deadline {
                let (g, _) = cv.wait_timeout(open, Duration::from_millis(50)).unwrap();
                open = g;
            }
        }
        self.push("want", class, addr);
    }
    fn after_lock(&self, class: &'static str, addr: usize) {
        NACQ.with(|c| c.set(c.get() + 1));
        self.push("acq", class, addr);
    }
    fn unlock(&self, class: &'static str, addr: usize) {
        self.push("rel", class, addr);
    }
}

/// number of lock acquisitions `f` performs when run alone on the calling thread
pub fn count_acquisitions(f: impl FnOnce()) -> usize {
    let tr = Arc::new(Tracer::new(1));
    set_lock_tracer(Some(tr.clone()));
    TID.with(|t| t.set(0));
    NACQ.with(|c| c.set(0));
    f();
    let n = NACQ.with(|c| c.get());
    TID.with(|t| t.set(usize::MAX));
    set_lock_tracer(None);
    n
}

pub struct PairOutcome {
    pub results: [Option<Value>; 2],
    /// the other request ran to completion while the first was held
    pub other_ran_through: bool,
    /// the two requests never both completed (deadlock): the process should be abandoned
    pub stuck: bool,
}

/// Run request 0 and request 1 (`apply(i)`) concurrently: thread `held` is started first and held
/// before its k-th lock acquisition (k counted from 0; if it performs fewer it simply finishes),
/// then the other thread runs until it finishes or blocks (25 ms), then the gate opens.
pub fn run_pair_held(apply: Arc<dyn Fn(usize) -> Value + Send + Sync>, held: usize, k: usize) -> PairOutcome {
    let tr = Arc::new(Tracer::new(2));
    tr.stop_at[held].store(k, Ordering::SeqCst);
    set_lock_tracer(Some(tr.clone()));
    let results: Arc<StdMutex<Vec<Option<Value>>>> = Arc::new(StdMutex::new(vec![None, None]));
    let spawn = |i: usize| {
        let apply = apply.clone();
        let results = results.clone();
        std::thread::spawn(move || {
            TID.with(|t| t.set(i));
            NACQ.with(|c| c.set(0));
            let v = apply(i);
            results.lock().unwrap()[i] = Some(v);
        })
    };
    let h1 = spawn(held);
    let t = Instant::now();
    while !tr.arrived[held].load(Ordering::SeqCst)
        && results.lock().unwrap()[held].is_none()
        && t.elapsed() < Duration::from_secs(2)
    {
        std::thread::yield_now();
    }
    let other = 1 - held;
    let h2 = spawn(other);
    let t = Instant::now();
    while results.lock().unwrap()[other].is_none() && t.elapsed() < Duration::from_millis(25) {
        std::thread::yield_now();
    }
    let through = results.lock().unwrap()[other].is_some();
    tr.open_gate();
    let t = Instant::now();
    let mut stuck = false;
    loop {
        let g = results.lock().unwrap();
        if g[0].is_some() && g[1].is_some() {
            break;
        }
        drop(g);
        if t.elapsed() > Duration::from_secs(3) {
            stuck = true;
            break;
        }
        std::thread::yield_now();
    }
    set_lock_tracer(None);
    if !stuck {
        let _ = h1.join();
        let _ = h2.join();
    }
    let r = results.lock().unwrap().clone();
    PairOutcome { results: [r[0].clone(), r[1].clone()], other_ran_through: through, stuck }
}
