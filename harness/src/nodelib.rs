//! Node-level request driver shared by the `node` and `locks` binaries
//! (originally: Node-level request explorer (Node.tla): allowlist, invoices/keysends, new/setup/forget channel,
//! heartbeat, restart.  States are re-created by re-executing their request path on a fresh node
//! (a fixture costs ~2 ms), so structural changes (channel map, tracker listeners) need no undo.
//!
//!   node explore --alphabet FILE --out DIR [--threads 16] [--max-states N]


use std::time::Duration;

use bitcoin::hashes::sha256::Hash as Sha256Hash;
use bitcoin::hashes::Hash;
use bitcoin::secp256k1::{PublicKey, Secp256k1, SecretKey};

use lightning::types::payment::{PaymentHash, PaymentPreimage, PaymentSecret};
use lightning_signer::channel::{ChannelId, ChannelSlot, CommitmentType};
use lightning_signer::invoice::Invoice;
use lightning_signer::lightning_invoice::{Currency, InvoiceBuilder};
use lightning_signer::util::status::Status;
use serde_json::{json, Value};
use crate::*;

pub const ADDR: [(&str, &str); 2] = [
    ("a1", "bcrt1qw508d6qejxtdg4y5r3zarvary0c5xw7kygt080"),
    ("a2", "bcrt1qrp33g0q5c5txsp9arysrx4k6zdkfs4nce4xj0gdcccefvpysxf3qzf4jry"),
];

pub fn entry(name: &str) -> String {
    for (n, a) in ADDR {
        if n == name {
            return a.to_string();
        }
    }
    "this-does-not-parse".to_string()
}

pub fn entry_name(s: &str) -> String {
    for (n, a) in ADDR {
        if s.ends_with(a) || s == a {
            return n.to_string();
        }
    }
    format!("?{}", s)
}

pub fn hash_byte(h: &str) -> u8 {
    if h == "h1" {
        11
    } else {
        12
    }
}

pub fn make_invoice(h: &str, v: &str) -> Invoice {
    let x = hash_byte(h);
    let payment_preimage = PaymentPreimage([x; 32]);
    let payment_hash = Sha256Hash::hash(&payment_preimage.0);
    let private_key = SecretKey::from_slice(&[42; 32]).unwrap();
    let (ts, amt) = match v {
        "v1" => (NOW_SECS - 10, 100_000u64),
        "v2" => (NOW_SECS - 10, 200_000u64),
        _ => (NOW_SECS - 10 * 24 * 3600, 100_000u64), // "old": expired long ago
    };
    Invoice::Bolt11(
        InvoiceBuilder::new(Currency::Regtest)
            .description("test".into())
            .payment_hash(payment_hash)
            .payment_secret(PaymentSecret([x; 32]))
            .duration_since_epoch(Duration::from_secs(ts))
            .min_final_cltv_expiry_delta(144)
            .amount_milli_satoshis(amt)
            .build_signed(|hash| Secp256k1::new().sign_ecdsa_recoverable(hash, &private_key))
            .unwrap(),
    )
}

pub fn payment_hash(h: &str) -> PaymentHash {
    PaymentHash(Sha256Hash::hash(&[hash_byte(h); 32]).to_byte_array())
}

pub fn chan_id(d: u64) -> ChannelId {
    ChannelId::new_from_peer_id_and_oid(&peer_id(), d)
}

pub fn apply(fx: &NodeFx, r: &Value) -> Value {
    let op = r["op"].as_str().unwrap();
    let list = || -> Vec<String> {
        r["l"].as_array().unwrap().iter().map(|x| entry(x.as_str().unwrap())).collect()
    };
    let res: Result<Result<Value, Status>, String> = catch(|| match op {
        "AddAllow" => fx.node.add_allowlist(&list()).map(|_| json!({})),
        "SetAllow" => fx.node.set_allowlist(&list()).map(|_| json!({})),
        "RemoveAllow" => fx.node.remove_allowlist(&list()).map(|_| json!({})),
        "AddInvoice" => fx
            .node
            .add_invoice(make_invoice(r["h"].as_str().unwrap(), r["v"].as_str().unwrap()))
            .map(|b| json!({"flag": if b { 1 } else { 0 }})),
        "AddKeysend" => {
            let payee = PublicKey::from_slice(&peer_id()).unwrap();
            let amt = if r["v"] == "v1" { 100_000 } else { 200_000 };
            fx.node
                .add_keysend(payee, payment_hash(r["h"].as_str().unwrap()), amt)
                .map(|b| json!({"flag": if b { 1 } else { 0 }}))
        }
        "NewChannel" => fx.node.new_channel(r["d"].as_u64().unwrap(), &peer_id(), &fx.node).map(|_| json!({})),
        "Setup" => {
            let d = r["d"].as_u64().unwrap();
            let setup = test_setup(3_000_000, 0, CommitmentType::StaticRemoteKey, 0x20 + d as u8);
            fx.node
                .setup_channel(chan_id(d), None, setup, &bitcoin::bip32::DerivationPath::master())
                .map(|_| json!({}))
        }
        "Forget" => fx.node.forget_channel(&chan_id(r["d"].as_u64().unwrap())).map(|_| json!({})),
        "Heartbeat" => {
            let _ = fx.node.get_heartbeat();
            Ok(json!({}))
        }
        _ => Err(Status::invalid_argument("harness: unknown op")),
    });
    match res {
        Ok(Ok(v)) => json!({"ok": true, "flag": v.get("flag").and_then(|x| x.as_i64()).unwrap_or(-1), "err": ""}),
        Ok(Err(st)) => json!({"ok": false, "flag": -1, "err": format!("{:?}: {}", st.code(), st.message().chars().take(80).collect::<String>())}),
        Err(p) => json!({"ok": false, "flag": -1, "err": format!("PANIC: {}", p)}),
    }
}

/// projection onto Node.tla's variables
pub fn project(fx: &NodeFx) -> Value {
    let allow: Vec<String> = fx.node.allowlist().unwrap().iter().map(|s| entry_name(s)).collect();
    let mut inv = vec![];
    {
        let st = fx.node.get_state();
        for h in ["h1", "h2"] {
            if let Some(p) = st.invoices.get(&payment_hash(h)) {
                let ks = format!("{}", p.payment_type).to_lowercase().contains("keysend");
                let v = if ks {
                    if p.amount_msat == 100_000 { "v1" } else { "v2" }.to_string()
                } else {
                    let mut name = "?".to_string();
                    for v in ["v1", "v2", "old"] {
                        use lightning_signer::invoice::InvoiceAttributes;
                        if make_invoice(h, v).invoice_hash() == p.invoice_hash {
                            name = v.to_string();
                        }
                    }
                    name
                };
                inv.push(json!({"h": h, "v": v, "ks": ks}));
            }
        }
    }
    let mark = fx.node.get_state().dbid_high_water_mark;
    let mut chans = vec![];
    for d in 1..=3u64 {
        if let Ok(slot) = fx.node.get_channel(&chan_id(d)) {
            let g = slot.lock().unwrap();
            match &*g {
                ChannelSlot::Stub(_) => chans.push(json!({"d": d, "phase": "stub", "forget": false})),
                ChannelSlot::Ready(c) => chans.push(json!({"d": d, "phase": "ready", "forget": c.monitor.forget_seen()})),
            }
        }
    }
    json!({"allow": allow, "inv": inv, "mark": mark, "chans": chans})
}

