//! Node-level request driver shared by the `node` and `locks` binaries
//! (originally: Node-level request explorer (Node.tla): allowlist, invoices/keysends, new/setup/forget channel,
//! heartbeat, restart.  States are re-created by re-executing their request path on a fresh node
//! (a fixture costs ~2 ms), so structural changes (channel map, tracker listeners) need no undo.
//!
//!   node explore --alphabet FILE --out DIR [--threads 16] [--max-states N]


use std::time::Duration;

use bitcoin::hashes::sha256::Hash as Sha256Hash;
use bitcoin::hashes::Hash;
use bitcoin::secp256k1::{PublicKey, Secp256k1, SecretKey};

use lightning::types::payment::{PaymentHash, PaymentPreimage, PaymentSecret};
use lightning_signer::channel::{ChannelId, ChannelSlot, CommitmentType};
use lightning_signer::invoice::Invoice;
use lightning_signer::lightning_invoice::{Currency, InvoiceBuilder};
use lightning_signer::util::status::Status;
use lightning_signer::util::test_utils::TestFundingTxContext;
use serde_json::{json, Value};
use crate::*;

pub const ADDR: [(&str, &str); 2] = [
    ("a1", "bcrt1qw508d6qejxtdg4y5r3zarvary0c5xw7kygt080"),
    ("a2", "bcrt1qrp33g0q5c5txsp9arysrx4k6zdkfs4nce4xj0gdcccefvpysxf3qzf4jry"),
];

pub fn entry(name: &str) -> String {
    for (n, a) in ADDR {
        if n == name {
            return a.to_string();
        }
    }
    "this-does-not-parse".to_string()
}

pub fn entry_name(s: &str) -> String {
    for (n, a) in ADDR {
        if s.ends_with(a) || s == a {
            return n.to_string();
        }
    }
    format!("?{}", s)
}

pub fn hash_byte(h: &str) -> u8 {
    if h == "h1" {
        11
    } else {
        12
    }
}

pub fn make_invoice(h: &str, v: &str) -> Invoice {
    let x = hash_byte(h);
    let payment_preimage = PaymentPreimage([x; 32]);
    let payment_hash = Sha256Hash::hash(&payment_preimage.0);
    let private_key = SecretKey::from_slice(&[42; 32]).unwrap();
    let (ts, amt) = match v {
        "v1" => (NOW_SECS - 10, 100_000u64),
        "v2" => (NOW_SECS - 10, 200_000u64),
        _ => (NOW_SECS - 10 * 24 * 3600, 100_000u64), // "old": expired long ago
    };
    Invoice::Bolt11(
        InvoiceBuilder::new(Currency::Regtest)
            .description("test".into())
            .payment_hash(payment_hash)
            .payment_secret(PaymentSecret([x; 32]))
            .duration_since_epoch(Duration::from_secs(ts))
            .min_final_cltv_expiry_delta(144)
            .amount_milli_satoshis(amt)
            .build_signed(|hash| Secp256k1::new().sign_ecdsa_recoverable(hash, &private_key))
            .unwrap(),
    )
}

pub fn payment_hash(h: &str) -> PaymentHash {
    PaymentHash(Sha256Hash::hash(&[hash_byte(h); 32]).to_byte_array())
}

pub fn chan_id(d: u64) -> ChannelId {
    ChannelId::new_from_peer_id_and_oid(&peer_id(), d)
}

/// The on-chain transaction of a `Withdraw` request: one wallet input (index 1, 4 000 000 sat), optionally
/// the funding output of channel `fund`, a wallet change output; the fee is 1 000 sat.
/// `inp`: "wpkh" | "tr" (taproot input) | "badtr" (taproot input, wrong key index given for signing)
///        | "badpath" (p2wpkh input, derivation path of the wrong length given for signing).
/// None when channel `fund` does not exist (there are no keys to build its funding output from).
pub fn withdraw_tx(fx: &NodeFx, inp: &str, fund: u64) -> Option<(TestFundingTxContext, bitcoin::Transaction)> {
    use bitcoin::bip32::ChildNumber;
    use lightning_signer::node::SpendType;
    use lightning_signer::util::test_utils::make_test_funding_channel_outpoint;
    let nctx = fx.node_ctx();
    let mut t = TestFundingTxContext::new();
    t.add_wallet_input(&nctx, SpendType::P2wpkh, 1, 4_000_000);
    if inp == "tr" || inp == "badtr" {
        // the previous output pays to the taproot address of wallet key 1 (the signer only sees prev_outs)
        let secp = Secp256k1::new();
        let xpub = fx.node.get_account_extended_pubkey();
        let pk = xpub.derive_pub(&secp, &[ChildNumber::from_normal_idx(1).unwrap()]).unwrap().public_key;
        let addr = bitcoin::Address::p2tr(&secp, bitcoin::key::UntweakedPublicKey::from(pk), None, fx.network);
        t.prev_outs[0].script_pubkey = addr.script_pubkey();
        t.ispnds[0] = SpendType::P2tr;
    }
    let mut change = 3_999_000;
    if fund > 0 {
        let id = chan_id(fund);
        if fx.node.get_channel(&id).is_err() {
            return None;
        }
        let setup = test_setup(3_000_000, 0, CommitmentType::StaticRemoteKey, 0x20 + fund as u8);
        t.outputs.push(make_test_funding_channel_outpoint(&fx.node, &setup, &id, 3_000_000));
        t.opaths.push(vec![].into());
        change -= 3_000_000;
    }
    t.add_wallet_output(&nctx, SpendType::P2wpkh, 1, change);
    match inp {
        "badtr" => t.ipaths[0] = vec![ChildNumber::from_normal_idx(2).unwrap()].into(),
        "badpath" => {
            t.ipaths[0] = vec![ChildNumber::from_normal_idx(1).unwrap(), ChildNumber::from_normal_idx(1).unwrap()].into()
        }
        _ => {}
    }
    let tx = t.to_tx();
    Some((t, tx))
}

/// The ChannelSetup that `Setup(d)` asks for: funded by the transaction that Withdraw(fund = d) asks the signer to
/// sign (exactly what `apply`'s Setup arm uses; shared with the protocol-handler level driver `nhand`).
pub fn setup_of(fx: &NodeFx, d: u64) -> lightning_signer::channel::ChannelSetup {
    let mut setup = test_setup(3_000_000, 0, CommitmentType::StaticRemoteKey, 0x20 + d as u8);
    if let Some((_, tx)) = withdraw_tx(fx, "wpkh", d) {
        setup.funding_outpoint = bitcoin::OutPoint { txid: tx.compute_txid(), vout: 0 };
    }
    setup
}

/// Counterparty signatures on the initial holder commitment (number 0, 2 999 000 sat to the holder, no HTLCs) of the
/// READY channel d - the commitment `apply`'s Setup arm validates.  Read-only.
pub fn initial_commitment_sigs(
    fx: &NodeFx,
    d: u64,
    setup: &lightning_signer::channel::ChannelSetup,
) -> (bitcoin::secp256k1::ecdsa::Signature, Vec<bitcoin::secp256k1::ecdsa::Signature>) {
    use lightning_signer::util::test_utils::{
        channel_commitment, counterparty_sign_holder_commitment, make_test_counterparty_keys, TestChannelContext,
    };
    let id = chan_id(d);
    let nctx = fx.node_ctx();
    let counterparty_keys = make_test_counterparty_keys(&nctx, &id, setup.channel_value_sat);
    let cc = TestChannelContext { channel_id: id, setup: setup.clone(), counterparty_keys };
    let mut t = channel_commitment(&nctx, &cc, 0, 0, 2_999_000, 0, vec![], vec![]);
    counterparty_sign_holder_commitment(&nctx, &cc, &mut t)
}

/// Set by `node explore --policy feelimit`: the node runs with a fee velocity limit of FEE_LIMIT Withdraw fees
/// per hour and the projection reports how many fees are counted (Node.tla's `fee`, k.feeLimit).
pub static TRACK_FEE: std::sync::atomic::AtomicBool = std::sync::atomic::AtomicBool::new(false);
pub const WITHDRAW_FEE_MSAT: u64 = 1_000_000;
pub const FEE_LIMIT: u64 = 2;

pub fn feelimit_policy(network: bitcoin::Network) -> lightning_signer::policy::simple_validator::SimplePolicy {
    use lightning_signer::util::velocity::{VelocityControlIntervalType, VelocityControlSpec};
    let mut policy = lightning_signer::policy::simple_validator::make_default_simple_policy(network);
    policy.fee_velocity_control =
        VelocityControlSpec { limit_msat: FEE_LIMIT * WITHDRAW_FEE_MSAT, interval_type: VelocityControlIntervalType::Hourly };
    policy
}

/// Set by `node explore --policy maxinv`: the table of approved invoices / keysends holds MAX_INVOICES entries
/// and the payment velocity control has a (never reached) finite limit, so that what it has counted is part of
/// the observed state: a request refused because the table is full must leave it as it was.
pub static TRACK_VC: std::sync::atomic::AtomicBool = std::sync::atomic::AtomicBool::new(false);
pub const MAX_INVOICES: usize = 1;
pub fn maxinv_policy(network: bitcoin::Network) -> lightning_signer::policy::simple_validator::SimplePolicy {
    use lightning_signer::util::velocity::{VelocityControlIntervalType, VelocityControlSpec};
    let mut policy = lightning_signer::policy::simple_validator::make_default_simple_policy(network);
    policy.max_invoices = MAX_INVOICES;
    policy.global_velocity_control =
        VelocityControlSpec { limit_msat: 1_000_000_000, interval_type: VelocityControlIntervalType::Hourly };
    policy
}

/// A policy whose payment velocity limit is exactly one "v1" amount (100 000 msat) per hour: after one approval
/// every further approval within the hour must be declined (reply flag 0).
pub fn paylimit_policy(network: bitcoin::Network) -> lightning_signer::policy::simple_validator::SimplePolicy {
    use lightning_signer::util::velocity::{VelocityControlIntervalType, VelocityControlSpec};
    let mut policy = lightning_signer::policy::simple_validator::make_default_simple_policy(network);
    policy.global_velocity_control =
        VelocityControlSpec { limit_msat: 100_000, interval_type: VelocityControlIntervalType::Hourly };
    policy
}

pub fn apply(fx: &NodeFx, r: &Value) -> Value {
    let op = r["op"].as_str().unwrap();
    let list = || -> Vec<String> {
        r["l"].as_array().unwrap().iter().map(|x| entry(x.as_str().unwrap())).collect()
    };
    let res: Result<Result<Value, Status>, String> = catch(|| match op {
        "AddAllow" => fx.node.add_allowlist(&list()).map(|_| json!({})),
        "SetAllow" => fx.node.set_allowlist(&list()).map(|_| json!({})),
        "RemoveAllow" => fx.node.remove_allowlist(&list()).map(|_| json!({})),
        "AddInvoice" => fx
            .node
            .add_invoice(make_invoice(r["h"].as_str().unwrap(), r["v"].as_str().unwrap()))
            .map(|b| json!({"flag": if b { 1 } else { 0 }})),
        "AddKeysend" => {
            let payee = PublicKey::from_slice(&peer_id()).unwrap();
            let amt = if r["v"] == "v1" { 100_000 } else { 200_000 };
            fx.node
                .add_keysend(payee, payment_hash(r["h"].as_str().unwrap()), amt)
                .map(|b| json!({"flag": if b { 1 } else { 0 }}))
        }
        // the receive path: the node signs an invoice of its own ("v1" / "v2": two different invoices, by amount)
        "IssueInvoice" => {
            let h = r["h"].as_str().unwrap();
            let x = hash_byte(h);
            let amt = if r["v"] == "v1" { 100_000u64 } else { 200_000u64 };
            InvoiceBuilder::new(Currency::Regtest)
                .description("issued".into())
                .payment_hash(Sha256Hash::hash(&[x; 32]))
                .payment_secret(PaymentSecret([x; 32]))
                .duration_since_epoch(Duration::from_secs(NOW_SECS - 10))
                .min_final_cltv_expiry_delta(144)
                .amount_milli_satoshis(amt)
                .build_raw()
                .map_err(|_| Status::invalid_argument("harness: build_raw"))
                .and_then(|raw| fx.node.sign_bolt11_invoice(raw))
                .map(|_| json!({}))
        }
        "NewChannel" => fx.node.new_channel(r["d"].as_u64().unwrap(), &peer_id(), &fx.node).map(|_| json!({})),
        "Setup" => {
            let d = r["d"].as_u64().unwrap();
            let mut setup = test_setup(3_000_000, 0, CommitmentType::StaticRemoteKey, 0x20 + d as u8);
            // the channel is funded by the transaction that Withdraw(fund = d) asks the signer to sign
            if let Some((_, tx)) = withdraw_tx(fx, "wpkh", d) {
                setup.funding_outpoint = bitcoin::OutPoint { txid: tx.compute_txid(), vout: 0 };
            }
            let id = chan_id(d);
            let r = fx.node.setup_channel(id.clone(), None, setup.clone(), &bitcoin::bip32::DerivationPath::master());
            if r.is_ok() {
                // a node validates the initial holder commitment before it asks for the funding
                // transaction to be signed; it is part of bringing the channel up.  Done once, under the
                // channel lock (concurrent Setups of one channel must not both do it).
                use lightning_signer::util::test_utils::{
                    channel_commitment, counterparty_sign_holder_commitment, make_test_counterparty_keys, TestChannelContext,
                };
                let nctx = fx.node_ctx();
                let counterparty_keys = make_test_counterparty_keys(&nctx, &id, setup.channel_value_sat);
                let cc = TestChannelContext { channel_id: id.clone(), setup, counterparty_keys };
                let mut t = channel_commitment(&nctx, &cc, 0, 0, 2_999_000, 0, vec![], vec![]);
                let (cs, hs) = counterparty_sign_holder_commitment(&nctx, &cc, &mut t);
                let _ = fx.node.with_channel(&id, |c| {
                    if c.enforcement_state.next_holder_commit_num == 0 {
                        c.validate_holder_commitment_tx_phase2(0, 0, 2_999_000, 0, vec![], vec![], &cs, &hs)?;
                        c.activate_initial_commitment()?;
                    }
                    Ok(())
                });
            }
            r.map(|_| json!({}))
        }
        "Forget" => fx.node.forget_channel(&chan_id(r["d"].as_u64().unwrap())).map(|_| json!({})),
        // what the protocol handler's sign-withdrawal and vlsd's direct recovery signer do: check, then sign
        "Withdraw" => match withdraw_tx(fx, r["inp"].as_str().unwrap(), r["fund"].as_u64().unwrap()) {
            None => Err(Status::invalid_argument("harness: no such channel")),
            Some((t, tx)) => {
                let flags: Vec<bool> = tx.input.iter().map(|_| true).collect();
                fx.node
                    .check_onchain_tx(&tx, &flags, &t.prev_outs, &t.iuckeys, &t.opaths)
                    .map_err(|e| Status::from(e))
                    .and_then(|_| fx.node.unchecked_sign_onchain_tx(&tx, &t.ipaths, &t.prev_outs, t.iuckeys.clone()))
                    .map(|_| json!({}))
            }
        },
        "Heartbeat" => {
            let _ = fx.node.get_heartbeat();
            Ok(json!({}))
        }
        _ => Err(Status::invalid_argument("harness: unknown op")),
    });
    match res {
        Ok(Ok(v)) => json!({"ok": true, "flag": v.get("flag").and_then(|x| x.as_i64()).unwrap_or(-1), "err": ""}),
        Ok(Err(st)) => json!({"ok": false, "flag": -1, "err": format!("{:?}: {}", st.code(), st.message().chars().take(80).collect::<String>())}),
        Err(p) => json!({"ok": false, "flag": -1, "err": format!("PANIC: {}", p)}),
    }
}

/// projection onto Node.tla's variables
/// C11 observation for a signer whose requests have all returned: the fields of the durable view in which a
/// signer restored from a copy of the store differs from the running one (empty = durable)
pub fn restart_fields(fx: &NodeFx) -> Vec<String> {
    match fx.restart_copy() {
        Err(e) => vec![format!("restore-failed: {}", e)],
        Ok(fx2) => {
            let mut out = vec![];
            json_diff(&durable_state_json(fx), &durable_state_json(&fx2), "", 4, &mut out);
            out
        }
    }
}

pub fn project(fx: &NodeFx) -> Value {
    let allow: Vec<String> = fx.node.allowlist().unwrap().iter().map(|s| entry_name(s)).collect();
    let mut inv = vec![];
    {
        let st = fx.node.get_state();
        for h in ["h1", "h2"] {
            if let Some(p) = st.invoices.get(&payment_hash(h)) {
                let ks = format!("{}", p.payment_type).to_lowercase().contains("keysend");
                let v = if ks {
                    if p.amount_msat == 100_000 { "v1" } else { "v2" }.to_string()
                } else {
                    let mut name = "?".to_string();
                    for v in ["v1", "v2", "old"] {
                        use lightning_signer::invoice::InvoiceAttributes;
                        if make_invoice(h, v).invoice_hash() == p.invoice_hash {
                            name = v.to_string();
                        }
                    }
                    name
                };
                inv.push(json!({"h": h, "v": v, "ks": ks}));
            }
        }
    }
    let mut iss = vec![];
    {
        let st = fx.node.get_state();
        for h in ["h1", "h2"] {
            if let Some(p) = st.issued_invoices.get(&payment_hash(h)) {
                iss.push(json!({"h": h, "v": if p.amount_msat == 100_000 { "v1" } else { "v2" }}));
            }
        }
    }
    let mark = fx.node.get_state().dbid_high_water_mark;
    let mut chans = vec![];
    for d in 1..=3u64 {
        if let Ok(slot) = fx.node.get_channel(&chan_id(d)) {
            let g = slot.lock().unwrap();
            match &*g {
                ChannelSlot::Stub(_) => chans.push(json!({"d": d, "phase": "stub", "forget": false})),
                ChannelSlot::Ready(c) => chans.push(json!({"d": d, "phase": "ready", "forget": c.monitor.forget_seen()})),
            }
        }
    }
    let fee = if TRACK_FEE.load(std::sync::atomic::Ordering::Relaxed) {
        fx.node.get_state().fee_velocity_control.velocity() / WITHDRAW_FEE_MSAT
    } else {
        0
    };
    json!({"allow": allow, "inv": inv, "mark": mark, "chans": chans, "fee": fee, "iss": iss})
}

