//! Node-level requests (Node.tla) through the REAL protocol handlers over the cloud-staged
//! (transactional) store.
//!
//! Every request of the alphabet that has a protocol form is turned into the real protocol message(s),
//! serialised, decoded again with `msgs::from_vec` (the wire path of a front end) and handled by the
//! RootHandler / ChannelHandler of vls-protocol-signer the way vlsd does it:
//!     persister.enter(); handler.handle(msg); muts = persister.prepare(); (cloud put); persister.commit()
//!
//!   NewChannel(d)      msgs::NewChannel {peer, dbid d}                               (RootHandler)
//!   Setup(d)           msgs::SetupChannel, then - when accepted and the channel has no holder commitment yet -
//!                      msgs::ValidateCommitmentTx2(0) (= validate + activate_initial_commitment for protocol >= 5)
//!                      on the ChannelHandler of (peer, d); two store transactions
//!   Forget(d)          msgs::ForgetChannel
//!   AddInvoice(h, v)   msgs::PreapproveInvoice (bolt11 string)      -> approver -> Node::add_invoice
//!   AddKeysend(h, v)   msgs::PreapproveKeysend                      -> approver -> Node::add_keysend
//!   Withdraw(inp,fund) msgs::SignWithdrawal (utxos + PSBT built from nodelib::withdraw_tx; the handler derives
//!                      the input path from Utxo.keyindex: "badtr" = taproot input with the wrong keyindex)
//!                      -> approver -> Node::check_onchain_tx, then Node::unchecked_sign_onchain_tx
//!   Heartbeat          msgs::GetHeartbeat
//!   Restart            a signer restored from a dump of the cloud store's local copy
//!
//! A panic inside handler.handle is data: the reply is "refused, PANIC: ..", nothing is committed (the process
//! of a real signer dies there) and the fixture is replaced by a signer restored from the local store.
//!
//! Recorded per edge: [to, request index, ok, flag, changed mask (1 channels, 2 node, 4 store, 8 tracker),
//! restart equal (signer restored from the committed store == running signer, durable view),
//! nmuts (mutations prepare() returned, summed over the request's messages),
//! crash (a signer restored from the local store as it was BEFORE commit equals the PRE-request signer, and one
//! restored from that store plus the prepared mutations equals the running signer after the request; where these
//! stores are byte-identical to the pre-request / the committed store the comparison is the restart observation
//! of the pre- / post-state and is not repeated)].
//!
//!   nhand explore --alphabet FILE --out DIR [--threads 16] [--max-states N] [--max-chans 2] [--approver positive|negative]
//!   nhand path --requests FILE [--approver ..]
use std::collections::{HashMap, VecDeque};
use std::sync::{Arc, Condvar, Mutex};

use bitcoin::bip32::{ChildNumber, Fingerprint};
use bitcoin::hashes::Hash;
use bitcoin::psbt::Psbt;
use bitcoin::secp256k1::ecdsa::Signature;
use bitcoin::{BlockHash, Network, OutPoint};
use lightning_signer::persist::Persist;
use serde_json::{json, Value};

use vls_protocol::model::{Basepoints, Bip32KeyVersion, BitcoinSignature, PubKey, Utxo};
use vls_protocol::msgs::{self, Message, SerBolt};
use vls_protocol::psbt::StreamedPSBT;
use vls_protocol::serde_bolt::{Array, Octets, WireString, WithSize};
use vls_protocol_signer::approver::{Approve, NegativeApprover, PositiveApprover};
use vls_protocol_signer::handler::{ChannelHandler, Handler, InitHandler, RootHandler};
use vls_protocol_signer::util::commitment_type_to_channel_type;
use vls_verif_harness::nodelib::*;
use vls_verif_harness::*;

type Kvvs = Vec<(String, u64, Vec<u8>)>;
const WRITER: &str = "_WRITER";

struct N {
    fx: NodeFx,
    root: RootHandler,
}

fn approver() -> Arc<dyn Approve> {
    match arg("approver").as_deref() {
        Some("negative") => Arc::new(NegativeApprover()),
        _ => Arc::new(PositiveApprover()),
    }
}

fn negotiate(fx: &NodeFx) -> RootHandler {
    let version = msgs::DEFAULT_MAX_PROTOCOL_VERSION;
    let mut init = InitHandler::new(0, fx.node.clone(), approver(), version);
    let m = msgs::HsmdInit {
        key_version: Bip32KeyVersion { pubkey_version: 0, privkey_version: 0 },
        chain_params: BlockHash::all_zeros(),
        encryption_key: None,
        dev_privkey: None,
        dev_bip32_seed: None,
        dev_channel_secrets: None,
        dev_channel_secrets_shaseed: None,
        hsm_wire_min_version: 2,
        hsm_wire_max_version: version,
    };
    let _ = init.handle(Message::HsmdInit(m)).expect("HsmdInit");
    init.into()
}

impl N {
    fn on(fx: NodeFx) -> N {
        let (root, _) = fx.tx(|| negotiate(&fx));
        N { fx, root }
    }

    fn new() -> N {
        N::on(NodeFx::new_cloud(Network::Regtest))
    }

    fn cloud(&self) -> &Arc<CloudPersister> {
        self.fx.cloud.as_ref().unwrap()
    }

    fn local(&self) -> Kvvs {
        dump_store(&self.cloud().0)
    }

    fn chan_handler(&self, d: u64) -> ChannelHandler {
        self.root.for_new_client(d, PubKey(peer_id()), d)
    }
}

/// through the wire: what a front end sends is what the handler decodes
fn wire<T: SerBolt>(m: T) -> Message {
    msgs::from_vec(m.as_vec()).expect("message does not survive its own encoding")
}

fn setup_msg(fx: &NodeFx, d: u64) -> Message {
    let s = setup_of(fx, d);
    let p = &s.counterparty_points;
    wire(msgs::SetupChannel {
        is_outbound: s.is_outbound,
        channel_value: s.channel_value_sat,
        push_value: s.push_value_msat,
        funding_txid: s.funding_outpoint.txid,
        funding_txout: s.funding_outpoint.vout as u16,
        to_self_delay: s.holder_selected_contest_delay,
        local_shutdown_script: Octets(vec![]),
        local_shutdown_wallet_index: None,
        remote_basepoints: Basepoints {
            revocation: PubKey(p.revocation_basepoint.0.serialize()),
            payment: PubKey(p.payment_point.serialize()),
            htlc: PubKey(p.htlc_basepoint.0.serialize()),
            delayed_payment: PubKey(p.delayed_payment_basepoint.0.serialize()),
        },
        remote_funding_pubkey: PubKey(p.funding_pubkey.serialize()),
        remote_to_self_delay: s.counterparty_selected_contest_delay,
        remote_shutdown_script: Octets(vec![]),
        channel_type: Octets(commitment_type_to_channel_type(s.commitment_type)),
    })
}

fn validate0_msg(fx: &NodeFx, d: u64) -> Message {
    let s = setup_of(fx, d);
    let (cs, hs) = initial_commitment_sigs(fx, d, &s);
    let bsig = |s: &Signature| BitcoinSignature { signature: vls_protocol::model::Signature(s.serialize_compact()), sighash: 1 };
    wire(msgs::ValidateCommitmentTx2 {
        commitment_number: 0,
        feerate: 0,
        to_local_value_sat: 2_999_000,
        to_remote_value_sat: 0,
        htlcs: Array(vec![]),
        signature: bsig(&cs),
        htlc_signatures: Array(hs.iter().map(|x| bsig(x)).collect()),
    })
}

/// SignWithdrawal for nodelib::withdraw_tx(inp, fund): every input carries its previous transaction (so the
/// streaming PSBT decoder knows the spent outputs are segwit), wallet outputs carry their derivation path.
fn withdrawal_msg(fx: &NodeFx, inp: &str, fund: u64) -> Option<Message> {
    let (mut t, _) = withdraw_tx(fx, inp, fund)?;
    let mut prevs = vec![];
    for i in 0..t.inputs.len() {
        let mut ptx = t.input_txs[i].clone();
        ptx.output[0] = t.prev_outs[i].clone(); // the taproot variants replace the spent output
        t.inputs[i].previous_output = OutPoint { txid: ptx.compute_txid(), vout: 0 };
        prevs.push(ptx);
    }
    let tx = t.to_tx();
    let mut psbt = Psbt::from_unsigned_tx(tx.clone()).expect("psbt");
    for i in 0..tx.input.len() {
        psbt.inputs[i].witness_utxo = Some(t.prev_outs[i].clone());
        psbt.inputs[i].non_witness_utxo = Some(prevs[i].clone());
    }
    let secp = bitcoin::secp256k1::Secp256k1::new();
    let xpub = fx.node.get_account_extended_pubkey();
    for (o, path) in t.opaths.iter().enumerate() {
        if !path.is_empty() {
            let pk = xpub.derive_pub(&secp, path).unwrap().public_key;
            psbt.outputs[o].bip32_derivation.insert(pk, (Fingerprint::default(), path.clone()));
        }
    }
    let keyindex = match t.ipaths[0].into_iter().next() {
        // (probing only, not in Node.tla's alphabet: a p2wpkh input with the wrong key index)
        _ if inp == "badwpkh" => 2,
        Some(ChildNumber::Normal { index }) => *index,
        _ => 0,
    };
    let utxos = vec![Utxo {
        txid: tx.input[0].previous_output.txid,
        outnum: 0,
        amount: t.prev_outs[0].value.to_sat(),
        keyindex,
        is_p2sh: false,
        script: Octets(t.prev_outs[0].script_pubkey.to_bytes()),
        close_info: None,
        is_in_coinbase: false,
    }];
    Some(wire(msgs::SignWithdrawal { utxos: Array(utxos), psbt: WithSize(StreamedPSBT::new(psbt)) }))
}

/// one message = one store transaction
struct MsgOut {
    ok: bool,
    flag: i64,
    err: String,
    panicked: bool,
    nmuts: usize,
    keys: Vec<String>,
    local_before: Kvvs,
    prepared: Kvvs,
}

fn run_msg<H: Handler>(n: &N, handler: &H, msg: Message) -> MsgOut {
    let cloud = n.cloud();
    cloud.enter().expect("enter");
    let res = catch(|| handler.handle(msg));
    match res {
        Err(p) => {
            // the signer process dies here: nothing is prepared or committed
            let local_before = n.local();
            let muts = catch(|| cloud.prepare()).map(|m| m.into_iter().map(|(k, (ver, val))| (k, ver, val)).collect::<Kvvs>()).unwrap_or_default();
            // (the keys staged when it died are kept for the details record; none of them is sent or committed)
            MsgOut { ok: false, flag: -1, err: format!("PANIC: {}", p), panicked: true, nmuts: 0,
                     keys: muts.iter().map(|m| m.0.clone()).collect(), local_before, prepared: vec![] }
        }
        Ok(r) => {
            let muts = cloud.prepare();
            let prepared: Kvvs = muts.clone().into_iter().map(|(k, (ver, val))| (k, ver, val)).collect();
            let local_before = n.local();
            cloud.commit().expect("commit");
            let keys = prepared.iter().map(|m| m.0.clone()).collect();
            let (ok, flag, err) = match r {
                Err(e) => (false, -1, format!("{:?}", e).chars().take(140).collect::<String>()),
                Ok(reply) => match msgs::from_vec(reply.as_vec()) {
                    Ok(Message::PreapproveInvoiceReply(m)) => (true, if m.result { 1 } else { 0 }, String::new()),
                    Ok(Message::PreapproveKeysendReply(m)) => (true, if m.result { 1 } else { 0 }, String::new()),
                    Ok(_) => (true, -1, String::new()),
                    Err(e) => (false, -1, format!("undecodable reply {:?}", e)),
                },
            };
            MsgOut { ok, flag, err, panicked: false, nmuts: prepared.len(), keys, local_before, prepared }
        }
    }
}

/// The messages of one request: a closure is called for the next message given the fixture (it may look at the
/// state the previous message left), None = done.
fn messages(n: &N, r: &Value, k: usize, prev_ok: bool) -> Option<(Option<u64>, Message)> {
    let op = r["op"].as_str().unwrap();
    let d = r["d"].as_u64().unwrap_or(0);
    if k > 0 {
        // only Setup has a second message: validate the initial holder commitment, once
        if op == "Setup" && k == 1 && prev_ok {
            let fresh = n.fx.node.with_channel(&chan_id(d), |c| Ok(c.enforcement_state.next_holder_commit_num == 0)).unwrap_or(false);
            if fresh {
                return Some((Some(d), validate0_msg(&n.fx, d)));
            }
        }
        return None;
    }
    let m = match op {
        "NewChannel" => (None, wire(msgs::NewChannel { peer_id: PubKey(peer_id()), dbid: d })),
        "Setup" => (Some(d), setup_msg(&n.fx, d)),
        "Forget" => (None, wire(msgs::ForgetChannel { node_id: PubKey(peer_id()), dbid: d })),
        "AddInvoice" => {
            let inv = make_invoice(r["h"].as_str().unwrap(), r["v"].as_str().unwrap());
            let s = match &inv {
                lightning_signer::invoice::Invoice::Bolt11(b) => b.to_string(),
                _ => unreachable!(),
            };
            (None, wire(msgs::PreapproveInvoice { invstring: WireString(s.into_bytes()) }))
        }
        "AddKeysend" => {
            let amt = if r["v"] == "v1" { 100_000 } else { 200_000 };
            (None, wire(msgs::PreapproveKeysend {
                destination: PubKey(peer_id()),
                payment_hash: vls_protocol::model::Sha256(payment_hash(r["h"].as_str().unwrap()).0),
                amount_msat: amt,
            }))
        }
        "Withdraw" => (None, withdrawal_msg(&n.fx, r["inp"].as_str().unwrap(), r["fund"].as_u64().unwrap())?),
        "Heartbeat" => (None, wire(msgs::GetHeartbeat {})),
        _ => return None,
    };
    Some(m)
}

struct Outcome {
    resp: Value,
    nmuts: usize,
    keys: Vec<String>,
    crash: bool,
    crash_diff: Vec<String>,
    nmsgs: usize,
}

fn durable(fx: &NodeFx) -> Value {
    durable_state_json(fx)
}

fn diff_restored(n: &N, kvvs: &Kvvs, want: &Value, tag: &str, out: &mut Vec<String>) -> bool {
    match n.fx.restore_from(kvvs) {
        Err(e) => {
            out.push(format!("{}:restore failed: {}", tag, e));
            false
        }
        Ok(fx2) => {
            let b = durable(&fx2);
            let mut d = vec![];
            json_diff(want, &b, "", 5, &mut d);
            let eq = d.is_empty();
            out.extend(d.into_iter().map(|x| format!("{}:{}", tag, x)));
            eq
        }
    }
}

/// Handle one request; `judge`: also make the crash-before-commit observations (costly: two restores per message).
/// Returns the fixture to continue with (a restored one after Restart or a panic).
fn step(mut n: N, r: &Value, judge: bool) -> (N, Outcome) {
    if r["op"] == "Restart" {
        let d = n.local();
        let resp = match n.fx.restore_from(&d) {
            Ok(fx2) => {
                n = N::on(fx2);
                json!({"ok": true, "flag": -1, "err": ""})
            }
            Err(e) => json!({"ok": false, "flag": -1, "err": e}),
        };
        return (n, Outcome { resp, nmuts: 0, keys: vec![], crash: true, crash_diff: vec![], nmsgs: 0 });
    }
    let mut out = Outcome { resp: json!({"ok": false, "flag": -1, "err": "harness: no message"}), nmuts: 0, keys: vec![],
                            crash: true, crash_diff: vec![], nmsgs: 0 };
    let mut prev_ok = true;
    for k in 0..2 {
        let (chan, msg) = match messages(&n, r, k, prev_ok) {
            Some(x) => x,
            None => break,
        };
        let pre_durable = if judge { Some((durable(&n.fx), n.local())) } else { None };
        let m = match chan {
            Some(d) => run_msg(&n, &n.chan_handler(d), msg),
            None => run_msg(&n, &n.root, msg),
        };
        out.nmsgs += 1;
        out.nmuts += m.nmuts;
        out.keys.extend(m.keys.iter().cloned());
        // Crash observations.  The local store before commit normally IS the pre-request store, and that store plus
        // the prepared mutations IS the committed store: then the two restores would repeat the restart observations of
        // the pre-state (r0) and of the post-state (restart equal) and are skipped.  They are made when the stores
        // differ, i.e. when something was written past the transaction log or commit wrote something else than
        // prepare() reported.
        if let Some((pre, pre_local)) = &pre_durable {
            if m.local_before != *pre_local && !diff_restored(&n, &m.local_before, pre, "crash-pre", &mut out.crash_diff) {
                out.crash = false;
            }
        }
        if m.panicked {
            // rebuild: a panic may have poisoned locks; the store is what a restarted process finds
            let fx2 = n.fx.restore_from(&m.local_before).expect("restore after a panic");
            n = N::on(fx2);
        } else if pre_durable.is_some() {
            // the cloud did get the mutations before the crash: the signer as it is now
            let mut merged: HashMap<String, (u64, Vec<u8>)> = m.local_before.iter().cloned().map(|(k, v, x)| (k, (v, x))).collect();
            for (k, v, x) in m.prepared.iter().cloned() {
                merged.insert(k, (v, x));
            }
            let mut mv: Kvvs = merged.into_iter().map(|(k, (v, x))| (k, v, x)).collect();
            mv.sort();
            let mut committed = n.local();
            committed.sort();
            if mv != committed && !diff_restored(&n, &mv, &durable(&n.fx), "crash-cloud", &mut out.crash_diff) {
                out.crash = false;
            }
        }
        prev_ok = m.ok;
        // the reply of the request is the reply of its last message (a refused first message ends the request)
        out.resp = json!({"ok": m.ok, "flag": m.flag, "err": m.err});
        if !m.ok {
            break;
        }
    }
    (n, out)
}

// ------------------------------------------------------------------------------------------------------------

struct Obs {
    full: Value,
    store: Vec<Value>,
}

fn observe(n: &N) -> Obs {
    let d = n.local();
    let mut full = full_state_json(&n.fx);
    // velocity counters are explored by the velocity harness (C12); leaving them out keeps the graph small
    full["node"].as_object_mut().unwrap().remove("vc");
    full["node"].as_object_mut().unwrap().remove("fvc");
    // the last-writer record changes on every committed transaction; every other key is compared exactly
    let store = dump_to_json(&d).as_array().unwrap().iter().filter(|e| e[0] != WRITER).cloned().collect();
    Obs { full, store }
}

fn key_of(o: &Obs, restored: &Value) -> String {
    digest(&json!([o.full, restored]))
}

/// fields of the durable view that differ between the running signer and one restored from the local store
fn restart_diff(n: &N) -> (bool, Vec<String>, Value) {
    match n.fx.restore_from(&n.local()) {
        Err(e) => (false, vec![e.clone()], json!(e)),
        Ok(fx2) => {
            let a = durable(&n.fx);
            let b = durable(&fx2);
            let mut out = vec![];
            json_diff(&a, &b, "", 5, &mut out);
            (out.is_empty(), out, b)
        }
    }
}

fn build(path: &[Value]) -> N {
    let mut n = N::new();
    for r in path {
        n = step(n, r, false).0;
    }
    n
}

struct Shared {
    queue: VecDeque<(u64, Vec<Value>)>,
    seen: HashMap<String, u64>,
    active: usize,
    states: u64,
}

fn explore() {
    let alphabet: Vec<Value> = serde_json::from_str(&std::fs::read_to_string(arg("alphabet").unwrap()).unwrap()).unwrap();
    let out = arg("out").unwrap();
    let threads = arg_u64("threads", 16) as usize;
    let max_states = arg_u64("max-states", 200_000);
    let max_chans = arg_u64("max-chans", 2);
    std::fs::create_dir_all(&out).unwrap();
    let shared = Arc::new((Mutex::new(Shared { queue: VecDeque::new(), seen: HashMap::new(), active: 0, states: 0 }), Condvar::new()));
    {
        let n = build(&[]);
        let o = observe(&n);
        let rd = restart_diff(&n).2;
        let mut g = shared.0.lock().unwrap();
        g.seen.insert(key_of(&o, &rd), 0);
        g.queue.push_back((0, vec![]));
        g.states = 1;
    }
    let alphabet = Arc::new(alphabet);
    let mut handles = vec![];
    for w in 0..threads {
        let shared = shared.clone();
        let alphabet = alphabet.clone();
        let out = out.clone();
        handles.push(std::thread::spawn(move || {
            let mut o = NdJson::create(&format!("{}/edges-{}.ndjson", out, w));
            let mut od = NdJson::create(&format!("{}/details-{}.ndjson", out, w));
            let mut nedges = 0u64;
            loop {
                let item = {
                    let (m, cv) = (&shared.0, &shared.1);
                    let mut g = m.lock().unwrap();
                    loop {
                        if let Some(s) = g.queue.pop_front() {
                            g.active += 1;
                            break Some(s);
                        }
                        if g.active == 0 {
                            cv.notify_all();
                            break None;
                        }
                        g = cv.wait(g).unwrap();
                    }
                };
                let (pre_id, path) = match item {
                    Some(s) => s,
                    None => break,
                };
                let n0 = build(&path);
                let apre = project(&n0.fx);
                let r0 = restart_diff(&n0).0;
                // bound: at most max_chans channels ever created (keeps the graph finite and small)
                let expand = apre["chans"].as_array().unwrap().len() as u64 <= max_chans;
                drop(n0);
                let mut edges = vec![];
                if expand {
                    for (ri, r) in alphabet.iter().enumerate() {
                        let n = build(&path);
                        let pre = observe(&n);
                        let pre_restart = if r["op"] == "Restart" { Some(restart_diff(&n)) } else { None };
                        let (n, oc) = step(n, r, true);
                        let (restart_equal, rdiff, restored) = match pre_restart {
                            // Restart: was the restored signer equal to the one it replaced
                            Some((eq, diff, _)) => (eq, diff, restart_diff(&n).2),
                            None => restart_diff(&n),
                        };
                        let post = observe(&n);
                        let mut changed = vec![];
                        json_diff(&pre.full, &post.full, "", 4, &mut changed);
                        let mut mask = 0;
                        for c in &changed {
                            mask |= if c.starts_with("channels") { 1 } else if c.starts_with("node") { 2 } else { 8 };
                        }
                        let mut store_changed = vec![];
                        if pre.store != post.store {
                            mask |= 4;
                            let a: HashMap<String, &Value> = pre.store.iter().map(|e| (e[0].as_str().unwrap().to_string(), e)).collect();
                            let b: HashMap<String, &Value> = post.store.iter().map(|e| (e[0].as_str().unwrap().to_string(), e)).collect();
                            let mut ks: Vec<&String> = a.keys().chain(b.keys()).collect();
                            ks.sort();
                            ks.dedup();
                            for k in ks {
                                if a.get(k) != b.get(k) {
                                    store_changed.push(k.clone());
                                }
                            }
                        }
                        let kpost = key_of(&post, &restored);
                        let apost = project(&n.fx);
                        let mut npath = path.clone();
                        npath.push(r.clone());
                        let to: i64 = {
                            let mut g = shared.0.lock().unwrap();
                            match g.seen.get(&kpost) {
                                Some(i) => *i as i64,
                                None if g.states < max_states => {
                                    let i = g.states;
                                    g.seen.insert(kpost, i);
                                    g.states += 1;
                                    g.queue.push_back((i, npath));
                                    shared.1.notify_one();
                                    i as i64
                                }
                                None => -1,
                            }
                        };
                        let resp = &oc.resp;
                        let ok = resp["ok"] == true;
                        let panicked = resp["err"].as_str().unwrap_or("").starts_with("PANIC");
                        if (!ok && (mask != 0 || oc.nmuts != 0)) || !restart_equal || !oc.crash || panicked {
                            od.put(&json!({"node": pre_id, "ri": ri + 1, "path": path, "req": r, "resp": resp, "muts": oc.nmuts,
                                           "mut_keys": oc.keys, "msgs": oc.nmsgs, "changed": changed, "store_changed": store_changed,
                                           "restart_diff": rdiff, "crash_diff": oc.crash_diff, "pre": apre, "post": apost}));
                        }
                        edges.push(json!([to, ri + 1, if ok { 1 } else { 0 }, resp["flag"], mask, if restart_equal { 1 } else { 0 },
                                          oc.nmuts, if oc.crash { 1 } else { 0 }]));
                    }
                }
                nedges += edges.len() as u64;
                o.put(&json!({"id": pre_id, "pre": apre, "x": expand, "r0": if r0 { 1 } else { 0 }, "e": edges}));
                let mut g = shared.0.lock().unwrap();
                g.active -= 1;
                if g.queue.is_empty() && g.active == 0 {
                    shared.1.notify_all();
                }
            }
            o.finish();
            od.finish();
            nedges
        }));
    }
    let mut edges = 0;
    for h in handles {
        edges += h.join().unwrap();
    }
    let g = shared.0.lock().unwrap();
    println!("{}", json!({"states": g.states, "edges": edges, "truncated": g.states >= max_states}));
}

/// nhand path --requests FILE: handle a request sequence on a fresh signer, print every observation (replays, probing)
fn path() {
    let reqs: Vec<Value> = serde_json::from_str(&std::fs::read_to_string(arg("requests").unwrap()).unwrap()).unwrap();
    let mut n = N::new();
    for r in reqs {
        let before = observe(&n);
        let (n2, oc) = step(n, &r, true);
        n = n2;
        let after = observe(&n);
        let mut changed = vec![];
        json_diff(&before.full, &after.full, "", 5, &mut changed);
        let (req, rdiff, _) = restart_diff(&n);
        println!("{}", json!({"req": r, "resp": oc.resp, "msgs": oc.nmsgs, "muts": oc.nmuts, "mut_keys": oc.keys,
                              "crash_equal": oc.crash, "crash_diff": oc.crash_diff, "restart_equal": req, "restart_diff": rdiff,
                              "post": project(&n.fx), "changed": changed, "store_changed": before.store != after.store}));
    }
}

fn main() {
    quiet_panics();
    match std::env::args().nth(1).unwrap_or_default().as_str() {
        "explore" => explore(),
        "path" => path(),
        _ => {
            eprintln!("usage: nhand explore|path ...");
            std::process::exit(2);
        }
    }
}
