//! Commitment transaction construction (C04): runs the TLC-generated case matrix against the REAL
//! entry points `Channel::sign_counterparty_commitment_tx_phase2` (semantic) and
//! `Channel::sign_counterparty_commitment_tx` (raw transaction + witness scripts).
//!
//!   committx bounds --out bounds.json
//!        the contest-delay bounds of the real default policy, and PROBES: real setup_channel calls
//!        with each of the two contest delays at min-1 / min / max / max+1 for every commitment type
//!        (TLC - MC_CommitTx - resolves the matrix' delay names min / mid / max against this file and
//!        checks that exactly the delays inside the bounds were accepted)
//!   committx run --cases cases.ndjson --out log.ndjson [--threads 8]
//!
//! Every line of `cases.ndjson` is one BASE chosen by TLC (spec/MC_CommitTx.tla): a channel setup S, a
//! commitment content C, the content of the preceding commitments, the UNORDERED abstract canonical
//! outputs of (S, C) (script template + key NAMES + numbers) and a list of mutations of the
//! transaction / of the witness scripts.  Per base this program
//!   * reaches the state through the public API of the real crates (new_channel, setup_channel,
//!     commitments 0..n-1 signed and revoked),
//!   * CONCRETISES the abstract outputs (real keys derived with LDK primitives from the base points the
//!     node reports and the per-commitment point, LDK's script builders), sorts them the BOLT-3 way
//!     and serialises the transaction; builds the same transaction with LDK's `CommitmentTransaction`
//!     from the model's numbers (independent of channel.rs) and records whether the two agree;
//!   * asks the semantic entry point for signatures and records against which transactions they
//!     verify (commitment: sighash of the canonical transaction under the holder's funding key;
//!     HTLC signatures: LDK's second-level transactions under the holder's HTLC key);
//!   * applies every mutation, submits transaction + witness scripts to the raw entry point from the
//!     same state and records the verdict and against what the returned signature verifies;
//!   * when the base's HISTORY (CommitTx!Histories) has a restart, restores the signer from a copy of
//!     its store (`NodeFx::restart_copy`: Node::restore_nodes over the persisted entries) - "restart":
//!     after the channel was set up and brought to number n, before the first request for n;
//!     "restart_retry": after the first semantic request for n - and makes every later request of the
//!     base on the RESTORED signer.  The observations are the same, the same monitors judge them.
//! One ndjson record per base ("k":"base") and per raw request ("k":"raw") with the CONCRETE values
//! used, in the abstract shape of CommitTx.tla.  No property logic here: spec/ImplCommitTx.tla judges.
use std::collections::HashMap;

use bitcoin::absolute::LockTime;
use bitcoin::bip32::DerivationPath;
use bitcoin::hashes::sha256::Hash as Sha256;
use bitcoin::hashes::Hash;
use bitcoin::script::Builder;
use bitcoin::secp256k1::ecdsa::Signature;
use bitcoin::secp256k1::{Message, PublicKey, SecretKey};
use bitcoin::sighash::{EcdsaSighashType, SighashCache};
use bitcoin::transaction::Version;
use bitcoin::{
    opcodes, Amount, Network, OutPoint, PubkeyHash, ScriptBuf, Sequence, Transaction, TxIn, TxOut, Txid, WPubkeyHash,
    Witness,
};
use lightning::ln::chan_utils::{
    build_htlc_transaction, get_anchor_redeemscript, get_htlc_redeemscript, get_revokeable_redeemscript,
    get_to_countersignatory_with_anchors_redeemscript, make_funding_redeemscript, ChannelPublicKeys,
    ChannelTransactionParameters, CommitmentTransaction, CounterpartyChannelTransactionParameters,
    HTLCOutputInCommitment, TxCreationKeys,
};
use lightning::ln::channel_keys::{
    DelayedPaymentBasepoint, DelayedPaymentKey, HtlcBasepoint, HtlcKey, RevocationBasepoint, RevocationKey,
};
use lightning::types::features::ChannelTypeFeatures;
use lightning::types::payment::PaymentHash;
use lightning_signer::channel::{ChannelId, ChannelSetup, CommitmentType};
use lightning_signer::policy::validator::EnforcementState;
use lightning_signer::tx::tx::HTLCInfo2;
use lightning_signer::util::status::Status;
use serde_json::{json, Value};
use vls_verif_harness::*;

const M24: u64 = 1 << 24;

// ------------------------------------------------------------------------------------------
// abstract outputs (shape of CommitTx.tla)

#[derive(Clone, Debug, PartialEq)]
struct AOut {
    vc: String,
    v: u64,
    tp: String,
    k1: String,
    k2: String,
    k3: String,
    d: i64,
    h: u64,
    cl: u64,
    sk: (u64, u64),
}

fn s(v: &Value) -> String {
    v.as_str().expect("string").to_string()
}

impl AOut {
    fn parse(v: &Value) -> AOut {
        AOut {
            vc: s(&v["vc"]),
            v: v["v"].as_u64().expect("v"),
            tp: s(&v["tp"]),
            k1: s(&v["k1"]),
            k2: s(&v["k2"]),
            k3: s(&v["k3"]),
            d: v["d"].as_i64().expect("d"),
            h: v["h"].as_u64().expect("h"),
            cl: v["cl"].as_u64().expect("cl"),
            sk: (0, 0),
        }
    }
    fn json(&self) -> Value {
        json!({"vc": self.vc, "v": self.v, "tp": self.tp, "k1": self.k1, "k2": self.k2, "k3": self.k3,
               "d": self.d, "h": self.h, "cl": self.cl, "sk": [self.sk.0, self.sk.1]})
    }
    fn sat(&self) -> u64 {
        if self.vc == "top" { u64::MAX - self.v } else { self.v }
    }
    /// the fields a template does not use carry fixed values (CommitTx!Norm)
    fn norm(&mut self) {
        match self.tp.as_str() {
            "p2wpkh" | "remote_anchors" | "anchor" | "p2pkh" | "p2tr" => {
                self.k2 = "none".into();
                self.k3 = "none".into();
                self.d = -1;
                self.h = 0;
            }
            "revokeable" => {
                self.k3 = "none".into();
                self.h = 0;
            }
            "offered" | "offered_ax" => self.d = -1,
            "received" | "received_ax" => {}
            _ => {
                self.k1 = "none".into();
                self.k2 = "none".into();
                self.k3 = "none".into();
                self.d = -1;
                self.h = 0;
            }
        }
    }
}

/// witness script element [tp, k1, k2, k3, d, h]
fn ws_of_out(o: &AOut) -> Value {
    match o.tp.as_str() {
        "remote_anchors" | "revokeable" | "anchor" | "offered" | "offered_ax" | "received" | "received_ax" | "optrue" =>
            json!({"tp": o.tp, "k1": o.k1, "k2": o.k2, "k3": o.k3, "d": o.d, "h": o.h}),
        _ => empty_ws(),
    }
}
fn empty_ws() -> Value {
    json!({"tp": "empty", "k1": "none", "k2": "none", "k3": "none", "d": -1, "h": 0})
}
fn garbage_ws() -> Value {
    json!({"tp": "optrue", "k1": "none", "k2": "none", "k3": "none", "d": -1, "h": 0})
}
fn ws_as_out(w: &Value) -> AOut {
    AOut { vc: "n".into(), v: 0, tp: s(&w["tp"]), k1: s(&w["k1"]), k2: s(&w["k2"]), k3: s(&w["k3"]),
           d: w["d"].as_i64().unwrap(), h: w["h"].as_u64().unwrap(), cl: 0, sk: (0, 0) }
}

#[derive(Clone, Debug, PartialEq)]
struct AIn {
    t: u64,
    i: u64,
    seq: (u64, u64),
    ss: String,
    wit: String,
}

#[derive(Clone, Debug, PartialEq)]
struct ATx {
    ver: i64,
    lt: (u64, u64),
    ins: Vec<AIn>,
    outs: Vec<AOut>,
}

impl ATx {
    fn json(&self) -> Value {
        json!({"ver": self.ver, "lt": [self.lt.0, self.lt.1],
               "ins": self.ins.iter().map(|i| json!({"op": {"t": i.t, "i": i.i}, "seq": [i.seq.0, i.seq.1], "ss": i.ss, "wit": i.wit})).collect::<Vec<_>>(),
               "outs": self.outs.iter().map(|o| o.json()).collect::<Vec<_>>()})
    }
}

// ------------------------------------------------------------------------------------------
// the world of one base: a real node with one real channel

struct World {
    fx: NodeFx,
    id: ChannelId,
    setup: ChannelSetup,
    holder: ChannelPublicKeys,
    cp: ChannelPublicKeys,
    anch: bool,
    hdelay: u16,
    cdelay: u16,
    point: PublicKey,
    other_point: PublicKey,
    of_hc: (u64, u64),
    of_ch: (u64, u64),
}

fn ct_of(name: &str) -> CommitmentType {
    match name {
        "static" => CommitmentType::StaticRemoteKey,
        "zerofee" => CommitmentType::AnchorsZeroFeeHtlc,
        _ => panic!("unknown commitment type {}", name),
    }
}

fn features(anch: bool) -> ChannelTypeFeatures {
    let mut f = ChannelTypeFeatures::empty();
    f.set_static_remote_key_required();
    if anch {
        f.set_anchors_zero_fee_htlc_tx_optional();
    }
    f
}

fn test_key(i: u8) -> PublicKey {
    PublicKey::from_secret_key(&secp(), &SecretKey::from_slice(&[i; 32]).unwrap())
}

fn cp_points(ks: u64) -> ChannelPublicKeys {
    let b = if ks == 1 { 100u8 } else { 110u8 };
    ChannelPublicKeys {
        funding_pubkey: test_key(b + 4),
        revocation_basepoint: RevocationBasepoint(test_key(b)),
        payment_point: test_key(b + 1),
        delayed_payment_basepoint: DelayedPaymentBasepoint(test_key(b + 2)),
        htlc_basepoint: HtlcBasepoint(test_key(b + 3)),
    }
}

fn funding_txid(t: u64) -> Txid {
    Txid::from_slice(&[t as u8; 32]).unwrap()
}

/// lower 48 bits of SHA256(first || second) as two 24-bit limbs (BOLT-3 obscuring factor)
fn obscure_factor(first: &PublicKey, second: &PublicKey) -> (u64, u64) {
    let mut data = Vec::new();
    data.extend_from_slice(&first.serialize());
    data.extend_from_slice(&second.serialize());
    let h = Sha256::hash(&data).to_byte_array();
    let mut x: u64 = 0;
    for b in &h[26..32] {
        x = (x << 8) | *b as u64;
    }
    (x >> 24, x & (M24 - 1))
}

fn payment_hash(h: u64) -> PaymentHash {
    PaymentHash([h as u8; 32])
}

fn payee() -> PublicKey {
    test_key(77)
}

fn htlc_infos(v: &Value) -> Vec<HTLCInfo2> {
    v.as_array()
        .unwrap()
        .iter()
        .map(|h| HTLCInfo2 {
            value_sat: h["v"].as_u64().unwrap(),
            payment_hash: payment_hash(h["h"].as_u64().unwrap()),
            cltv_expiry: h["cl"].as_u64().unwrap() as u32,
        })
        .collect()
}

impl World {
    fn new(sv: &Value, c: &Value) -> Result<World, String> {
        let fx = NodeFx::new(Network::Regtest, None);
        let ks = sv["ks"].as_u64().unwrap();
        let id = new_stub(&fx, ks);
        let anch = sv["ct"] == "zerofee";
        let hdelay = sv["hdelay"].as_u64().unwrap() as u16;
        let cdelay = sv["cdelay"].as_u64().unwrap() as u16;
        let cp = cp_points(ks);
        let setup = ChannelSetup {
            is_outbound: sv["outbound"].as_bool().unwrap(),
            channel_value_sat: sv["value"].as_u64().unwrap(),
            push_value_msat: sv["push"].as_u64().unwrap() * 1000,
            funding_outpoint: OutPoint { txid: funding_txid(sv["fo"]["t"].as_u64().unwrap()), vout: sv["fo"]["i"].as_u64().unwrap() as u32 },
            holder_selected_contest_delay: hdelay,
            holder_shutdown_script: None,
            counterparty_points: cp.clone(),
            counterparty_selected_contest_delay: cdelay,
            counterparty_shutdown_script: None,
            commitment_type: ct_of(sv["ct"].as_str().unwrap()),
        };
        match catch(|| fx.node.setup_channel(id.clone(), None, setup.clone(), &DerivationPath::master())) {
            Ok(Ok(_)) => {}
            Ok(Err(st)) => return Err(format!("refused: {}", st.message().chars().take(120).collect::<String>())),
            Err(p) => return Err(format!("panic: {}", p.chars().take(120).collect::<String>())),
        }
        // the keys the node itself reports for this channel
        let holder = fx.node.with_channel_base(&id, |b| Ok(b.get_channel_basepoints())).expect("basepoints");
        let n = c["n"].as_u64().unwrap();
        let (tree, other) = if c["pt"] == "A" { (TREE_A, TREE_B) } else { (TREE_B, TREE_A) };
        let of_hc = obscure_factor(&holder.payment_point, &cp.payment_point);
        let of_ch = obscure_factor(&cp.payment_point, &holder.payment_point);
        Ok(World { fx, id, setup, holder, cp, anch, hdelay, cdelay, point: tree_point(&tree, n), other_point: tree_point(&other, n), of_hc, of_ch })
    }

    fn key(&self, name: &str) -> PublicKey {
        let sc = secp();
        let (base, pt) = match name.strip_suffix("_o") {
            Some(b) => (b, &self.other_point),
            None => (name, &self.point),
        };
        match base {
            "rev" => RevocationKey::from_basepoint(&sc, &self.holder.revocation_basepoint, pt).to_public_key(),
            "rev_sw" => RevocationKey::from_basepoint(&sc, &self.cp.revocation_basepoint, pt).to_public_key(),
            "dly" => DelayedPaymentKey::from_basepoint(&sc, &self.cp.delayed_payment_basepoint, pt).to_public_key(),
            "bhtlc" => HtlcKey::from_basepoint(&sc, &self.cp.htlc_basepoint, pt).to_public_key(),
            "chtlc" => HtlcKey::from_basepoint(&sc, &self.holder.htlc_basepoint, pt).to_public_key(),
            "cpay" => self.holder.payment_point,
            "bpay" => self.cp.payment_point,
            "bfund" => self.cp.funding_pubkey,
            "cfund" => self.holder.funding_pubkey,
            "x1" => test_key(0x61),
            _ => panic!("unknown key name {}", name),
        }
    }

    /// (scriptPubKey, witness script) of a template with named keys
    fn script(&self, tp: &str, k1: &str, k2: &str, k3: &str, d: i64, h: u64) -> (ScriptBuf, ScriptBuf) {
        let wsh = |sc: ScriptBuf| (sc.to_p2wsh(), sc);
        match tp {
            "p2wpkh" => (ScriptBuf::new_p2wpkh(&WPubkeyHash::hash(&self.key(k1).serialize())), ScriptBuf::new()),
            "remote_anchors" => wsh(get_to_countersignatory_with_anchors_redeemscript(&self.key(k1))),
            "revokeable" => {
                assert!((0..=65535).contains(&d), "delay out of u16 range");
                wsh(get_revokeable_redeemscript(&RevocationKey(self.key(k1)), d as u16, &DelayedPaymentKey(self.key(k2))))
            }
            "anchor" => wsh(get_anchor_redeemscript(&self.key(k1))),
            "offered" | "offered_ax" | "received" | "received_ax" => {
                let offered = tp.starts_with("offered");
                let ax = tp.ends_with("_ax");
                assert!(offered || d >= 0, "negative expiry");
                let htlc = HTLCOutputInCommitment {
                    offered,
                    amount_msat: 0,
                    cltv_expiry: if offered { 0 } else { d as u32 },
                    payment_hash: payment_hash(h),
                    transaction_output_index: None,
                };
                let keys = TxCreationKeys {
                    per_commitment_point: self.point,
                    revocation_key: RevocationKey(self.key(k1)),
                    broadcaster_htlc_key: HtlcKey(self.key(k2)),
                    countersignatory_htlc_key: HtlcKey(self.key(k3)),
                    broadcaster_delayed_payment_key: DelayedPaymentKey(self.key("dly")),
                };
                wsh(get_htlc_redeemscript(&htlc, &features(ax), &keys))
            }
            "optrue" => wsh(Builder::new().push_opcode(opcodes::OP_TRUE).into_script()),
            "p2pkh" => (ScriptBuf::new_p2pkh(&PubkeyHash::hash(&self.key(k1).serialize())), ScriptBuf::new()),
            "p2tr" => {
                let x = self.key(k1).x_only_public_key().0.serialize();
                (Builder::new().push_opcode(opcodes::all::OP_PUSHNUM_1).push_slice(x).into_script(), ScriptBuf::new())
            }
            "opreturn" => (Builder::new().push_opcode(opcodes::all::OP_RETURN).into_script(), ScriptBuf::new()),
            _ => panic!("unknown template {}", tp),
        }
    }

    fn txout(&self, o: &AOut) -> TxOut {
        TxOut { value: Amount::from_sat(o.sat()), script_pubkey: self.script(&o.tp, &o.k1, &o.k2, &o.k3, o.d, o.h).0 }
    }

    fn ws_bytes(&self, w: &Value) -> Vec<u8> {
        if w["tp"] == "empty" {
            return vec![];
        }
        let o = ws_as_out(w);
        self.script(&o.tp, &o.k1, &o.k2, &o.k3, o.d, o.h).1.to_bytes()
    }

    /// a 48-bit prefix of the scriptPubKey (BOLT-3 orders equal amounts by script bytes)
    fn fill_sk(&self, outs: &mut Vec<AOut>) {
        let mut seen: HashMap<(u64, u64), Vec<u8>> = HashMap::new();
        for o in outs.iter_mut() {
            let b = self.txout(o).script_pubkey.to_bytes();
            let mut p = [0u8; 6];
            for (i, x) in b.iter().take(6).enumerate() {
                p[i] = *x;
            }
            o.sk = (((p[0] as u64) << 16) | ((p[1] as u64) << 8) | p[2] as u64, ((p[3] as u64) << 16) | ((p[4] as u64) << 8) | p[5] as u64);
            if let Some(prev) = seen.get(&o.sk) {
                assert!(*prev == b, "two scripts share a 48-bit prefix");
            }
            seen.insert(o.sk, b);
        }
    }

    /// BOLT-3 order: amount, scriptPubKey bytes, cltv_expiry
    fn sort(&self, outs: &mut Vec<AOut>) {
        let mut keyed: Vec<(u64, Vec<u8>, u64, AOut)> =
            outs.iter().map(|o| (o.sat(), self.txout(o).script_pubkey.to_bytes(), o.cl, o.clone())).collect();
        keyed.sort_by(|a, b| (a.0, &a.1, a.2).cmp(&(b.0, &b.1, b.2)));
        *outs = keyed.into_iter().map(|k| k.3).collect();
    }

    fn encode(&self, t: &ATx) -> Transaction {
        let u32_of = |p: (u64, u64)| ((p.0 << 24) | p.1) as u32;
        Transaction {
            version: Version(t.ver as i32),
            lock_time: LockTime::from_consensus(u32_of(t.lt)),
            input: t
                .ins
                .iter()
                .map(|i| TxIn {
                    previous_output: OutPoint { txid: funding_txid(i.t), vout: i.i as u32 },
                    script_sig: if i.ss == "empty" { ScriptBuf::new() } else { Builder::new().push_opcode(opcodes::OP_TRUE).into_script() },
                    sequence: Sequence(u32_of(i.seq)),
                    witness: if i.wit == "empty" { Witness::new() } else { Witness::from_slice(&[vec![1u8, 2, 3]]) },
                })
                .collect(),
            output: t.outs.iter().map(|o| self.txout(o)).collect(),
        }
    }

    fn factor(&self) -> (u64, u64) {
        if self.setup.is_outbound { self.of_hc } else { self.of_ch }
    }
    /// (hi24, lo24) of n XOR factor (n < 2^24)
    fn obscured(&self, n: u64) -> (u64, u64) {
        let f = self.factor();
        (f.0, f.1 ^ n)
    }

    fn txkeys(&self) -> TxCreationKeys {
        TxCreationKeys::derive_new(
            &secp(),
            &self.point,
            &self.cp.delayed_payment_basepoint,
            &self.cp.htlc_basepoint,
            &self.holder.revocation_basepoint,
            &self.holder.htlc_basepoint,
        )
    }

    /// LDK's commitment transaction from the model's numbers
    fn ldk_commitment(&self, c: &Value) -> CommitmentTransaction {
        let params = ChannelTransactionParameters {
            holder_pubkeys: self.holder.clone(),
            holder_selected_contest_delay: self.hdelay,
            is_outbound_from_holder: self.setup.is_outbound,
            counterparty_parameters: Some(CounterpartyChannelTransactionParameters { pubkeys: self.cp.clone(), selected_contest_delay: self.cdelay }),
            funding_outpoint: Some(lightning::chain::transaction::OutPoint {
                txid: self.setup.funding_outpoint.txid,
                index: self.setup.funding_outpoint.vout as u16,
            }),
            channel_type_features: features(self.anch),
        };
        let mut htlcs: Vec<(HTLCOutputInCommitment, ())> = vec![];
        for (list, offered) in [(&c["off"], true), (&c["rcv"], false)] {
            for h in list.as_array().unwrap() {
                htlcs.push((
                    HTLCOutputInCommitment {
                        offered,
                        amount_msat: h["v"].as_u64().unwrap() * 1000,
                        cltv_expiry: h["cl"].as_u64().unwrap() as u32,
                        payment_hash: payment_hash(h["h"].as_u64().unwrap()),
                        transaction_output_index: None,
                    },
                    (),
                ));
            }
        }
        CommitmentTransaction::new_with_auxiliary_htlc_data(
            INITIAL_COMMITMENT_NUMBER - c["n"].as_u64().unwrap(),
            c["to_c"].as_u64().unwrap(),
            c["to_h"].as_u64().unwrap(),
            self.cp.funding_pubkey,
            self.holder.funding_pubkey,
            self.txkeys(),
            c["fr"].as_u64().unwrap() as u32,
            &mut htlcs,
            &params.as_counterparty_broadcastable(),
        )
    }

    /// name the script of a second-level transaction's output by construction
    fn classify_revokeable(&self, spk: &ScriptBuf) -> (String, String, i64, String) {
        let names = ["rev", "dly", "bhtlc", "chtlc", "cpay", "bpay", "bfund", "cfund", "rev_o", "dly_o", "bhtlc_o", "chtlc_o", "rev_sw", "x1"];
        for k1 in names {
            for k2 in names {
                for d in [self.hdelay, self.cdelay] {
                    if self.script("revokeable", k1, k2, "none", d as i64, 0).0 == *spk {
                        return ("revokeable".into(), k1.into(), d as i64, k2.into());
                    }
                }
            }
        }
        ("unknown".into(), "none".into(), -1, "none".into())
    }

    fn funding_script(&self) -> ScriptBuf {
        make_funding_redeemscript(&self.holder.funding_pubkey, &self.cp.funding_pubkey)
    }

    /// does `sig` verify, under the holder's funding key, against the sighash (ALL) of `tx`?
    fn commit_sig_verifies(&self, tx: &Transaction, sig: &Signature) -> bool {
        let mut cache = SighashCache::new(tx);
        match cache.p2wsh_signature_hash(0, &self.funding_script(), Amount::from_sat(self.setup.channel_value_sat), EcdsaSighashType::All) {
            Ok(h) => secp().verify_ecdsa(&Message::from_digest(h.to_byte_array()), sig, &self.holder.funding_pubkey).is_ok(),
            Err(_) => false,
        }
    }
}

fn verifies(tx: &Transaction, script: &ScriptBuf, amount: u64, typ: EcdsaSighashType, sig: &Signature, key: &PublicKey) -> bool {
    let mut cache = SighashCache::new(tx);
    match cache.p2wsh_signature_hash(0, script, Amount::from_sat(amount), typ) {
        Ok(h) => secp().verify_ecdsa(&Message::from_digest(h.to_byte_array()), sig, key).is_ok(),
        Err(_) => false,
    }
}

// ------------------------------------------------------------------------------------------
// verdicts

/// stable tag of a refusal (observation only: keyword table over the real message)
fn tag_of(st: &Status) -> String {
    let m = st.message();
    let table = [
        ("len(tx.output) != len(witscripts)", "len"),
        ("bad commitment version", "version"),
        ("recomposed tx mismatch", "mismatch"),
        ("tx output[", "decode"),
        ("invalid attempt to sign counterparty", "state"),
        ("retry of sign_counterparty_commitment", "state"),
        ("validate_commitment_tx", "policy"),
        ("value overflow", "policy"),
        ("unbalanced payments", "payments"),
        ("failed to sign", "builder"),
    ];
    for (k, t) in table.iter() {
        if m.contains(k) {
            return t.to_string();
        }
    }
    format!("other:{:?}:{}", st.code(), m.chars().take(80).collect::<String>())
}

// ------------------------------------------------------------------------------------------
// mutations (mirror of CommitTx!Mutate; TLC re-checks the result with IsMutant)

fn set_field(o: &mut AOut, m: &Value) {
    let x = m["x"].as_str().unwrap();
    let n = m["n"].as_i64().unwrap();
    match m["f"].as_str().unwrap() {
        "v" => {
            o.vc = "n".into();
            o.v = n as u64;
        }
        "vtop" => {
            o.vc = "top".into();
            o.v = n as u64;
        }
        "tp" => {
            o.tp = x.to_string();
            if x.starts_with("received") {
                o.d = o.cl as i64;
            }
            o.norm();
        }
        "k1" => o.k1 = x.to_string(),
        "k2" => o.k2 = x.to_string(),
        "k3" => o.k3 = x.to_string(),
        "d" => o.d = n,
        "h" => o.h = n as u64,
        _ => {}
    }
}

fn foreign_in() -> AIn {
    AIn { t: 9, i: 0, seq: (255, M24 - 3), ss: "empty".into(), wit: "empty".into() }
}

fn mutate(w: &World, canon: &ATx, m: &Value, n: u64) -> ATx {
    let mut t = canon.clone();
    let p = m["p"].as_u64().unwrap() as usize;
    let p2 = m["p2"].as_u64().unwrap() as usize;
    let f = m["f"].as_str().unwrap();
    let num = m["n"].as_i64().unwrap();
    let wrap = |a: u64, d: i64| ((a as i64 + d + M24 as i64) % M24 as i64) as u64;
    match m["k"].as_str().unwrap() {
        "none" => {}
        "ver" => t.ver = num,
        "lt" => {
            t.lt = match f {
                "hi" => (num as u64, t.lt.1),
                "lo" => (32, wrap(t.lt.1, num)),
                _ => (32, w.obscured((n as i64 + num) as u64).1),
            }
        }
        "seq" => {
            t.ins[0].seq = match f {
                "hi" => (num as u64, t.ins[0].seq.1),
                _ => (128, wrap(t.ins[0].seq.1, num)),
            }
        }
        "op" => {
            if f == "t" {
                t.ins[0].t = num as u64
            } else {
                t.ins[0].i = num as u64
            }
        }
        "ss" => t.ins[0].ss = "x".into(),
        "wit" => t.ins[0].wit = "x".into(),
        "indup" => {
            let i = t.ins[0].clone();
            t.ins.push(i);
        }
        "inextra" => {
            if num == 0 {
                t.ins.push(foreign_in())
            } else {
                t.ins.insert(0, foreign_in())
            }
        }
        "noin" => t.ins.clear(),
        "out" => set_field(&mut t.outs[p - 1], m),
        "drop" => {
            t.outs.remove(p - 1);
        }
        "dup" => {
            let o = t.outs[p - 1].clone();
            t.outs.insert(p, o);
        }
        "extra" => t.outs.push(AOut::parse(&m["o"])),
        "swap" => t.outs.swap(p - 1, p2 - 1),
        k => panic!("unknown mutation kind {}", k),
    }
    if m["rs"].as_bool().unwrap() {
        w.sort(&mut t.outs);
    }
    w.fill_sk(&mut t.outs);
    t
}

fn mutate_ws(mut ws: Vec<Value>, wm: &Value) -> Vec<Value> {
    let p = wm["p"].as_u64().unwrap() as usize;
    let p2 = wm["p2"].as_u64().unwrap() as usize;
    match wm["k"].as_str().unwrap() {
        "none" => {}
        "empty" => ws[p - 1] = empty_ws(),
        "garbage" => ws[p - 1] = garbage_ws(),
        "other" => ws[p - 1] = ws[p2 - 1].clone(),
        "field" => {
            let mut o = ws_as_out(&ws[p - 1]);
            set_field(&mut o, wm);
            ws[p - 1] = ws_of_out(&o);
        }
        "droplast" => {
            ws.pop();
        }
        "extra" => ws.push(garbage_ws()),
        k => panic!("unknown witness script mutation {}", k),
    }
    ws
}

// ------------------------------------------------------------------------------------------
// one base

struct Snap {
    estate: EnforcementState,
    node: NodeSnap,
}

impl World {
    fn snap(&self) -> Snap {
        Snap {
            estate: self.fx.node.with_channel(&self.id, |chan| Ok(chan.enforcement_state.clone())).unwrap(),
            node: node_snap(&self.fx.node.get_state()),
        }
    }
    fn restore(&self, s: &Snap) {
        let es = s.estate.clone();
        self.fx
            .node
            .with_channel(&self.id, |chan| {
                chan.enforcement_state = es.clone();
                Ok(())
            })
            .unwrap();
        let mut st = self.fx.node.get_state();
        node_restore(&mut st, &s.node);
    }

    /// "crash + restart": from here on the requests go to a signer restored from a copy of the store.
    /// Returns "ok" or why the restore failed (the old signer stays in that case; TLC's concretisation
    /// check refuses such a log).
    fn restart(&mut self) -> String {
        match self.fx.restart_copy() {
            Ok(fx2) => {
                self.fx = fx2;
                "ok".to_string()
            }
            Err(e) => format!("failed: {}", e.chars().take(160).collect::<String>()),
        }
    }

    /// outgoing HTLCs (received by the counterparty) are payments: approve them the way a node does
    fn approve(&self, c: &Value) {
        let mut per_hash: HashMap<u64, u64> = HashMap::new();
        for h in c["rcv"].as_array().unwrap() {
            *per_hash.entry(h["h"].as_u64().unwrap()).or_insert(0) += h["v"].as_u64().unwrap() * 1000;
        }
        for (h, amt) in per_hash {
            let _ = catch(|| self.fx.node.add_keysend(payee(), payment_hash(h), amt));
        }
    }

    fn sem(&self, c: &Value, point: &PublicKey) -> Result<Result<(Signature, Vec<Signature>), Status>, String> {
        let n = c["n"].as_u64().unwrap();
        let off = htlc_infos(&c["off"]);
        let rcv = htlc_infos(&c["rcv"]);
        catch(|| {
            self.fx.node.with_channel(&self.id, |chan| {
                chan.sign_counterparty_commitment_tx_phase2(
                    point,
                    n,
                    c["fr"].as_u64().unwrap() as u32,
                    c["to_h"].as_u64().unwrap(),
                    c["to_c"].as_u64().unwrap(),
                    off.clone(),
                    rcv.clone(),
                )
            })
        })
    }

    fn raw(&self, c: &Value, tx: &Transaction, ws: &[Vec<u8>]) -> Result<Result<Signature, Status>, String> {
        self.raw_pt(c, tx, ws, &self.point)
    }

    fn raw_pt(&self, c: &Value, tx: &Transaction, ws: &[Vec<u8>], point: &PublicKey) -> Result<Result<Signature, Status>, String> {
        let n = c["n"].as_u64().unwrap();
        let off = htlc_infos(&c["off"]);
        let rcv = htlc_infos(&c["rcv"]);
        catch(|| {
            self.fx.node.with_channel(&self.id, |chan| {
                chan.sign_counterparty_commitment_tx(tx, ws, point, n, c["fr"].as_u64().unwrap() as u32, off.clone(), rcv.clone())
            })
        })
    }

    /// the content the signer holds for the latest counterparty commitment, read back from its state
    fn recorded(&self) -> Value {
        let info = catch(|| self.fx.node.with_channel(&self.id, |chan| Ok(chan.enforcement_state.current_counterparty_commit_info.clone())));
        let hl = |v: &Vec<HTLCInfo2>| -> Vec<Value> {
            v.iter().map(|h| json!({"v": h.value_sat, "h": h.payment_hash.0[0], "cl": h.cltv_expiry})).collect()
        };
        match info {
            Ok(Ok(Some(i))) => json!({"some": true, "fr": i.feerate_per_kw, "to_h": i.to_countersigner_value_sat, "to_c": i.to_broadcaster_value_sat,
                                      "off": hl(&i.offered_htlcs), "rcv": hl(&i.received_htlcs)}),
            _ => json!({"some": false, "fr": 0, "to_h": 0, "to_c": 0, "off": [], "rcv": []}),
        }
    }
}

/// a fresh real node + channel brought to the state in which commitment n can be signed
fn prepare(b: &Value) -> Result<(World, Vec<String>, Snap, String), String> {
    let c = &b["C"];
    let n = c["n"].as_u64().unwrap();
    let mut w = World::new(&b["S"], c)?;
    // commitments 0..n-1 signed with the `pre` content, 0..n-2 revoked
    let mut reach = vec![];
    for k in 0..n {
        let mut pc = b["pre"].clone();
        pc["n"] = json!(k);
        let r = w.sem(&pc, &tree_point(&TREE_A, k));
        reach.push(match &r {
            Ok(Ok(_)) => "ok".to_string(),
            Ok(Err(st)) => tag_of(st),
            Err(_) => "panic".to_string(),
        });
        if k >= 1 {
            let sk = tree_secret(&TREE_A, k - 1);
            let r = catch(|| w.fx.node.with_channel(&w.id, |chan| chan.validate_counterparty_revocation(k - 1, &sk)));
            reach.push(match &r {
                Ok(Ok(_)) => "ok".to_string(),
                Ok(Err(st)) => format!("revoke:{}", tag_of(st)),
                Err(_) => "panic".to_string(),
            });
        }
    }
    // history "restart": the signer is restored from its store before the first request for n
    let restart = if b["hist"] == "restart" { w.restart() } else { "none".to_string() };
    w.approve(c);
    let fresh = w.snap();
    Ok((w, reach, fresh, restart))
}

/// the state in which a base's retries / raw retries are made: the first semantic request for n was
/// answered - and, history "restart_retry", the signer was restored from its store afterwards
fn after_first(w: &mut World, b: &Value) -> Snap {
    let _ = w.sem(&b["C"], &w.point);
    if b["hist"] == "restart_retry" {
        let _ = w.restart();
    }
    w.snap()
}

fn run_base(b: &Value) -> Vec<Value> {
    let sv = &b["S"];
    let c = &b["C"];
    let n = c["n"].as_u64().unwrap();
    let mut rows = vec![];
    let (mut w, reach, mut fresh, mut restart) = match prepare(b) {
        Ok(x) => x,
        Err(e) => {
            // setup_channel refused this setup: nothing can be asked of this channel
            rows.push(json!({"k": "base", "b": b["b"], "name": b["name"], "S": sv, "C": c, "hist": b["hist"], "setup_ok": false,
                             "setup": e, "htx": [], "sem": {"ok": false, "tag": "nosetup", "canon": false, "hs": []},
                             "sem2": {"ok": false, "tag": "nosetup", "canon": false, "same": false}}));
            for mu in b["muts"].as_array().unwrap().iter().chain(b["retries"].as_array().unwrap().iter()) {
                rows.push(json!({"k": "skip", "b": b["b"], "id": mu["id"]}));
            }
            return rows;
        }
    };
    let reached = reach.iter().all(|x| x == "ok");

    // ---- the canonical transaction from the model's abstract outputs
    let unordered: Vec<AOut> = b["outs"].as_array().unwrap().iter().map(AOut::parse).collect();
    let mut sorted = unordered.clone();
    w.sort(&mut sorted);
    w.fill_sk(&mut sorted);
    let ob = w.obscured(n);
    let canon = ATx {
        ver: 2,
        lt: (32, ob.1),
        ins: vec![AIn { t: sv["fo"]["t"].as_u64().unwrap(), i: sv["fo"]["i"].as_u64().unwrap(), seq: (128, ob.0), ss: "empty".into(), wit: "empty".into() }],
        outs: sorted.clone(),
    };
    let canon_tx = w.encode(&canon);
    // position (1-based) in the sorted outputs of every unordered output (index 0: "no position")
    let mut positions: Vec<u64> = vec![0];
    for o in unordered.iter() {
        let to = w.txout(o);
        positions.push((sorted.iter().position(|q| w.txout(q) == to && q.cl == o.cl).expect("position") + 1) as u64);
    }
    let pos_of = |j: u64| -> u64 { positions[j as usize] };

    // ---- LDK's transaction for the same content, and its second-level transactions
    let ldk = catch(|| w.ldk_commitment(c));
    let (ldk_eq, htx, htx_txs, htlc_scripts): (bool, Vec<Value>, Vec<Transaction>, Vec<(ScriptBuf, u64)>) = match &ldk {
        Ok(ct) => {
            let built = ct.trust().built_transaction().transaction.clone();
            let txid = ct.trust().txid();
            let keys = w.txkeys();
            let mut htx = vec![];
            let mut txs = vec![];
            let mut scripts = vec![];
            for h in ct.htlcs() {
                let r = catch(|| {
                    build_htlc_transaction(&txid, c["fr"].as_u64().unwrap() as u32, w.hdelay, h, &features(w.anch), &keys.broadcaster_delayed_payment_key, &keys.revocation_key)
                });
                match r {
                    Ok(t) => {
                        let (tp, k1, d, k2) = w.classify_revokeable(&t.output[0].script_pubkey);
                        htx.push(json!({"ver": t.version.0, "lt": t.lock_time.to_consensus_u32(), "vout": t.input[0].previous_output.vout,
                                        "seq": t.input[0].sequence.0, "v": t.output[0].value.to_sat(), "tp": tp, "k1": k1, "d": d, "k2": k2,
                                        "nin": t.input.len(), "nout": t.output.len(),
                                        "spends_canon": t.input[0].previous_output.txid == canon_tx.compute_txid()}));
                        txs.push(t);
                        scripts.push((get_htlc_redeemscript(h, &features(w.anch), &keys), h.amount_msat / 1000));
                    }
                    Err(_) => {
                        // LDK cannot build it (fee above the HTLC value): no second-level transaction
                        htx.push(json!({"ver": 0, "lt": 0, "vout": h.transaction_output_index.unwrap_or(0), "seq": 0, "v": 0, "tp": "unbuildable",
                                        "k1": "none", "d": -1, "k2": "none", "nin": 0, "nout": 0, "spends_canon": false}));
                        txs.push(Transaction { version: Version::TWO, lock_time: LockTime::ZERO, input: vec![], output: vec![] });
                        scripts.push((ScriptBuf::new(), 0));
                    }
                }
            }
            (built == canon_tx, htx, txs, scripts)
        }
        Err(_) => (false, vec![], vec![], vec![]),
    };

    // ---- the semantic entry point
    let sem = w.sem(c, &w.point);
    let chtlc = w.key("chtlc");
    // against which second-level transaction OF THE BASE'S CONTENT (own index first) does each HTLC
    // signature verify, and with which sighash type?
    let classify_hs = |hsigs: &Vec<Signature>| -> Vec<Value> {
        let mut hs = vec![];
        for (k, hsig) in hsigs.iter().enumerate() {
            let mut found = (0usize, "none");
            let mut order: Vec<usize> = vec![];
            if k < htx_txs.len() {
                order.push(k);
            }
            order.extend((0..htx_txs.len()).filter(|j| *j != k));
            'search: for j in order {
                for (typ, name) in [(EcdsaSighashType::All, "all"), (EcdsaSighashType::SinglePlusAnyoneCanPay, "single_acp")] {
                    if verifies(&htx_txs[j], &htlc_scripts[j].0, htlc_scripts[j].1, typ, hsig, &chtlc) {
                        found = (j + 1, name);
                        break 'search;
                    }
                }
            }
            hs.push(json!({"j": found.0, "typ": found.1}));
        }
        hs
    };
    let (sem_json, sem_sig, sem_hsigs) = match &sem {
        Ok(Ok((sig, hsigs))) =>
            (json!({"ok": true, "tag": "ok", "canon": w.commit_sig_verifies(&canon_tx, sig), "hs": classify_hs(hsigs)}), Some(*sig), hsigs.clone()),
        Ok(Err(st)) => (json!({"ok": false, "tag": tag_of(st), "canon": false, "hs": [], "msg": st.message().chars().take(160).collect::<String>()}), None, vec![]),
        Err(p) => (json!({"ok": false, "tag": "panic", "canon": false, "hs": [], "msg": p.chars().take(160).collect::<String>()}), None, vec![]),
    };
    let rec_first = w.recorded();
    let hist = b["hist"].as_str().unwrap();
    // history "restart_retry": the signer is restored from its store after the first request for n
    if hist == "restart_retry" {
        restart = w.restart();
        if sem_sig.is_none() {
            fresh = w.snap();
        }
    }
    // the same request again (a retry in the state the first one left)
    let mut after = w.snap();
    let sem2_json = if sem_sig.is_some() {
        match w.sem(c, &w.point) {
            Ok(Ok((sig, _))) => json!({"ok": true, "tag": "ok", "canon": w.commit_sig_verifies(&canon_tx, &sig), "same": Some(sig) == sem_sig}),
            Ok(Err(st)) => json!({"ok": false, "tag": tag_of(&st), "canon": false, "same": false}),
            Err(_) => json!({"ok": false, "tag": "panic", "canon": false, "same": false}),
        }
    } else {
        json!({"ok": false, "tag": "none", "canon": false, "same": false})
    };
    let retry = (hist == "retry" || hist == "restart_retry") && sem_sig.is_some();

    let mut slog = sv.clone();
    slog["of"] = json!({"hc": [w.of_hc.0, w.of_hc.1], "ch": [w.of_ch.0, w.of_ch.1]});
    rows.push(json!({"k": "base", "b": b["b"], "name": b["name"], "S": slog, "C": c, "hist": hist, "setup_ok": true, "setup": "ok",
                     "reach": reach, "reached": reached, "restart": restart, "amt": w.setup.channel_value_sat,
                     "canon": canon.json(), "ldk_built": ldk.is_ok(), "ldk_eq": ldk_eq, "htx": htx, "sem": sem_json, "sem2": sem2_json, "rec": rec_first}));

    // ---- RETRIES: a second request for the same number after the accepted first one, both entry points
    for rt in b["retries"].as_array().unwrap() {
        if sem_sig.is_none() {
            rows.push(json!({"k": "skip", "b": b["b"], "id": rt["id"]}));
            continue;
        }
        let c2 = &rt["C2"];
        let ep = rt["ep"].as_str().unwrap();
        let other_pt = c2["pt"] != c["pt"];
        let point2 = if other_pt { w.other_point } else { w.point };
        w.restore(&after);
        w.approve(c2);
        let (resp, panicked) = if ep == "sem" {
            match w.sem(c2, &point2) {
                Ok(Ok((sig, hsigs))) => (json!({"ok": true, "tag": "ok", "canon": w.commit_sig_verifies(&canon_tx, &sig), "same": Some(sig) == sem_sig,
                                                "hs": classify_hs(&hsigs), "hsame": hsigs == sem_hsigs}), false),
                Ok(Err(st)) => (json!({"ok": false, "tag": tag_of(&st), "canon": false, "same": false, "hs": [], "hsame": false}), false),
                Err(p) => (json!({"ok": false, "tag": "panic", "canon": false, "same": false, "hs": [], "hsame": false, "msg": p.chars().take(120).collect::<String>()}), true),
            }
        } else {
            // the canonical transaction of C2 (keys of C2's per-commitment point)
            if other_pt {
                std::mem::swap(&mut w.point, &mut w.other_point);
            }
            let mut outs2: Vec<AOut> = rt["outs2"].as_array().unwrap().iter().map(AOut::parse).collect();
            w.sort(&mut outs2);
            w.fill_sk(&mut outs2);
            let atx2 = ATx { ver: canon.ver, lt: canon.lt, ins: canon.ins.clone(), outs: outs2 };
            let tx2 = w.encode(&atx2);
            let wsb2: Vec<Vec<u8>> = atx2.outs.iter().map(ws_of_out).map(|x| w.ws_bytes(&x)).collect();
            if other_pt {
                std::mem::swap(&mut w.point, &mut w.other_point);
            }
            match w.raw_pt(c2, &tx2, &wsb2, &point2) {
                Ok(Ok(sig)) => (json!({"ok": true, "tag": "ok", "canon": w.commit_sig_verifies(&canon_tx, &sig), "same": Some(sig) == sem_sig,
                                       "hs": [], "hsame": true, "sub": w.commit_sig_verifies(&tx2, &sig)}), false),
                Ok(Err(st)) => (json!({"ok": false, "tag": tag_of(&st), "canon": false, "same": false, "hs": [], "hsame": false}), false),
                Err(p) => (json!({"ok": false, "tag": "panic", "canon": false, "same": false, "hs": [], "hsame": false, "msg": p.chars().take(120).collect::<String>()}), true),
            }
        };
        let rec = if panicked { json!({"some": false, "fr": 0, "to_h": 0, "to_c": 0, "off": [], "rcv": []}) } else { w.recorded() };
        rows.push(json!({"k": "retry", "b": b["b"], "id": rt["id"], "kind": rt["kind"], "ep": ep, "C2": c2, "resp": resp, "rec": rec}));
        if panicked {
            let (w2, _, fresh2, _) = prepare(b).expect("rebuild");
            w = w2;
            fresh = fresh2;
            after = after_first(&mut w, b);
        }
    }

    // ---- the raw entry point on every mutation
    for mu in b["muts"].as_array().unwrap() {
        let mut m = mu["m"].clone();
        m["p"] = json!(pos_of(m["p"].as_u64().unwrap()));
        m["p2"] = json!(pos_of(m["p2"].as_u64().unwrap()));
        let mut wm = mu["w"].clone();
        wm["p"] = json!(pos_of(wm["p"].as_u64().unwrap()));
        wm["p2"] = json!(pos_of(wm["p2"].as_u64().unwrap()));
        let mut m2 = mu["m2"].clone();
        m2["p"] = json!(pos_of(m2["p"].as_u64().unwrap()));
        m2["p2"] = json!(pos_of(m2["p2"].as_u64().unwrap()));
        let atx = mutate(&w, &mutate(&w, &canon, &m, n), &m2, n);
        let base_outs = if wm["base"] == "canon" { &canon.outs } else { &atx.outs };
        let ws = mutate_ws(base_outs.iter().map(ws_of_out).collect(), &wm);
        let tx = w.encode(&atx);
        let wsb: Vec<Vec<u8>> = ws.iter().map(|x| w.ws_bytes(x)).collect();
        w.restore(if retry { &after } else { &fresh });
        let r = w.raw(c, &tx, &wsb);
        let resp = match &r {
            Ok(Ok(sig)) => json!({"ok": true, "tag": "ok", "sub": w.commit_sig_verifies(&tx, sig), "canon": w.commit_sig_verifies(&canon_tx, sig),
                                  "same": Some(*sig) == sem_sig}),
            Ok(Err(st)) => json!({"ok": false, "tag": tag_of(st), "sub": false, "canon": false, "same": false}),
            Err(p) => json!({"ok": false, "tag": "panic", "sub": false, "canon": false, "same": false, "msg": p.chars().take(120).collect::<String>()}),
        };
        rows.push(json!({"k": "raw", "b": b["b"], "id": mu["id"], "m": m, "m2": m2, "w": wm, "tx": atx.json(), "ws": ws,
                         "bytes_eq_canon": tx == canon_tx, "resp": resp}));
        if matches!(r, Err(_)) {
            // a panic may have poisoned a lock of this node: continue on a node rebuilt the same way
            let (w2, _, fresh2, _) = prepare(b).expect("rebuild");
            w = w2;
            fresh = fresh2;
            if retry {
                after = after_first(&mut w, b);
            }
        }
    }
    rows
}

fn run() {
    let cases_path = arg("cases").expect("--cases");
    let out = arg("out").expect("--out");
    let threads = arg_u64("threads", 8) as usize;
    let text = std::fs::read_to_string(&cases_path).expect("read cases");
    let bases: Vec<Value> = text.lines().filter(|l| !l.trim().is_empty()).map(|l| serde_json::from_str(l).expect("base")).collect();
    let mut shards: Vec<Vec<Value>> = vec![vec![]; threads];
    // biggest first, round robin: balanced shards
    let mut order: Vec<usize> = (0..bases.len()).collect();
    order.sort_by_key(|i| std::cmp::Reverse(bases[*i]["muts"].as_array().map(|a| a.len()).unwrap_or(0)));
    for (k, i) in order.iter().enumerate() {
        shards[k % threads].push(bases[*i].clone());
    }
    let mut handles = vec![];
    for shard in shards.into_iter() {
        handles.push(
            std::thread::Builder::new()
                .stack_size(64 << 20)
                .spawn(move || shard.iter().map(|b| (b["b"].as_u64().unwrap(), run_base(b))).collect::<Vec<(u64, Vec<Value>)>>())
                .unwrap(),
        );
    }
    let mut all: Vec<(u64, Vec<Value>)> = vec![];
    for h in handles {
        all.extend(h.join().expect("worker"));
    }
    all.sort_by_key(|x| x.0);
    let mut wr = NdJson::create(&out);
    let (mut nbase, mut nraw, mut ok, mut refused, mut panics, mut skipped, mut nretry) = (0u64, 0u64, 0u64, 0u64, 0u64, 0u64, 0u64);
    for (_, rows) in all.iter() {
        for r in rows {
            match r["k"].as_str().unwrap() {
                "base" => nbase += 1,
                "skip" => skipped += 1,
                "retry" => nretry += 1,
                "raw" => {
                    nraw += 1;
                    if r["resp"]["ok"] == true {
                        ok += 1
                    } else if r["resp"]["tag"] == "panic" {
                        panics += 1
                    } else {
                        refused += 1
                    }
                }
                _ => {}
            }
            wr.put(r);
        }
    }
    wr.finish();
    println!("{}", json!({"bases": nbase, "raw": nraw, "ok": ok, "refused": refused, "panics": panics, "skipped": skipped, "retries": nretry}));
}

/// does the real setup_channel accept a channel with these contest delays?
fn probe_setup(ct: &str, hdelay: u64, cdelay: u64) -> Value {
    let sv = json!({"ct": ct, "outbound": true, "hdelay": hdelay, "cdelay": cdelay, "ks": 1, "fo": {"t": 1, "i": 0},
                    "value": 1_000_000u64, "push": 100_000u64});
    let c = json!({"n": 0, "pt": "A"});
    match World::new(&sv, &c) {
        Ok(_) => json!({"ct": ct, "hdelay": hdelay, "cdelay": cdelay, "ok": true, "msg": ""}),
        Err(e) => json!({"ct": ct, "hdelay": hdelay, "cdelay": cdelay, "ok": false, "msg": e}),
    }
}

fn bounds() {
    let out = arg("out").expect("--out");
    // the policy the fixture's node runs under (NodeFx::new(Regtest, None): the default simple policy)
    let pol = default_policy(Network::Regtest);
    let (min, max) = (pol.min_delay as u64, pol.max_delay as u64);
    let mid = 144u64;
    let mut probes = vec![];
    for ct in ["static", "zerofee"] {
        for d in [min.saturating_sub(1), min, mid, max, max + 1] {
            probes.push(probe_setup(ct, d, mid));
            probes.push(probe_setup(ct, mid, d));
        }
        probes.push(probe_setup(ct, min, min));
        probes.push(probe_setup(ct, max, max));
    }
    let doc = json!({"min": min, "mid": mid, "max": max, "probes": probes});
    std::fs::write(&out, serde_json::to_string(&doc).unwrap()).expect("write bounds");
    println!("{}", json!({"min": min, "max": max, "probes": doc["probes"].as_array().unwrap().len()}));
}

fn main() {
    quiet_panics();
    match std::env::args().nth(1).as_deref() {
        Some("run") => run(),
        Some("bounds") => bounds(),
        _ => {
            eprintln!("usage: committx run --cases F --out F [--threads N] | committx bounds --out F");
            std::process::exit(2);
        }
    }
}
