//! Key-derivation explorer (legs B and C for C18).
//!
//!   keys explore --alphabet A.json --out DIR [--threads 16] [--maxstates K]
//!        A.json (written by TLC from spec/KeysAlphabet.tla):
//!          { "graphs":   [ {ci, cfg:{style,seed,net}, fam, nids, nmax, init:[req..]} .. ],
//!            "requests": [ req .. ], "obs": [ bool .. ] }
//!        For every graph: exhaustive breadth-first exploration of the REAL implementation's
//!        state graph.  Every request of the alphabet is applied to every discovered state
//!        (states are re-created by re-executing their request path on a fresh `Node`).
//!        Output: DIR/nodes.ndjson (one row per state with its outgoing edges),
//!        DIR/vals.json (intern table of the observed byte strings).
//!   keys run --seqs seqs.ndjson --out FILE
//!        replays request sequences (TLC-generated scripts / simulated behaviours / replay
//!        files) from a fresh node and records one step per request.
//!
//! Requests "NodeKey" (what the node hands out: node id, bolt12 / persistence keys, onion secret,
//! account xpub, wallet addresses, LDK shutdown script, heartbeat key) and "Ref" (a term of
//! Keys.tla over HKDF / BIP32 primitives, evaluated for the node's seed and network) return opaque
//! tokens that TLC compares for equality.
//!
//! No property logic here: the binary applies requests to the real crates, records what was
//! returned (keys as interned byte strings) and a projection of the state.  TLC judges.
use std::collections::{BTreeMap, HashMap};
use std::str::FromStr;
use std::sync::Arc;
use std::time::Duration;

use bitcoin::bip32::{ChildNumber, DerivationPath, Xpriv, Xpub};
use bitcoin::key::{CompressedPublicKey, UntweakedPublicKey};
use bitcoin::{Address, ScriptBuf};
use lightning_signer::util::crypto_utils::hkdf_sha256;
use lightning_signer::wallet::Wallet;
use bitcoin::hashes::Hash;
use bitcoin::secp256k1::{PublicKey, Secp256k1, SecretKey};
use bitcoin::{Network, Txid};
use lightning_signer::channel::{ChannelId, ChannelSetup, ChannelSlot, CommitmentType};
use lightning_signer::node::{Node, NodeConfig};
use lightning_signer::persist::{MemorySeedPersister, Persist};
use lightning_signer::policy::validator::CounterpartyCommitmentSecrets;
use lightning_signer::signer::derive::KeyDerivationStyle;
use lightning_signer::util::clock::ManualClock;
use lightning_signer::util::test_utils::key::make_test_counterparty_points;
use serde_json::{json, Value};
use vls_verif_harness::*;

const IDX0: u64 = INITIAL_COMMITMENT_NUMBER;

// ---------------------------------------------------------------------------------------------
// concretisation of the model's configurations and channel ids

#[derive(Clone)]
struct Cfg {
    style: String,
    seed: String,
    net: String,
}

impl Cfg {
    fn from_json(v: &Value) -> Cfg {
        Cfg {
            style: v["style"].as_str().unwrap().to_string(),
            seed: v["seed"].as_str().unwrap().to_string(),
            net: v["net"].as_str().unwrap().to_string(),
        }
    }
    fn seed_bytes(&self) -> [u8; 32] {
        match self.seed.as_str() {
            "s1" => seed(),
            "s2" => [0x11u8; 32],
            "s3" => {
                let mut s = [0u8; 32];
                for (i, b) in s.iter_mut().enumerate() {
                    *b = (i as u8).wrapping_mul(37).wrapping_add(5);
                }
                s
            }
            other => panic!("unknown seed {}", other),
        }
    }
    fn network(&self) -> Network {
        match self.net.as_str() {
            "regtest" => Network::Regtest,
            "testnet" => Network::Testnet,
            "bitcoin" => Network::Bitcoin,
            "signet" => Network::Signet,
            other => panic!("unknown network {}", other),
        }
    }
    fn style(&self) -> KeyDerivationStyle {
        KeyDerivationStyle::from_str(&self.style).expect("style")
    }
}

/// concrete (peer id, dbid) of model channel id `i` in id family `fam`
fn concrete(fam: &str, i: u64) -> ([u8; 33], u64) {
    let mut peer = peer_id();
    match fam {
        "low" => (peer, i),
        "mid" => (peer, 1 + (i << 24)),
        "high" => (peer, 1 + (i << 56)),
        "peer0" => {
            peer[0] ^= (i as u8) << 2;
            (peer, 1)
        }
        "peer32" => {
            peer[32] ^= i as u8;
            (peer, 1)
        }
        f if f.starts_with("flip") => {
            // id 1 = base; id k >= 2 = base with bit (k-2) of byte p flipped
            let p: usize = f[4..].parse().expect("flip position");
            let mut dbid: u64 = 0x0101_0101_0101_0101;
            if i >= 2 {
                let bit = 1u8 << ((i - 2) as u8);
                if p < 33 {
                    peer[p] ^= bit;
                } else {
                    let mut b = dbid.to_le_bytes();
                    b[p - 33] ^= bit;
                    dbid = u64::from_le_bytes(b);
                }
            }
            (peer, dbid)
        }
        other => panic!("unknown id family {}", other),
    }
}

fn id0_of(fam: &str, i: u64) -> ChannelId {
    let (peer, dbid) = concrete(fam, i);
    ChannelId::new_from_peer_id_and_oid(&peer, dbid)
}

/// the concrete channel ids of a graph, as byte strings (TLC only compares them)
fn cid_hex(g: &Graph) -> Vec<String> {
    (1..=g.nids).map(|i| format!("id:{}", hex::encode(id0_of(&g.fam, i).as_slice()))).collect()
}

fn perm_of(i: u64) -> ChannelId {
    ChannelId::new(&[0xA0u8.wrapping_add(i as u8); 32])
}

fn value_of(v: &str) -> u64 {
    match v {
        "A" => 3_000_000,
        "B" => 1_000_000,
        other => panic!("unknown value variant {}", other),
    }
}

fn make_setup(i: u64, v: &str) -> ChannelSetup {
    ChannelSetup {
        is_outbound: true,
        channel_value_sat: value_of(v),
        push_value_msat: 0,
        funding_outpoint: bitcoin::OutPoint {
            txid: Txid::from_slice(&[0x20u8.wrapping_add(i as u8); 32]).unwrap(),
            vout: 0,
        },
        holder_selected_contest_delay: 144,
        holder_shutdown_script: None,
        counterparty_points: make_test_counterparty_points(),
        counterparty_selected_contest_delay: 145,
        counterparty_shutdown_script: None,
        commitment_type: CommitmentType::StaticRemoteKey,
    }
}

// ---------------------------------------------------------------------------------------------
// the world: one real node (+ the counterparty's compact secret stores, one per channel)

struct Graph {
    ci: u64,
    cfg: Cfg,
    fam: String,
    nids: u64,
    nmax: u64,
    init: Vec<Value>,
}

impl Graph {
    fn from_json(v: &Value) -> Graph {
        Graph {
            ci: v["ci"].as_u64().unwrap(),
            cfg: Cfg::from_json(&v["cfg"]),
            fam: v["fam"].as_str().unwrap().to_string(),
            nids: v["nids"].as_u64().unwrap(),
            nmax: v["nmax"].as_u64().unwrap(),
            init: v["init"].as_array().cloned().unwrap_or_default(),
        }
    }
}

struct World<'a> {
    g: &'a Graph,
    node: Arc<Node>,
    store: Arc<MemPersister>,
    restarted: bool,
    cstores: BTreeMap<u64, CounterpartyCommitmentSecrets>,
}

struct Resp {
    ok: bool,
    v: Vec<String>,
    msg: String,
}

impl Resp {
    fn err(msg: String) -> Resp {
        Resp { ok: false, v: vec![], msg }
    }
    fn ok(v: Vec<String>) -> Resp {
        Resp { ok: true, v, msg: String::new() }
    }
}

/// projection of the state onto the variables of Keys.tla (byte strings not yet interned)
#[derive(Clone)]
struct Proj {
    ch: Vec<(String, u64, bool, String)>,
    hwm: i64,
    rs: bool,
    st: Vec<Vec<(String, u64)>>,
}

fn new_node(cfg: &Cfg) -> (Arc<Node>, Arc<MemPersister>) {
    let store = new_mem_persister();
    let clock = Arc::new(ManualClock::new(Duration::from_secs(NOW_SECS)));
    let services = make_services(store.clone(), clock, None);
    let network = cfg.network();
    let mut config = NodeConfig::new(network);
    config.key_derivation_style = cfg.style();
    let node = Arc::new(Node::new(config, &cfg.seed_bytes(), vec![], services));
    node.add_allowlist(&[]).expect("allowlist");
    store.new_node(&node.get_id(), &config, &*node.get_state()).expect("new_node");
    store.new_tracker(&node.get_id(), &node.get_tracker()).expect("new_tracker");
    (node, store)
}

fn restore_node(cfg: &Cfg, from: &MemPersister) -> Result<(Arc<Node>, Arc<MemPersister>), String> {
    let d = dump_store(&from.0);
    let store = new_mem_persister();
    load_store(&store.0, &d);
    let clock = Arc::new(ManualClock::new(Duration::from_secs(NOW_SECS)));
    let services = make_services(store.clone(), clock, None);
    let seed = cfg.seed_bytes().to_vec();
    let r = catch(|| Node::restore_nodes(services, Arc::new(MemorySeedPersister::new(seed))));
    match r {
        Err(p) => Err(format!("panic: {}", p)),
        Ok(Err(st)) => Err(format!("status: {:?}", st)),
        Ok(Ok(nodes)) => {
            let node = nodes.into_iter().next().ok_or("no node restored")?.1;
            Ok((node, store))
        }
    }
}

fn status_msg<T>(r: Result<Result<T, lightning_signer::util::status::Status>, String>) -> Result<T, String> {
    match r {
        Err(p) => Err(format!("panic: {}", p)),
        Ok(Err(st)) => Err(st.message().to_string()),
        Ok(Ok(x)) => Ok(x),
    }
}

impl<'a> World<'a> {
    fn new(g: &'a Graph) -> World<'a> {
        let (node, store) = new_node(&g.cfg);
        let mut w = World { g, node, store, restarted: false, cstores: BTreeMap::new() };
        for r in &g.init {
            let resp = w.apply(r);
            if !resp.ok {
                panic!("initial request {} refused: {}", r, resp.msg);
            }
        }
        w
    }

    fn nh_adv(&self) -> u64 {
        self.g.nmax + 2
    }

    fn cid(&self, r: &Value) -> ChannelId {
        let i = r["id"].as_u64().unwrap();
        if r["via"].as_str() == Some("perm") {
            perm_of(i)
        } else {
            id0_of(&self.g.fam, i)
        }
    }

    fn released_secret(&self, i: u64, n: u64) -> Result<SecretKey, String> {
        let id = id0_of(&self.g.fam, i);
        let node = self.node.clone();
        status_msg(catch(|| node.with_channel_base(&id, |b| b.get_per_commitment_secret(n))))
    }

    fn apply(&mut self, r: &Value) -> Resp {
        let op = r["op"].as_str().unwrap_or("");
        let node = self.node.clone();
        match op {
            "New" => {
                let (peer, dbid) = concrete(&self.g.fam, r["id"].as_u64().unwrap());
                match status_msg(catch(|| node.new_channel(dbid, &peer, &node))) {
                    Ok(_) => Resp::ok(vec![]),
                    Err(m) => Resp::err(m),
                }
            }
            "Setup" => {
                let i = r["id"].as_u64().unwrap();
                let id0 = id0_of(&self.g.fam, i);
                let perm = if r["al"].as_bool().unwrap_or(false) { Some(perm_of(i)) } else { None };
                let setup = make_setup(i, r["v"].as_str().unwrap());
                match status_msg(catch(|| {
                    node.setup_channel(id0, perm, setup, &DerivationPath::master())
                })) {
                    Ok(_) => Resp::ok(vec![]),
                    Err(m) => Resp::err(m),
                }
            }
            "Forget" => {
                let id0 = id0_of(&self.g.fam, r["id"].as_u64().unwrap());
                match status_msg(catch(|| node.forget_channel(&id0))) {
                    Ok(_) => Resp::ok(vec![]),
                    Err(m) => Resp::err(m),
                }
            }
            "Advance" => {
                // test_utils setter of next_holder_commit_num, made durable like every real
                // transition (the commitment exchange itself is Channel.tla's business)
                let id0 = id0_of(&self.g.fam, r["id"].as_u64().unwrap());
                let nh = self.nh_adv();
                let persister = node.get_persister();
                let node_id = node.get_id();
                match status_msg(catch(|| {
                    node.with_channel(&id0, |chan| {
                        chan.enforcement_state.set_next_holder_commit_num_for_testing(nh);
                        persister
                            .update_channel(&node_id, chan)
                            .map_err(|_| lightning_signer::util::status::Status::internal("persist"))
                    })
                })) {
                    Ok(_) => Resp::ok(vec![]),
                    Err(m) => Resp::err(m),
                }
            }
            "Restart" => match restore_node(&self.g.cfg, &self.store) {
                Ok((node, store)) => {
                    self.node = node;
                    self.store = store;
                    self.restarted = true;
                    Resp::ok(vec![])
                }
                Err(m) => Resp::err(m),
            },
            "Basepoints" => {
                let id = self.cid(r);
                let got = catch(|| -> Result<Vec<String>, String> {
                    let slot = node.get_channel(&id).map_err(|e| e.message().to_string())?;
                    let g = slot.lock().unwrap();
                    let bp = g.get_channel_basepoints();
                    let fk = match &*g {
                        ChannelSlot::Stub(s) => s.keys.funding_key,
                        ChannelSlot::Ready(c) => c.keys.funding_key,
                    };
                    Ok(vec![
                        hex::encode(bp.funding_pubkey.serialize()),
                        hex::encode(bp.revocation_basepoint.0.serialize()),
                        hex::encode(bp.payment_point.serialize()),
                        hex::encode(bp.delayed_payment_basepoint.0.serialize()),
                        hex::encode(bp.htlc_basepoint.0.serialize()),
                        hex::encode(fk.secret_bytes()),
                    ])
                });
                match got {
                    Ok(Ok(v)) => Resp::ok(v),
                    Ok(Err(m)) => Resp::err(m),
                    Err(p) => Resp::err(format!("panic: {}", p)),
                }
            }
            "Point" => {
                let id = self.cid(r);
                let n = r["n"].as_u64().unwrap();
                match status_msg(catch(|| node.with_channel_base(&id, |b| b.get_per_commitment_point(n)))) {
                    Ok(p) => Resp::ok(vec![hex::encode(p.serialize())]),
                    Err(m) => Resp::err(m),
                }
            }
            "Secret" => {
                let id = self.cid(r);
                let n = r["n"].as_u64().unwrap();
                match status_msg(catch(|| node.with_channel_base(&id, |b| b.get_per_commitment_secret(n)))) {
                    Ok(s) => {
                        // second value: the point of the released secret (a measurement made with
                        // secp256k1, compared with Point(id, n) by TLC)
                        let p = PublicKey::from_secret_key(&Secp256k1::new(), &s);
                        Resp::ok(vec![hex::encode(s.secret_bytes()), hex::encode(p.serialize())])
                    }
                    Err(m) => Resp::err(m),
                }
            }
            "Provide" => {
                // the counterparty of channel `to` files the secret number n released by channel `from`
                let to = r["to"].as_u64().unwrap();
                let from = r["from"].as_u64().unwrap();
                let n = r["n"].as_u64().unwrap();
                match self.released_secret(from, n) {
                    Err(m) => Resp::err(format!("nosecret: {}", m)),
                    Ok(s) => {
                        // the reply carries the secret the channel released (an observation of it)
                        let v = vec![hex::encode(s.secret_bytes())];
                        let st = self.cstores.entry(to).or_insert_with(CounterpartyCommitmentSecrets::new);
                        match catch(|| st.provide_secret(IDX0 - n, s.secret_bytes())) {
                            Ok(Ok(())) => Resp::ok(v),
                            Ok(Err(())) => Resp { ok: false, v, msg: "inconsistent".into() },
                            Err(p) => Resp { ok: false, v, msg: format!("panic: {}", p) },
                        }
                    }
                }
            }
            "Get" => {
                let to = r["to"].as_u64().unwrap();
                let n = r["n"].as_u64().unwrap();
                match self.cstores.get(&to) {
                    None => Resp::ok(vec![]),
                    Some(st) => match catch(|| st.get_secret(IDX0 - n)) {
                        Ok(Some(s)) => Resp::ok(vec![hex::encode(s)]),
                        Ok(None) => Resp::ok(vec![]),
                        // the store asserts when a number below its maximum is not derivable
                        Err(p) => Resp { ok: true, v: vec![], msg: format!("panic: {}", p) },
                    },
                }
            }
            "NodeKey" => {
                // node-level / wallet keys as the node hands them out (opaque tokens for TLC)
                let which = r["which"].as_str().unwrap_or("").to_string();
                match catch(|| node_key(&node, &which)) {
                    Ok(Ok(v)) => Resp::ok(vec![v]),
                    Ok(Err(m)) => Resp::err(m),
                    Err(p) => Resp::err(format!("panic: {}", p)),
                }
            }
            "Ref" => {
                // the reference term of Keys.tla (HKDF / BIP32 primitives only), evaluated for this
                // node's seed and network
                let term = r["term"][self.g.cfg.style.as_str()].clone();
                let seed = self.g.cfg.seed_bytes();
                let net = self.g.cfg.network();
                match catch(|| eval_term(&term, &seed, net)) {
                    Ok(Ok(Tv::Str(v))) => Resp::ok(vec![v]),
                    Ok(Ok(_)) => Resp::err("term does not yield a token".into()),
                    Ok(Err(m)) => Resp::err(m),
                    Err(p) => Resp::err(format!("panic: {}", p)),
                }
            }
            other => Resp::err(format!("unknown op {}", other)),
        }
    }

    fn store_slots(st: &CounterpartyCommitmentSecrets) -> Vec<(String, u64)> {
        // the slot vector is private: read it from the serde form
        let v = serde_json::to_value(st).expect("serialize store");
        let mut out = vec![];
        for e in v["old_secrets"].as_array().cloned().unwrap_or_default() {
            let bytes: Vec<u8> = match &e[0] {
                Value::Array(a) => a.iter().map(|x| x.as_u64().unwrap() as u8).collect(),
                Value::String(s) => hex::decode(s).expect("hex secret"),
                other => panic!("unexpected secret encoding {}", other),
            };
            out.push((hex::encode(bytes), IDX0 - e[1].as_u64().unwrap()));
        }
        out
    }

    /// (projection, fine key material)
    fn observe(&self) -> (Proj, Value) {
        let mut ch = vec![];
        let mut keymat = vec![];
        for i in 1..=self.g.nids {
            let id0 = id0_of(&self.g.fam, i);
            let al = self.node.get_channel(&perm_of(i)).is_ok();
            match self.node.get_channel(&id0) {
                Err(_) => {
                    ch.push(("none".to_string(), 0, al, "-".to_string()));
                    keymat.push(Value::Null);
                }
                Ok(slot) => {
                    let g = slot.lock().unwrap();
                    let (ph, nh, v, keys) = match &*g {
                        ChannelSlot::Stub(s) => ("stub", 0, "-".to_string(), s.keys.clone()),
                        ChannelSlot::Ready(c) => {
                            let v = match c.setup.channel_value_sat {
                                3_000_000 => "A".to_string(),
                                1_000_000 => "B".to_string(),
                                x => format!("{}", x),
                            };
                            ("ready", c.enforcement_state.next_holder_commit_num, v, c.keys.clone())
                        }
                    };
                    let bp = g.get_channel_basepoints();
                    keymat.push(json!([
                        hex::encode(bp.funding_pubkey.serialize()),
                        hex::encode(bp.revocation_basepoint.0.serialize()),
                        hex::encode(bp.payment_point.serialize()),
                        hex::encode(bp.delayed_payment_basepoint.0.serialize()),
                        hex::encode(bp.htlc_basepoint.0.serialize()),
                        hex::encode(keys.funding_key.secret_bytes()),
                        hex::encode(keys.commitment_seed)
                    ]));
                    ch.push((ph.to_string(), nh, al, v));
                }
            }
        }
        let hwm_raw = self.node.get_state().dbid_high_water_mark;
        // the model orders ids by rank of their dbid within the family
        let mut hwm: i64 = if hwm_raw == 0 { 0 } else { -1 };
        if hwm_raw != 0 {
            let mut dbids: Vec<u64> = (1..=self.g.nids).map(|i| concrete(&self.g.fam, i).1).collect();
            dbids.sort();
            dbids.dedup();
            if let Some(p) = dbids.iter().position(|d| *d == hwm_raw) {
                hwm = p as i64 + 1;
            }
        }
        let mut st = vec![];
        for i in 1..=self.g.nids {
            st.push(self.cstores.get(&i).map(Self::store_slots).unwrap_or_default());
        }
        let proj = Proj { ch, hwm, rs: self.restarted, st };
        // store content without versions (versions count writes and are path dependent)
        let disk: Vec<Value> = dump_store(&self.store.0)
            .iter()
            .map(|(k, _v, x)| json!([k, String::from_utf8_lossy(x).to_string()]))
            .collect();
        let fine = json!({"p": proj_raw_json(&proj), "k": keymat, "d": disk});
        (proj, fine)
    }
}

// ---------------------------------------------------------------------------------------------
// node-level and wallet keys

fn wallet_path(k: u32) -> DerivationPath {
    DerivationPath::from(vec![ChildNumber::from_normal_idx(k).unwrap()])
}

fn node_key(node: &Arc<Node>, which: &str) -> Result<String, String> {
    let st = |e: lightning_signer::util::status::Status| e.message().to_string();
    Ok(match which {
        "nodeid" => format!("pub:{}", hex::encode(node.get_id().serialize())),
        "bolt12" => format!("pub:{}", hex::encode(node.get_bolt12_pubkey().serialize())),
        "persist" => format!("pub:{}", hex::encode(node.get_persistence_pubkey().serialize())),
        "onion" => format!("hex:{}", hex::encode(node.get_onion_reply_secret())),
        "account" => format!("xpub:{}", node.get_account_extended_pubkey()),
        "shutdown" => {
            let sb: ScriptBuf = node.get_ldk_shutdown_scriptpubkey().into_inner();
            format!("script:{}", hex::encode(sb.as_bytes()))
        }
        "hb" => {
            // the key under which the signed heartbeat verifies
            let hb = node.get_heartbeat();
            let pk = node.get_account_extended_pubkey().public_key;
            if hb.verify(&pk, &Secp256k1::new()) {
                format!("hb:{}", hex::encode(pk.serialize()))
            } else {
                "hb:unverified".to_string()
            }
        }
        "wpkh0" => format!("addr:{}", node.get_native_address(&wallet_path(0)).map_err(st)?),
        "wpkh1" => format!("addr:{}", node.get_native_address(&wallet_path(1)).map_err(st)?),
        "wpkh7" => format!("addr:{}", node.get_native_address(&wallet_path(7)).map_err(st)?),
        "tr1" => format!("addr:{}", node.get_taproot_address(&wallet_path(1)).map_err(st)?),
        "sh1" => format!("addr:{}", node.get_wrapped_address(&wallet_path(1)).map_err(st)?),
        other => return Err(format!("unknown node key {}", other)),
    })
}

/// value of a reference term: bytes, an extended private key, or a finished token
enum Tv {
    Bytes(Vec<u8>),
    Key(Xpriv),
    Str(String),
}

/// Evaluates a term of Keys.tla (RefTerm).  Only primitives: HKDF-SHA256, BIP32, address encodings.
fn eval_term(t: &Value, seed: &[u8], net: Network) -> Result<Tv, String> {
    let secp = Secp256k1::new();
    let a = t.as_array().ok_or("term is not a list")?;
    let f = a.get(0).and_then(|x| x.as_str()).ok_or("term without head")?;
    let sub = |i: usize| eval_term(&a[i], seed, net);
    let key = |v: Tv| match v {
        Tv::Key(k) => Ok(k),
        _ => Err("extended key expected".to_string()),
    };
    let bytes = |v: Tv| match v {
        Tv::Bytes(b) => Ok(b),
        _ => Err("bytes expected".to_string()),
    };
    let cpk = |k: &Xpriv| CompressedPublicKey(Xpub::from_priv(&secp, k).public_key);
    Ok(match f {
        "seed" => Tv::Bytes(seed.to_vec()),
        "hkdf" => Tv::Bytes(hkdf_sha256(&bytes(sub(2)?)?, a[1].as_str().unwrap().as_bytes(), &[]).to_vec()),
        "master" => Tv::Key(Xpriv::new_master(net, &bytes(sub(1)?)?).map_err(|e| e.to_string())?),
        "child" => {
            let i = a[1].as_u64().unwrap() as u32;
            let cn = if a[2].as_str() == Some("h") {
                ChildNumber::from_hardened_idx(i).unwrap()
            } else {
                ChildNumber::from_normal_idx(i).unwrap()
            };
            Tv::Key(key(sub(3)?)?.derive_priv(&secp, &[cn]).map_err(|e| e.to_string())?)
        }
        "xpub" => Tv::Str(format!("xpub:{}", Xpub::from_priv(&secp, &key(sub(1)?)?))),
        "pub" => Tv::Str(format!("pub:{}", hex::encode(cpk(&key(sub(1)?)?).0.serialize()))),
        "hbkey" => Tv::Str(format!("hb:{}", hex::encode(cpk(&key(sub(1)?)?).0.serialize()))),
        "pub-of-bytes" => {
            let sk = SecretKey::from_slice(&bytes(sub(1)?)?).map_err(|e| e.to_string())?;
            Tv::Str(format!("pub:{}", hex::encode(PublicKey::from_secret_key(&secp, &sk).serialize())))
        }
        "hex" => Tv::Str(format!("hex:{}", hex::encode(bytes(sub(1)?)?))),
        "p2wpkh" => Tv::Str(format!("addr:{}", Address::p2wpkh(&cpk(&key(sub(1)?)?), net))),
        "p2shwpkh" => Tv::Str(format!("addr:{}", Address::p2shwpkh(&cpk(&key(sub(1)?)?), net))),
        "p2tr" => {
            let pk = UntweakedPublicKey::from(cpk(&key(sub(1)?)?).0);
            Tv::Str(format!("addr:{}", Address::p2tr(&secp, pk, None, net)))
        }
        "p2wpkh-script" => {
            let sb = ScriptBuf::new_p2wpkh(&cpk(&key(sub(1)?)?).wpubkey_hash());
            Tv::Str(format!("script:{}", hex::encode(sb.as_bytes())))
        }
        other => return Err(format!("unknown term head {}", other)),
    })
}

fn proj_raw_json(p: &Proj) -> Value {
    json!({"ch": p.ch.iter().map(|c| json!([c.0, c.1, c.2, c.3])).collect::<Vec<_>>(),
           "hwm": p.hwm, "rs": p.rs,
           "st": p.st.iter().map(|s| s.iter().map(|e| json!([e.0, e.1])).collect::<Vec<_>>()).collect::<Vec<_>>()})
}

// ---------------------------------------------------------------------------------------------
// interning of observed byte strings (pure renaming: equal strings <-> equal indices, 0 = none)

struct Intern {
    map: HashMap<String, u64>,
    list: Vec<String>,
}

impl Intern {
    fn new() -> Intern {
        Intern { map: HashMap::new(), list: vec![] }
    }
    fn get(&mut self, s: &str) -> u64 {
        if let Some(i) = self.map.get(s) {
            return *i;
        }
        self.list.push(s.to_string());
        let i = self.list.len() as u64;
        self.map.insert(s.to_string(), i);
        i
    }
    fn proj(&mut self, p: &Proj) -> Value {
        let st: Vec<Value> = p
            .st
            .iter()
            .map(|s| Value::Array(s.iter().map(|e| json!([self.get(&e.0), e.1])).collect()))
            .collect();
        json!({"ch": p.ch.iter().map(|c| json!([c.0, c.1, c.2, c.3])).collect::<Vec<_>>(),
               "hwm": p.hwm, "rs": p.rs, "st": st})
    }
    fn vals(&mut self, v: &[String]) -> Vec<u64> {
        v.iter().map(|s| self.get(s)).collect()
    }
    fn save(&self, path: &str) {
        std::fs::write(path, serde_json::to_string(&self.list).unwrap()).expect("write vals");
    }
}

// ---------------------------------------------------------------------------------------------
// explore

struct Out {
    ri: usize,
    resp: Resp,
    key: String,
    proj: Proj,
}

fn replay<'a>(g: &'a Graph, reqs: &[Value], path: &[usize]) -> World<'a> {
    let mut w = World::new(g);
    for ri in path {
        w.apply(&reqs[*ri]);
    }
    w
}

fn expand(g: &Graph, reqs: &[Value], obs: &[bool], path: &[usize]) -> Vec<Out> {
    let mut out = vec![];
    // observation requests: one instance, provided they leave the state alone
    let mut w = replay(g, reqs, path);
    let (p0, f0) = w.observe();
    let k0 = digest(&f0);
    let mut batch = vec![];
    for (ri, r) in reqs.iter().enumerate() {
        if obs[ri] {
            batch.push((ri, w.apply(r)));
        }
    }
    let (_, f1) = w.observe();
    let clean = digest(&f1) == k0;
    if clean {
        for (ri, resp) in batch {
            out.push(Out { ri, resp, key: k0.clone(), proj: p0.clone() });
        }
    }
    for (ri, r) in reqs.iter().enumerate() {
        if obs[ri] && clean {
            continue;
        }
        let mut w = replay(g, reqs, path);
        let resp = w.apply(r);
        let (p, f) = w.observe();
        out.push(Out { ri, resp, key: digest(&f), proj: p });
    }
    out.sort_by_key(|o| o.ri);
    out
}

fn explore() {
    let alpha: Value =
        serde_json::from_str(&std::fs::read_to_string(arg("alphabet").expect("--alphabet")).unwrap()).unwrap();
    let out_dir = arg("out").expect("--out");
    std::fs::create_dir_all(&out_dir).unwrap();
    let threads = arg_u64("threads", 16) as usize;
    let maxstates = arg_u64("maxstates", 200_000) as usize;
    let reqs: Vec<Value> = alpha["requests"].as_array().unwrap().clone();
    let obs: Vec<bool> = alpha["obs"].as_array().unwrap().iter().map(|b| b.as_bool().unwrap()).collect();
    let graphs: Vec<Graph> = alpha["graphs"].as_array().unwrap().iter().map(Graph::from_json).collect();

    let mut intern = Intern::new();
    let mut o = NdJson::create(&format!("{}/nodes.ndjson", out_dir));
    let mut total_nodes = 0usize;
    let mut total_edges = 0usize;
    let mut capped = false;
    let mut per_graph = vec![];
    for (gi, g) in graphs.iter().enumerate() {
        let base = total_nodes;
        // (path, key, proj)
        let mut paths: Vec<Vec<usize>> = vec![];
        let mut projs: Vec<Proj> = vec![];
        let mut index: HashMap<String, usize> = HashMap::new();
        let mut rows: Vec<Option<Vec<Value>>> = vec![];
        {
            let w = World::new(g);
            let (p, f) = w.observe();
            index.insert(digest(&f), 0);
            paths.push(vec![]);
            projs.push(p);
            rows.push(None);
        }
        let mut frontier: Vec<usize> = vec![0];
        while !frontier.is_empty() {
            // expand the frontier in parallel, merge in a deterministic order
            let chunk = (frontier.len() + threads - 1) / threads;
            let mut results: Vec<(usize, Vec<Out>)> = vec![];
            std::thread::scope(|sc| {
                let mut hs = vec![];
                for part in frontier.chunks(chunk.max(1)) {
                    let paths = &paths;
                    let reqs = &reqs;
                    let obs = &obs;
                    hs.push(sc.spawn(move || {
                        part.iter().map(|s| (*s, expand(g, reqs, obs, &paths[*s]))).collect::<Vec<_>>()
                    }));
                }
                for h in hs {
                    results.extend(h.join().expect("explorer thread"));
                }
            });
            results.sort_by_key(|r| r.0);
            let mut next = vec![];
            for (s, outs) in results {
                let mut edges = vec![];
                for o in outs {
                    let to = match index.get(&o.key) {
                        Some(t) => *t as i64,
                        None => {
                            if paths.len() >= maxstates {
                                capped = true;
                                -1
                            } else {
                                let t = paths.len();
                                index.insert(o.key.clone(), t);
                                let mut p = paths[s].clone();
                                p.push(o.ri);
                                paths.push(p);
                                projs.push(o.proj.clone());
                                rows.push(None);
                                next.push(t);
                                t as i64
                            }
                        }
                    };
                    let to_g = if to >= 0 { to + base as i64 } else { -1 };
                    edges.push(json!([to_g, o.ri + 1, if o.resp.ok { 1 } else { 0 }, intern.vals(&o.resp.v)]));
                }
                total_edges += edges.len();
                rows[s] = Some(edges);
            }
            frontier = next;
        }
        let cid = intern.vals(&cid_hex(g));
        for (s, e) in rows.into_iter().enumerate() {
            let x = e.is_some();
            o.put(&json!({"id": base + s, "g": g.ci, "gi": gi + 1, "root": s == 0, "x": x, "cid": cid,
                          "pre": intern.proj(&projs[s]), "e": e.unwrap_or_default(),
                          "path": paths[s].iter().map(|r| r + 1).collect::<Vec<_>>()}));
        }
        per_graph.push(json!({"ci": g.ci, "fam": g.fam, "nodes": paths.len()}));
        total_nodes += paths.len();
    }
    o.finish();
    intern.save(&format!("{}/vals.json", out_dir));
    println!("{}", json!({"nodes": total_nodes, "edges": total_edges, "capped": capped,
                          "values": intern.list.len(), "graphs": per_graph}));
}

// ---------------------------------------------------------------------------------------------
// run

fn run_seqs() {
    let seqs = std::fs::read_to_string(arg("seqs").expect("--seqs")).unwrap();
    let out = arg("out").expect("--out");
    let mut intern = Intern::new();
    let mut o = NdJson::create(&out);
    let mut nseq = 0u64;
    for line in seqs.lines() {
        if line.trim().is_empty() {
            continue;
        }
        let v: Value = serde_json::from_str(line).unwrap();
        let g = Graph::from_json(&v);
        let mut w = World::new(&g);
        let reqs = v["reqs"].as_array().cloned().unwrap_or_default();
        let (mut pre, _) = w.observe();
        let cid = intern.vals(&cid_hex(&g));
        for (i, r) in reqs.iter().enumerate() {
            let resp = w.apply(r);
            let (post, _) = w.observe();
            o.put(&json!({"seq": nseq, "step": i, "g": g.ci, "fam": g.fam, "nids": g.nids, "nmax": g.nmax,
                          "cid": cid, "pre": intern.proj(&pre), "req": r,
                          "resp": {"ok": resp.ok, "v": intern.vals(&resp.v), "msg": resp.msg},
                          "post": intern.proj(&post)}));
            pre = post;
        }
        nseq += 1;
    }
    let n = o.lines;
    o.finish();
    intern.save(&format!("{}.vals.json", out));
    println!("{}", json!({"sequences": nseq, "steps": n, "values": intern.list.len()}));
}

fn main() {
    quiet_panics();
    let cmd = std::env::args().nth(1).unwrap_or_default();
    match cmd.as_str() {
        "explore" => explore(),
        "run" => run_seqs(),
        _ => {
            eprintln!("usage: keys explore|run ...");
            std::process::exit(2);
        }
    }
}
