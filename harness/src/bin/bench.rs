use bitcoin::Network;
use lightning_signer::channel::CommitmentType;
use std::time::Instant;
use vls_verif_harness::*;
fn main() {
    let t = Instant::now();
    for _ in 0..20 {
        let fx = NodeFx::new(Network::Regtest, None);
        let id = new_stub(&fx, 1);
        let _cc = ready_channel(&fx, &id, test_setup(3_000_000, 0, CommitmentType::StaticRemoteKey, 2));
    }
    println!("fixture+channel: {:?} each", t.elapsed() / 20);
    let fx = NodeFx::new(Network::Regtest, None);
    let id = new_stub(&fx, 1);
    let _cc = ready_channel(&fx, &id, test_setup(3_000_000, 0, CommitmentType::StaticRemoteKey, 2));
    let t = Instant::now();
    for _ in 0..20 {
        let _ = fx.restart_copy().unwrap();
    }
    println!("restart_copy: {:?} each", t.elapsed() / 20);
}
