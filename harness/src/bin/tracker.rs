//! Chain tracker explorer (legs B and C for C13).
//!
//!   tracker explore --cfg cfg.json --alphabet alphabet.json --out DIR [--threads 8] [--max-states N]
//!        exhaustive breadth-first exploration of the REAL `ChainTracker<ChainMonitor>`:
//!        every request of the (TLC generated) alphabet is applied to every discovered
//!        state inside the height bound; after every refused request the alphabet's probe
//!        requests are applied on the same tracker object ("a later correct request").
//!        One ndjson record per state (edges + probes).  No property logic here.
//!   tracker run --cfg cfg.json --seqs seqs.ndjson --out FILE
//!        replays request sequences on ONE long-lived tracker per sequence (no restore
//!        between steps) and records one line per step.
//!
//! The concrete world: regtest, really mined headers, real txoo filters / SPV proofs /
//! schnorr attestations by up to three oracles, real ChainMonitor listeners.
//! Abstract request fields (all strings unless noted):
//!   op    add | rm
//!   link  tip | fork          header's prev hash = current tip / something else
//!   pow   ok | bad            block hash under / above its own target
//!   db    int                 bits level delta relative to the previous header (target >> db)
//!   t     same | late         header time = previous header's / more than 20 minutes later
//!   c     e | f1 | d1 | f2 | d2   block content: empty / funding tx of channel k / double-spend
//!                             of channel k's funding input
//!   kind  compact | stream | streamOther | streamTrunc | block
//!   pf    good | wrongheight | wrongblock | badsig | omit | badfh
//!   att   [oracle names]      who attests
//!   prev  right | zerofh | wrongfh | wronghdr     (rm) supplied previous headers
//!   need  [outpoint names]    request is applied only where these are forward watches
//!   probe 0|1                 use as "later correct request" probe
//!   pq    0|1                 apply the probes after this request when it is refused
//! Configuration (cfg.json): h0, fh, prewin (remembered headers at the start), below (base-chain
//! blocks underneath them), deep (ChainTracker::set_allow_deep_reorgs), trusted, nl, hmin, hmax.
use std::collections::{HashMap, VecDeque};
use std::sync::{Arc, Condvar, Mutex};

use bitcoin::absolute::LockTime;
use bitcoin::block::{Header as BlockHeader, Version as BlockVersion};
use bitcoin::consensus::serialize;
use bitcoin::hash_types::{FilterHeader, TxMerkleNode};
use bitcoin::hashes::Hash;
use bitcoin::secp256k1::{Keypair, PublicKey, Secp256k1, SecretKey};
use bitcoin::transaction::Version;
use bitcoin::{
    merkle_tree, Amount, Block, BlockHash, CompactTarget, Network, OutPoint, ScriptBuf, Sequence,
    Target, Transaction, TxIn, TxOut, Txid, Witness,
};
use lightning_signer::chain::tracker::{ChainTracker, Error as TrackerError, Headers, ListenSlot};
use lightning_signer::channel::ChannelId;
use lightning_signer::monitor::{ChainMonitor, ChainMonitorBase, State as MonitorState};
use lightning_signer::policy::simple_validator::SimpleValidatorFactory;
use lightning_signer::policy::validator::ValidatorFactory;
use lightning_signer::util::test_utils::DummyCommitmentPointProvider;
use serde_json::{json, Value};
use txoo::filter::BlockSpendFilter;
use txoo::proof::{ProofType, TxoProof};
use txoo::spv::SpvProof;
use txoo::util::sign_attestation;
use txoo::{Attestation, SignedAttestation};
use vls_persist::model::ChainTrackerEntry;
use vls_verif_harness::*;

const NET: Network = Network::Regtest;
const ERRS: [&str; 8] =
    ["", "Orphan", "InvalidChain", "InvalidBlock", "Decode", "TooDeep", "InvalidProof", "panic"];
const BOGUS_FH: [u8; 32] = [0xbb; 32];

type Tracker = ChainTracker<ChainMonitor>;

struct BlockInfo {
    id: String,
    c: String,
    block: Block,
    hash: BlockHash,
    parent: BlockHash,
    /// filter header an honest oracle attests for this block
    fh: FilterHeader,
    lvl: i64,
}

struct Chan {
    funding_tx: Transaction,
    double_spend: Transaction,
    input: OutPoint,
    outpoint: OutPoint,
    id: ChannelId,
}

struct Cfg {
    h0: u32,
    fh_zero: bool,
    prewin: usize,
    trusted: Vec<String>,
    deep: bool,
    nl: usize,
    hmax: u32,
    hmin: u32,
    /// number of additional base-chain blocks below the remembered window (known to the honest
    /// node that supplies the previous headers of a removal, not remembered by the tracker)
    below: usize,
}

impl Cfg {
    fn load(path: &str) -> Cfg {
        let v: Value = serde_json::from_str(&std::fs::read_to_string(path).unwrap()).unwrap();
        Cfg {
            h0: v["h0"].as_u64().unwrap() as u32,
            fh_zero: v["fh"] == "zero",
            prewin: v["prewin"].as_u64().unwrap() as usize,
            trusted: v["trusted"].as_array().unwrap().iter().map(|x| x.as_str().unwrap().to_string()).collect(),
            deep: v["deep"] == true,
            nl: v["nl"].as_u64().unwrap() as usize,
            hmax: v["hmax"].as_u64().unwrap() as u32,
            hmin: v["hmin"].as_u64().unwrap_or(0) as u32,
            below: v["below"].as_u64().unwrap_or(0) as usize,
        }
    }
}

struct World {
    secp: Secp256k1<bitcoin::secp256k1::All>,
    oracles: Vec<(String, Keypair, PublicKey)>,
    rogue: Keypair,
    reg: Mutex<HashMap<BlockHash, Arc<BlockInfo>>>,
    memo: Mutex<HashMap<(BlockHash, String, u32), Arc<BlockInfo>>>,
    base: Vec<Arc<BlockInfo>>,
    unrelated: Arc<BlockInfo>,
    chans: Vec<Chan>,
    max_target: Target,
    node_id: PublicKey,
    vf: Arc<dyn ValidatorFactory>,
    cfg: Cfg,
}

fn shift_target(t: Target, lvl: i64) -> Target {
    // level k = max_target >> k (k < 0: easier than the chain maximum)
    let bytes = t.to_be_bytes();
    let upper = u128::from_be_bytes(bytes[0..16].try_into().unwrap());
    let upper = if lvl >= 0 { upper >> (lvl as u32) } else { upper << ((-lvl) as u32) };
    let mut out = [0u8; 32];
    out[0..16].copy_from_slice(&upper.to_be_bytes());
    Target::from_be_bytes(out)
}

fn coinbase(tag: u32) -> Transaction {
    Transaction {
        version: Version::non_standard(0),
        lock_time: LockTime::ZERO,
        input: vec![TxIn {
            previous_output: OutPoint::null(),
            script_sig: ScriptBuf::from_bytes(tag.to_le_bytes().to_vec()),
            sequence: Sequence::MAX,
            witness: Witness::default(),
        }],
        output: vec![TxOut { value: Amount::from_sat(0), script_pubkey: ScriptBuf::new() }],
    }
}

fn spend(input: OutPoint, script: &[u8], value: u64) -> Transaction {
    Transaction {
        version: Version::TWO,
        lock_time: LockTime::ZERO,
        input: vec![TxIn {
            previous_output: input,
            script_sig: ScriptBuf::new(),
            sequence: Sequence::ZERO,
            witness: Witness::default(),
        }],
        output: vec![TxOut { value: Amount::from_sat(value), script_pubkey: ScriptBuf::from_bytes(script.to_vec()) }],
    }
}

impl World {
    fn new(cfg: Cfg) -> World {
        let secp = Secp256k1::new();
        let mut oracles = vec![];
        for (i, n) in ["o1", "o2", "o3"].iter().enumerate() {
            let sk = SecretKey::from_slice(&[0x21 + i as u8; 32]).unwrap();
            let kp = Keypair::from_secret_key(&secp, &sk);
            oracles.push((n.to_string(), kp, PublicKey::from_secret_key(&secp, &sk)));
        }
        let rogue = Keypair::from_secret_key(&secp, &SecretKey::from_slice(&[0x77; 32]).unwrap());
        let node_id = PublicKey::from_secret_key(&secp, &SecretKey::from_slice(&[0x42; 32]).unwrap());
        let max_target = lightning_signer::chain::tracker::max_target(NET);
        let mut chans = vec![];
        for k in 1..=2u8 {
            let input = OutPoint { txid: Txid::from_slice(&[0x10 + k; 32]).unwrap(), vout: 0 };
            let funding_tx = spend(input, &[0x00, 0x20, k], 1_000_000);
            let double_spend = spend(input, &[0x51, k], 900_000);
            let outpoint = OutPoint { txid: funding_tx.compute_txid(), vout: 0 };
            chans.push(Chan { funding_tx, double_spend, input, outpoint, id: ChannelId::new(&[0x30 + k; 32]) });
        }
        let mut w = World {
            secp,
            oracles,
            rogue,
            reg: Mutex::new(HashMap::new()),
            memo: Mutex::new(HashMap::new()),
            base: vec![],
            unrelated: Arc::new(BlockInfo {
                id: "U".into(),
                c: "b".into(),
                block: Block { header: mine(BlockHash::all_zeros(), TxMerkleNode::all_zeros(), CompactTarget::from_consensus(0x207fffff), 7, false), txdata: vec![] },
                hash: BlockHash::all_zeros(),
                parent: BlockHash::all_zeros(),
                fh: FilterHeader::from_byte_array([0x55; 32]),
                lvl: 0,
            }),
            chans,
            max_target,
            node_id,
            vf: Arc::new(SimpleValidatorFactory::new()),
            cfg,
        };
        // unrelated header U (never part of the chain)
        {
            let u = &w.unrelated;
            let info = Arc::new(BlockInfo {
                id: "U".into(),
                c: "b".into(),
                block: Block { header: u.block.header, txdata: vec![coinbase(99)] },
                hash: u.block.header.block_hash(),
                parent: BlockHash::all_zeros(),
                fh: u.fh,
                lvl: 0,
            });
            w.reg.lock().unwrap().insert(info.hash, info.clone());
            w.unrelated = info;
        }
        // base chain A0 .. An  (An = the tracker's initial tip, n = prewin + 1 so that even the
        // oldest remembered header has a known parent)
        // `below` more blocks underneath: removals that go below the remembered window (deep reorgs)
        let n = w.cfg.prewin + 1 + w.cfg.below;
        let mut prev_hash = BlockHash::from_byte_array([0xa0; 32]);
        let mut prev_fh = FilterHeader::from_byte_array([0xa1; 32]);
        for i in 0..=n {
            let txs = vec![coinbase(1000 + i as u32)];
            let block = build_block(prev_hash, txs, w.lvl_bits(0), 0, false);
            let fh = BlockSpendFilter::from_block(&block).filter_header(&prev_fh);
            let info = Arc::new(BlockInfo {
                id: format!("A{}", i),
                c: "b".into(),
                hash: block.block_hash(),
                parent: prev_hash,
                block,
                fh,
                lvl: 0,
            });
            prev_hash = info.hash;
            prev_fh = fh;
            w.reg.lock().unwrap().insert(info.hash, info.clone());
            w.base.push(info);
        }
        w
    }

    fn lvl_bits(&self, lvl: i64) -> CompactTarget {
        shift_target(self.max_target, lvl).to_compact_lossy()
    }

    fn lvl_of(&self, bits: CompactTarget) -> i64 {
        for l in -2..=12 {
            if self.lvl_bits(l) == bits {
                return l;
            }
        }
        99
    }

    fn lookup(&self, h: &BlockHash) -> Option<Arc<BlockInfo>> {
        self.reg.lock().unwrap().get(h).cloned()
    }

    fn content_txs(&self, c: &str) -> Vec<Transaction> {
        match c {
            "e" | "b" => vec![],
            "f1" => vec![self.chans[0].funding_tx.clone()],
            "d1" => vec![self.chans[0].double_spend.clone()],
            "f2" => vec![self.chans[1].funding_tx.clone()],
            "d2" => vec![self.chans[1].double_spend.clone()],
            _ => panic!("unknown content {}", c),
        }
    }

    /// the block  parent.token  (memoized; deterministic mining)
    fn mk_block(&self, parent: &BlockInfo, c: &str, db: i64, pow_bad: bool, late: bool, salt: u32) -> Arc<BlockInfo> {
        let token = format!(
            "{}{}{}{}",
            c,
            if db == 0 { "".to_string() } else { format!("{:+}", db) },
            if late { "@" } else { "" },
            if pow_bad { "!" } else { "" }
        );
        let key = (parent.hash, token.clone(), salt);
        if let Some(b) = self.memo.lock().unwrap().get(&key) {
            return b.clone();
        }
        let mut txs = vec![coinbase(1)];
        txs.extend(self.content_txs(c));
        let lvl = parent.lvl + db;
        let time = parent.block.header.time + if late { 20 * 60 + 1 } else { 0 } + salt;
        let block = build_block(parent.hash, txs, self.lvl_bits(lvl), time, pow_bad);
        assert_eq!(block.header.validate_pow(block.header.target()).is_err(), pow_bad);
        let fh = BlockSpendFilter::from_block(&block).filter_header(&parent.fh);
        let info = Arc::new(BlockInfo {
            id: format!("{}.{}{}", parent.id, token, if salt == 0 { "".to_string() } else { format!("~{}", salt) }),
            c: c.to_string(),
            hash: block.block_hash(),
            parent: parent.hash,
            block,
            fh,
            lvl,
        });
        self.reg.lock().unwrap().entry(info.hash).or_insert(info.clone());
        self.memo.lock().unwrap().insert(key, info.clone());
        info
    }

    fn oracle(&self, name: &str) -> &(String, Keypair, PublicKey) {
        self.oracles.iter().find(|o| o.0 == name).expect("oracle name")
    }

    fn trusted_keys(&self) -> Vec<PublicKey> {
        self.cfg.trusted.iter().map(|n| self.oracle(n).2).collect()
    }

    fn new_monitor(&self, k: usize, state: Option<MonitorState>, height: u32) -> ChainMonitor {
        let ch = &self.chans[k];
        let base = match state {
            Some(s) => ChainMonitorBase::new_from_persistence(ch.outpoint, s, &ch.id),
            None => {
                let b = ChainMonitorBase::new(ch.outpoint, height, &ch.id);
                b.add_funding_outpoint(&ch.outpoint);
                b.add_funding_inputs(&ch.funding_tx);
                b
            }
        };
        base.as_monitor(Box::new(DummyCommitmentPointProvider {}))
    }

    /// the initial tracker of this configuration
    fn init_tracker(&self) -> Tracker {
        let n = self.base.len() - 1;
        let tipb = &self.base[n];
        let tip_fh = if self.cfg.fh_zero { FilterHeader::all_zeros() } else { tipb.fh };
        let mut t = ChainTracker::new(
            NET,
            self.cfg.h0,
            Headers(tipb.block.header, tip_fh),
            self.node_id,
            self.vf.clone(),
            self.trusted_keys(),
        )
        .expect("tracker");
        t.set_allow_deep_reorgs(self.cfg.deep);
        for i in 0..self.cfg.prewin {
            let b = &self.base[n - 1 - i];
            t.headers.push_back(Headers(b.block.header, b.fh));
        }
        for k in 0..self.cfg.nl {
            let ch = &self.chans[k];
            let m = self.new_monitor(k, None, self.cfg.h0);
            t.add_listener(m, [ch.funding_tx.compute_txid()].into_iter().collect());
            t.add_listener_watches(&ch.outpoint, [ch.input].into_iter().collect());
        }
        t
    }

    fn snap(&self, t: &Tracker) -> Snap {
        Snap {
            headers: t.headers.iter().cloned().collect(),
            tip: t.tip.clone(),
            height: t.height,
            listeners: t.listeners.iter().map(|(k, (l, s))| (*k, l.get_state().clone(), s.clone())).collect(),
        }
    }

    /// a fresh tracker object in the snapshot's state (the way a restart rebuilds it)
    fn restore(&self, s: &Snap) -> Tracker {
        let mut listeners = lightning_signer::prelude::OrderedMap::new();
        for (key, st, slot) in s.listeners.iter() {
            let k = self.chans.iter().position(|c| c.outpoint == *key).expect("channel");
            listeners.insert(*key, (self.new_monitor(k, Some(st.clone()), 0), slot.clone()));
        }
        let mut t = ChainTracker::restore(
            s.headers.iter().cloned().collect(),
            s.tip.clone(),
            s.height,
            NET,
            listeners,
            self.node_id,
            self.vf.clone(),
            self.trusted_keys(),
        );
        t.set_allow_deep_reorgs(self.cfg.deep);
        t
    }

    fn outpoint_name(&self, o: &OutPoint) -> String {
        for (k, ch) in self.chans.iter().enumerate() {
            if *o == ch.input {
                return format!("I{}", k + 1);
            }
            if *o == ch.outpoint {
                return format!("F{}", k + 1);
            }
        }
        format!("?{}", o)
    }

    fn hdr_json(&self, h: &Headers) -> Value {
        let hash = h.0.block_hash();
        let info = self.lookup(&hash);
        let fh = if h.1 == FilterHeader::all_zeros() {
            "zero"
        } else if info.as_ref().map(|i| i.fh == h.1).unwrap_or(false) {
            "ok"
        } else {
            "bad"
        };
        let parent = info.as_ref().and_then(|i| self.lookup(&i.parent)).map(|p| p.id.clone()).unwrap_or("?".into());
        json!({"id": info.as_ref().map(|i| i.id.clone()).unwrap_or(format!("?{}", hash)), "p": parent,
               "c": info.as_ref().map(|i| i.c.clone()).unwrap_or("?".into()),
               "lvl": self.lvl_of(h.0.bits), "fh": fh})
    }

    /// projection onto the variables of Tracker.tla
    fn project(&self, t: &Tracker) -> Value {
        let mut ls = vec![];
        // listeners in channel order (the tracker keeps them ordered by funding outpoint)
        let mut entries: Vec<_> = t.listeners.iter().collect();
        entries.sort_by_key(|(k, _)| self.chans.iter().position(|c| c.outpoint == **k).unwrap_or(99));
        for (_, (l, slot)) in entries.into_iter() {
            let st = serde_json::to_value(&*l.get_state()).unwrap();
            let opt = |v: &Value| v.as_i64().unwrap_or(-1);
            let other = ["mutual_closing_height", "unilateral_closing_height", "closing_outpoints", "closing_swept_height", "our_output_swept_height"]
                .iter()
                .any(|f| !st[*f].is_null());
            let fo = &st["funding_outpoint"];
            let fo_name = if fo.is_null() {
                "-".to_string()
            } else {
                let txt = fo.as_str().map(|x| x.to_string()).unwrap_or(fo.to_string());
                self.chans
                    .iter()
                    .map(|c| c.outpoint)
                    .find(|o| txt == format!("{}", o))
                    .map(|o| self.outpoint_name(&o))
                    .unwrap_or(format!("?{}", txt))
            };
            ls.push(json!({
                "w": slot.watches.iter().map(|o| self.outpoint_name(o)).collect::<Vec<_>>(),
                "s": slot.seen.iter().map(|o| self.outpoint_name(o)).collect::<Vec<_>>(),
                "tw": slot.txid_watches.len(),
                "m": {"h": opt(&st["height"]), "fund": opt(&st["funding_height"]), "ds": opt(&st["funding_double_spent_height"]),
                      "fo": fo_name, "sb": st["saw_block"] == true, "other": other},
            }));
        }
        // anc: the chain BELOW the remembered headers as the honest node knows it (nearest first):
        // the ancestors of the oldest remembered header (of the tip when nothing is remembered).
        // Not tracker state - it is where the "supplied previous headers" of a removal come from.
        let mut anc = vec![];
        let oldest = t.headers.back().unwrap_or(&t.tip);
        let mut cur = self.lookup(&oldest.0.block_hash());
        while let Some(info) = cur {
            cur = self.lookup(&info.parent);
            if let Some(p) = cur.as_ref() {
                anc.push(self.hdr_json(&Headers(p.block.header, p.fh)));
            }
        }
        json!({"h": t.height, "tip": self.hdr_json(&t.tip),
               "win": t.headers.iter().map(|h| self.hdr_json(h)).collect::<Vec<_>>(), "anc": anc, "ls": ls})
    }
}

struct Snap {
    headers: Vec<Headers>,
    tip: Headers,
    height: u32,
    listeners: Vec<(OutPoint, MonitorState, ListenSlot)>,
}

fn mine(prev: BlockHash, merkle_root: TxMerkleNode, bits: CompactTarget, time: u32, want_bad: bool) -> BlockHeader {
    let mut nonce = 0;
    loop {
        let header = BlockHeader { version: BlockVersion::from_consensus(0), prev_blockhash: prev, merkle_root, time, bits, nonce };
        if header.validate_pow(header.target()).is_err() == want_bad {
            return header;
        }
        nonce += 1;
    }
}

fn build_block(prev: BlockHash, txs: Vec<Transaction>, bits: CompactTarget, time: u32, pow_bad: bool) -> Block {
    let txids: Vec<Txid> = txs.iter().map(|tx| tx.compute_txid()).collect();
    let root = merkle_tree::calculate_root(txids.into_iter()).unwrap();
    let header = mine(prev, TxMerkleNode::from_raw_hash(root.into()), bits, time, pow_bad);
    Block { header, txdata: txs }
}

/// component digests of the persistent tracker state: (tip+height, window, slots, monitors)
fn digests(t: &Tracker) -> [String; 4] {
    let e = serde_json::to_value(&ChainTrackerEntry::from(t)).unwrap();
    let mut slots = vec![];
    let mut mons = vec![];
    if let Some(ls) = e["listeners"].as_array() {
        for l in ls {
            slots.push(json!([l[0], l[1][1]]));
            mons.push(json!([l[0], l[1][0]]));
        }
    }
    [
        digest(&json!([e["tip"], e["height"], e["network"]])),
        digest(&e["headers"]),
        digest(&Value::Array(slots)),
        digest(&Value::Array(mons)),
    ]
}

fn full_key(d: &[String; 4]) -> String {
    d.join("")
}

struct Resp {
    ok: u8, // 1 accepted, 0 refused, 2 panic
    err: usize,
    chg: u8,
    msg: String,
}

fn err_index(e: &TrackerError) -> usize {
    match e {
        TrackerError::OrphanBlock(_) => 1,
        TrackerError::InvalidChain => 2,
        TrackerError::InvalidBlock => 3,
        TrackerError::BlockDecodeError => 4,
        TrackerError::ReorgTooDeep => 5,
        TrackerError::InvalidProof => 6,
    }
}

fn strs(v: &Value) -> Vec<String> {
    v.as_array().map(|a| a.iter().map(|x| x.as_str().unwrap_or("").to_string()).collect()).unwrap_or_default()
}

fn guard_ok(w: &World, t: &Tracker, r: &Value) -> bool {
    let need = strs(&r["need"]);
    if need.is_empty() {
        return true;
    }
    let (_, ops) = t.get_all_forward_watches();
    let names: Vec<String> = ops.iter().map(|o| w.outpoint_name(o)).collect();
    need.iter().all(|n| names.contains(n))
}

fn attestations(w: &World, r: &Value, hash: BlockHash, other_hash: BlockHash, height: u32, fh: FilterHeader) -> Vec<(PublicKey, SignedAttestation)> {
    let pf = r["pf"].as_str().unwrap();
    let mut out = vec![];
    for name in strs(&r["att"]) {
        let o = w.oracle(&name);
        let a = Attestation {
            block_hash: if pf == "wrongblock" { other_hash } else { hash },
            block_height: if pf == "wrongheight" { height + 1 } else { height },
            filter_header: if pf == "badfh" { FilterHeader::from_byte_array(BOGUS_FH) } else { fh },
            time: 0,
        };
        let kp = if pf == "badsig" { &w.rogue } else { &o.1 };
        out.push((o.2, sign_attestation(a, kp, &w.secp)));
    }
    out
}

fn make_proof(r: &Value, atts: Vec<(PublicKey, SignedAttestation)>, block: &Block, txids: &[Txid], ops: &[OutPoint]) -> TxoProof {
    let kind = r["kind"].as_str().unwrap();
    let pf = r["pf"].as_str().unwrap();
    let proof = match kind {
        "compact" => {
            let filter = BlockSpendFilter::from_block(block);
            let (spv, _, _) = if pf == "omit" { SpvProof::build(block, &[], &[]) } else { SpvProof::build(block, txids, ops) };
            ProofType::Filter(filter.content, spv)
        }
        "block" => ProofType::Block(block.clone()),
        _ => ProofType::ExternalBlock(),
    };
    TxoProof { attestations: atts, proof }
}

/// stream a block to the tracker the way the front end does; Err = panic text
fn stream(t: &mut Tracker, block: &Block, truncate: bool) -> Result<(), String> {
    let mut bytes = serialize(block);
    if truncate {
        let n = bytes.len();
        bytes.truncate(n - 3);
    }
    let hash = block.block_hash();
    let mut off = 0u32;
    for chunk in bytes.chunks(61) {
        match catch(|| t.block_chunk(hash, off, chunk)) {
            Ok(Ok(())) => {}
            Ok(Err(e)) => return Err(format!("block_chunk error {:?}", e)),
            Err(p) => return Err(p),
        }
        off += chunk.len() as u32;
    }
    Ok(())
}

fn mask(a: &[String; 4], b: &[String; 4]) -> u8 {
    (0..4).fold(0u8, |m, i| if a[i] != b[i] { m | (1 << i) } else { m })
}

/// apply one abstract request to the real tracker
fn exec(w: &World, t: &mut Tracker, r: &Value) -> Resp {
    let kind = r["kind"].as_str().unwrap();
    let tip_info = w.lookup(&t.tip.0.block_hash()).expect("tip is a known block");
    let parent_of_tip = w.lookup(&tip_info.parent).unwrap_or(w.unrelated.clone());
    let result: Result<Result<(), TrackerError>, String>;
    let before;
    if r["op"] == "add" {
        let parent = if r["link"] == "tip" { tip_info.clone() } else { parent_of_tip.clone() };
        let b = w.mk_block(&parent, r["c"].as_str().unwrap(), r["db"].as_i64().unwrap(), r["pow"] == "bad", r["t"] == "late", 0);
        let height = t.height + 1;
        let atts = attestations(w, r, b.hash, parent.hash, height, b.fh);
        let (txids, ops) = t.get_all_forward_watches();
        let proof = make_proof(r, atts, &b.block, &txids, &ops);
        if kind.starts_with("stream") {
            let sb = if kind == "streamOther" { w.mk_block(&parent, r["c"].as_str().unwrap(), r["db"].as_i64().unwrap(), false, r["t"] == "late", 1) } else { b.clone() };
            if let Err(p) = stream(t, &sb.block, kind == "streamTrunc") {
                return Resp { ok: 2, err: 7, chg: 0, msg: p };
            }
        }
        before = digests(t);
        let header = b.block.header;
        result = catch(|| t.add_block(header, proof));
    } else {
        let height = t.height;
        let atts = attestations(w, r, tip_info.hash, parent_of_tip.hash, height, tip_info.fh);
        let (txids, ops) = t.get_all_reverse_watches();
        let proof = make_proof(r, atts, &tip_info.block, &txids, &ops);
        let prev = match r["prev"].as_str().unwrap() {
            "right" => Headers(parent_of_tip.block.header, parent_of_tip.fh),
            "zerofh" => Headers(parent_of_tip.block.header, FilterHeader::all_zeros()),
            "wrongfh" => Headers(parent_of_tip.block.header, FilterHeader::from_byte_array(BOGUS_FH)),
            _ => Headers(w.unrelated.block.header, w.unrelated.fh),
        };
        if kind.starts_with("stream") {
            let sb = if kind == "streamOther" { w.mk_block(&parent_of_tip, &tip_info.c, tip_info.lvl - parent_of_tip.lvl, false, false, 1) } else { tip_info.clone() };
            if let Err(p) = stream(t, &sb.block, kind == "streamTrunc") {
                return Resp { ok: 2, err: 7, chg: 0, msg: p };
            }
        }
        before = digests(t);
        result = catch(|| t.remove_block(proof, prev).map(|_| ()));
    }
    match result {
        Err(p) => Resp { ok: 2, err: 7, chg: 0, msg: p },
        Ok(Ok(())) => Resp { ok: 1, err: 0, chg: mask(&before, &digests(t)), msg: String::new() },
        Ok(Err(e)) => Resp { ok: 0, err: err_index(&e), chg: mask(&before, &digests(t)), msg: format!("{:?}", e) },
    }
}

// ---------------------------------------------------------------------------------------------

struct Shared {
    queue: VecDeque<(u64, Arc<Snap>)>,
    seen: HashMap<String, u64>,
    active: usize,
    states: u64,
    capped: bool,
}

/// id of the state the tracker is in (a new state is queued for expansion); -2 when the state is
/// new and the exploration's state budget is used up
fn intern(shared: &(Mutex<Shared>, Condvar), w: &World, t: &Tracker, max_states: u64) -> i64 {
    let key = full_key(&digests(t));
    let mut g = shared.0.lock().unwrap();
    if let Some(i) = g.seen.get(&key) {
        return *i as i64;
    }
    if g.states >= max_states {
        g.capped = true;
        return -2;
    }
    let i = g.states;
    g.seen.insert(key, i);
    g.states += 1;
    g.queue.push_back((i, Arc::new(w.snap(t))));
    shared.1.notify_one();
    i as i64
}

fn explore() {
    let cfg = Cfg::load(&arg("cfg").unwrap());
    let alphabet: Vec<Value> = serde_json::from_str(&std::fs::read_to_string(arg("alphabet").unwrap()).unwrap()).unwrap();
    let threads = arg_u64("threads", 8) as usize;
    let max_states = arg_u64("max-states", 20_000);
    let out = arg("out").unwrap();
    std::fs::create_dir_all(&out).unwrap();
    let w = Arc::new(World::new(cfg));
    let shared = Arc::new((Mutex::new(Shared { queue: VecDeque::new(), seen: HashMap::new(), active: 0, states: 0, capped: false }), Condvar::new()));
    {
        let t = w.init_tracker();
        intern(&shared, &w, &t, max_states);
        std::fs::write(
            format!("{}/init.json", out),
            serde_json::to_string(&json!({"init": w.project(&t), "max_reorg": Tracker::MAX_REORG_SIZE})).unwrap(),
        )
        .unwrap();
    }
    let alphabet = Arc::new(alphabet);
    let mut handles = vec![];
    for wi in 0..threads {
        let shared = shared.clone();
        let alphabet = alphabet.clone();
        let w = w.clone();
        let out = out.clone();
        handles.push(std::thread::spawn(move || {
            let mut o = NdJson::create(&format!("{}/edges-{}.ndjson", out, wi));
            let mut od = NdJson::create(&format!("{}/details-{}.ndjson", out, wi));
            let (mut nedges, mut nprobes) = (0u64, 0u64);
            loop {
                let item = {
                    let (m, cv) = (&shared.0, &shared.1);
                    let mut g = m.lock().unwrap();
                    loop {
                        if let Some(s) = g.queue.pop_front() {
                            g.active += 1;
                            break Some(s);
                        }
                        if g.active == 0 {
                            cv.notify_all();
                            break None;
                        }
                        g = cv.wait(g).unwrap();
                    }
                };
                let (pre_id, pre) = match item {
                    Some(s) => s,
                    None => break,
                };
                let t0 = w.restore(&pre);
                let apre = w.project(&t0);
                let expand = pre.height < w.cfg.hmax && pre.height >= w.cfg.hmin;
                let mut edges: Vec<Value> = vec![];
                let mut probes: Vec<Value> = vec![];
                if expand {
                    // outcome of every request on this state
                    let mut okreq = vec![false; alphabet.len()];
                    let mut refused = vec![];
                    for (ri, r) in alphabet.iter().enumerate() {
                        if !guard_ok(&w, &t0, r) {
                            continue;
                        }
                        let mut t = w.restore(&pre);
                        let resp = exec(&w, &mut t, r);
                        let to: i64 = if resp.ok == 2 { -1 } else { intern(&shared, &w, &t, max_states) };
                        if resp.ok == 1 {
                            okreq[ri] = true;
                        } else if resp.ok == 0 && r["pq"] != 0 {
                            refused.push(ri);
                        }
                        if resp.ok == 2 || (resp.ok == 0 && resp.chg != 0) {
                            od.put(&json!({"node": pre_id, "ri": ri + 1, "req": r, "msg": resp.msg, "chg": resp.chg,
                                           "post": if resp.ok == 2 { Value::Null } else { w.project(&t) }}));
                        }
                        edges.push(json!([to, ri + 1, resp.ok, resp.err, resp.chg]));
                    }
                    // "a later correct request still succeeds": after every refused request apply,
                    // on the same tracker object, each probe request that is accepted on this state
                    for qi in refused.iter() {
                        for (ri, r) in alphabet.iter().enumerate() {
                            if r["probe"] != 1 || !okreq[ri] {
                                continue;
                            }
                            let mut t = w.restore(&pre);
                            let rq = exec(&w, &mut t, &alphabet[*qi]);
                            assert_eq!(rq.ok, 0, "refused request is deterministic");
                            let resp = exec(&w, &mut t, r);
                            let to: i64 = if resp.ok == 2 { -1 } else { intern(&shared, &w, &t, max_states) };
                            if resp.ok != 1 {
                                od.put(&json!({"node": pre_id, "qi": qi + 1, "ri": ri + 1, "q": alphabet[*qi], "req": r, "msg": resp.msg}));
                            }
                            probes.push(json!([qi + 1, ri + 1, resp.ok, resp.err, to]));
                        }
                    }
                }
                nedges += edges.len() as u64;
                nprobes += probes.len() as u64;
                o.put(&json!({"id": pre_id, "pre": apre, "x": expand, "e": edges, "p": probes}));
                let mut g = shared.0.lock().unwrap();
                g.active -= 1;
                if g.queue.is_empty() && g.active == 0 {
                    shared.1.notify_all();
                }
            }
            o.finish();
            od.finish();
            (nedges, nprobes)
        }));
    }
    let (mut edges, mut probes) = (0, 0);
    for h in handles {
        let (e, p) = h.join().unwrap();
        edges += e;
        probes += p;
    }
    let g = shared.0.lock().unwrap();
    println!("{}", json!({"states": g.states, "edges": edges, "probes": probes, "max_reorg": Tracker::MAX_REORG_SIZE, "capped": g.capped}));
}

/// replay request sequences, each on one long-lived tracker object; one record per step
fn run_seqs() {
    let cfg = Cfg::load(&arg("cfg").unwrap());
    let w = World::new(cfg);
    let seqs = std::fs::read_to_string(arg("seqs").unwrap()).unwrap();
    let mut o = NdJson::create(&arg("out").unwrap());
    let (mut nseq, mut nsteps, mut skipped) = (0u64, 0u64, 0u64);
    for line in seqs.lines() {
        if line.trim().is_empty() {
            continue;
        }
        let reqs: Vec<Value> = serde_json::from_str(line).unwrap();
        let mut t = w.init_tracker();
        let mut step = 0;
        for r in reqs.iter() {
            if !guard_ok(&w, &t, r) {
                skipped += 1;
                continue;
            }
            let pre = w.project(&t);
            let resp = exec(&w, &mut t, r);
            let post = if resp.ok == 2 { Value::Null } else { w.project(&t) };
            o.put(&json!({"seq": nseq, "step": step, "pre": pre, "req": r,
                          "resp": [resp.ok, resp.err, resp.chg], "msg": resp.msg,
                          "post": if resp.ok == 2 { pre.clone() } else { post }}));
            step += 1;
            nsteps += 1;
            if resp.ok == 2 {
                break; // the tracker object is unusable after a panic
            }
        }
        nseq += 1;
    }
    o.finish();
    println!("{}", json!({"sequences": nseq, "steps": nsteps, "skipped": skipped, "max_reorg": Tracker::MAX_REORG_SIZE}));
}

fn main() {
    if std::env::var("VERIF_SHOW_PANICS").is_err() {
        quiet_panics();
    }
    let cmd = std::env::args().nth(1).unwrap_or_default();
    match cmd.as_str() {
        "explore" => explore(),
        "run" => run_seqs(),
        _ => {
            eprintln!("usage: tracker explore|run ...");
            std::process::exit(2);
        }
    }
}
