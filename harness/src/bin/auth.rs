//! C17 harness: authentication tags of externally stored state.
//!
//! Drives the REAL tag code of the repository and records what it did; it contains no property
//! logic (every verdict is TLC's, see spec/Auth.tla, ImplAuth.tla, TraceAuth.tla):
//!   * vls-core  `ExternalPersistHelper::{new_nonce, client_hmac, server_hmac, check_hmac}` and
//!     `compute_shared_hmac`                                     (vls-core/src/persist/mod.rs)
//!   * lightning-storage-server `compute_shared_hmac`, `prepare_value_for_put`,
//!     `process_value_from_get`    (lightning-storage-server/lib/src/util.rs, compiled in by path:
//!     that crate is outside the workspace and needs protoc to build whole; VLS links it with
//!     default-features = false, i.e. without the `crypt` feature, which is how it is built here)
//!
//!   auth explore --cases <ndjson> --maxn N --out <dir>     leg B: every case of the TLC-generated
//!        matrix applied in every reachable session state (state = nonces drawn so far)
//!   auth run  --seqs <ndjson> --out <steps.ndjson>         leg C / replay: request sequences
//!   auth walk --seed S --steps K --out <steps.ndjson>      leg C: seeded random sessions
use std::cell::Cell;

use bitcoin::hashes::sha256::Hash as Sha256;
use bitcoin::hashes::Hash as _;
use lightning::sign::EntropySource;
use lightning_signer::persist::{ExternalPersistHelper, Mutations};
use rand::rngs::StdRng;
use rand::{Rng, SeedableRng};
use serde_json::{json, Value as J};
use vls_verif_harness::*;

/// mirrors lightning_storage_server::model::Value (util.rs refers to it as `crate::Value`)
pub struct Value {
    pub version: i64,
    pub value: Vec<u8>,
}

#[allow(dead_code, unused_imports, unexpected_cfgs)]
mod lss {
    use bitcoin::hashes as bitcoin_hashes;
    include!("/repo/lightning-storage-server/lib/src/util.rs");
}

const SHARED_SECRET: [u8; 32] = [0x5a; 32];
const VALUE_SECRET: [u8; 32] = [0x3c; 32];

/// deterministic entropy: nonce number i = SHA256("verif-auth-nonce" || seed || i)
struct SeqEntropy {
    seed: u64,
    i: Cell<u64>,
}

impl EntropySource for SeqEntropy {
    fn get_secure_random_bytes(&self) -> [u8; 32] {
        let i = self.i.get() + 1;
        self.i.set(i);
        let mut pre = b"verif-auth-nonce".to_vec();
        pre.extend_from_slice(&self.seed.to_be_bytes());
        pre.extend_from_slice(&i.to_be_bytes());
        Sha256::hash(&pre).to_byte_array()
    }
}

/// one signer session: the real helper plus the nonces it handed out
struct Session {
    helper: ExternalPersistHelper,
    entropy: SeqEntropy,
    nonces: Vec<[u8; 32]>,
}

impl Session {
    fn new(seed: u64) -> Session {
        Session {
            helper: ExternalPersistHelper::new(SHARED_SECRET),
            entropy: SeqEntropy { seed, i: Cell::new(0) },
            nonces: vec![],
        }
    }
    fn n(&self) -> usize {
        self.nonces.len()
    }
    fn new_nonce(&mut self) {
        let nonce = self.helper.new_nonce(&self.entropy);
        self.nonces.push(nonce);
    }
    /// nonce number j (0 = the all-zero initial value of the helper)
    fn nonce(&self, j: usize) -> [u8; 32] {
        if j == 0 {
            [0u8; 32]
        } else {
            self.nonces[j - 1]
        }
    }
}

fn bytes(v: &J) -> Vec<u8> {
    v.as_array().map(|a| a.iter().map(|b| b.as_u64().expect("byte") as u8).collect()).unwrap_or_default()
}

struct Rec {
    k: String,
    v: u64,
    x: Vec<u8>,
}

fn recs(v: &J) -> Option<Vec<Rec>> {
    let mut out = vec![];
    for r in v.as_array().cloned().unwrap_or_default() {
        let k = String::from_utf8(bytes(&r["k"])).ok()?;
        let vb = bytes(&r["v"]);
        if vb.len() != 8 {
            return None;
        }
        let mut a = [0u8; 8];
        a.copy_from_slice(&vb);
        out.push(Rec { k, v: u64::from_be_bytes(a), x: bytes(&r["x"]) });
    }
    Some(out)
}

fn muts(l: &[Rec]) -> Mutations {
    Mutations::from_vec(l.iter().map(|r| (r.k.clone(), (r.v, r.x.clone()))).collect())
}

fn kvs(l: &[Rec]) -> Vec<(String, Value)> {
    // the conversion of vls-frontend/src/external_persist/lss.rs (u64 -> i64 by `as`)
    l.iter().map(|r| (r.k.clone(), Value { version: r.v as i64, value: r.x.clone() })).collect()
}

/// context bytes named by a descriptor, resolved in session state `s`; None = not applicable here
fn ctx_bytes(s: &Session, c: &J) -> Option<Vec<u8>> {
    let j = c["j"].as_i64().unwrap_or(0);
    let mut b = match c["t"].as_str().unwrap_or("") {
        "role" => vec![j as u8],
        "zero" => vec![0u8; 32],
        "nonce" => {
            // j = how many nonces back from the current one
            let idx = s.n() as i64 - j;
            if idx < 1 {
                return None;
            }
            s.nonce(idx as usize).to_vec()
        }
        other => panic!("unknown ctx {}", other),
    };
    b.extend(bytes(&c["ext"]));
    Some(b)
}

fn shared_tag(s: &Session, imp: &str, c: &J, l: &[Rec]) -> Option<Vec<u8>> {
    let cb = ctx_bytes(s, c)?;
    let plain_role = c["t"] == "role" && bytes(&c["ext"]).is_empty();
    Some(match imp {
        "core" if plain_role && cb == [1u8] => s.helper.client_hmac(&muts(l)).to_vec(),
        "core" if plain_role && cb == [2u8] => s.helper.server_hmac(&muts(l)).to_vec(),
        "core" => lightning_signer::persist::compute_shared_hmac(&SHARED_SECRET, &cb, &muts(l)).to_vec(),
        "lss" => lss::compute_shared_hmac(&SHARED_SECRET, &cb, &kvs(l)),
        other => panic!("unknown impl {}", other),
    })
}

fn edit_tag(tag: &mut Vec<u8>, ed: &J) {
    let n = ed["n"].as_u64().unwrap_or(0) as usize;
    match ed["t"].as_str().unwrap_or("none") {
        "none" => {}
        "flip" => tag[(n / 8) % 32] ^= 1u8 << (n % 8),
        "trunc" | "short" => tag.truncate(n),
        "ext" => tag.push(n as u8),
        other => panic!("unknown tag edit {}", other),
    }
}

/// Apply one request to the real code (None = not applicable in this state); a panic inside the
/// code under test is data
fn apply(s: &mut Session, r: &J) -> Option<J> {
    match catch(|| apply_inner(s, r)) {
        Ok(x) => x,
        Err(p) => Some(json!({"ok": false, "aux": 0, "panic": p})),
    }
}

fn apply_inner(s: &mut Session, r: &J) -> Option<J> {
    let op = r["op"].as_str().unwrap_or("");
    if op == "NewNonce" {
        s.new_nonce();
        return Some(json!({"ok": true, "aux": 1}));
    }
    let l1 = recs(&r["mk"]["l"])?;
    let l2 = recs(&r["l2"])?;
    let ck = r["ck"].as_str().unwrap_or("core");
    if op == "Open" {
        // seal with the real prepare_value_for_put, present (possibly other key/version/payload and
        // an edited tag) to the real process_value_from_get
        let w = &l1[0];
        let mut sealed = Value { version: w.v as i64, value: w.x.clone() };
        lss::prepare_value_for_put(&VALUE_SECRET, &w.k, &mut sealed);
        let mut tag = sealed.value.split_off(sealed.value.len() - 32);
        edit_tag(&mut tag, &r["ed"]);
        let p = &l2[0];
        let mut blob = if r["ed"]["t"] == "short" { vec![] } else { p.x.clone() };
        blob.extend_from_slice(&tag);
        let mut v = Value { version: p.v as i64, value: blob };
        let res = catch(|| lss::process_value_from_get(&VALUE_SECRET, &p.k, &mut v));
        return Some(match res {
            Ok(Ok(())) => json!({"ok": true, "aux": if v.value == p.x { 1 } else { 0 }}),
            Ok(Err(())) => json!({"ok": false, "aux": 1}),
            Err(p) => json!({"ok": false, "aux": 0, "panic": p}),
        });
    }
    let mut tag = shared_tag(s, r["mk"]["impl"].as_str().unwrap_or("lss"), &r["mk"]["ctx"], &l1)?;
    edit_tag(&mut tag, &r["ed"]);
    let ok = match (op, ck) {
        // the signer checks a read response under the nonce it stored for this request
        ("CheckGet", "core") => s.helper.check_hmac(&muts(&l2), tag),
        // PrivClient::get (driver.rs): `received_hmac != compute_shared_hmac(.., &nonce, &kvs)`
        ("CheckGet", "lss") => tag == lss::compute_shared_hmac(&SHARED_SECRET, &s.nonce(s.n()), &kvs(&l2)),
        // nodefront.rs: `assert_eq!(received_server_hmac, helper.server_hmac(&muts))`
        ("CheckPutAck", "core") => tag == s.helper.server_hmac(&muts(&l2)).to_vec(),
        // PrivClient::put (driver.rs): `received_server_hmac == compute_shared_hmac(.., &[0x02], &kvs)`
        ("CheckPutAck", "lss") => tag == lss::compute_shared_hmac(&SHARED_SECRET, &[0x02], &kvs(&l2)),
        // lssd put handler: `client_hmac != request.hmac` with compute_shared_hmac(.., &[0x01], &kvs)
        ("ServerCheckClient", "lss") => tag == lss::compute_shared_hmac(&SHARED_SECRET, &[0x01], &kvs(&l2)),
        // what a vls-core based verifier of client tags would compute
        ("ServerCheckClient", "core") => tag == s.helper.client_hmac(&muts(&l2)).to_vec(),
        other => panic!("unknown op {:?}", other),
    };
    Some(json!({"ok": ok, "aux": 1}))
}

fn read_ndjson(path: &str) -> Vec<J> {
    std::fs::read_to_string(path)
        .expect("read")
        .lines()
        .filter(|l| !l.trim().is_empty())
        .map(|l| serde_json::from_str(l).expect("json"))
        .collect()
}

/// leg B: breadth-first over the session states reachable by NewNonce (bounded by --maxn); in every
/// state every case of the matrix is applied to a fresh copy of that state's real helper.
fn explore() {
    let cases = read_ndjson(&arg("cases").unwrap());
    let maxn = arg_u64("maxn", 2) as usize;
    let out = arg("out").unwrap();
    std::fs::create_dir_all(&out).unwrap();
    let mut o = NdJson::create(&format!("{}/nodes.ndjson", out));
    let mut od = NdJson::create(&format!("{}/details.ndjson", out));
    let seed = arg_u64("seed", 1);
    let mut edges_total = 0u64;
    let mut accepted = 0u64;
    let mut skipped = 0u64;
    for n in 0..=maxn {
        // the state with n nonces drawn is reached by n NewNonce requests (deterministic entropy)
        let mut s = Session::new(seed);
        for _ in 0..n {
            s.new_nonce();
        }
        let mut edges = vec![];
        for (ci, c) in cases.iter().enumerate() {
            if c["op"] == "NewNonce" {
                if n < maxn {
                    edges.push(json!([n + 1, ci + 1, 1, 1]));
                }
                continue;
            }
            match apply(&mut s, c) {
                None => skipped += 1,
                Some(resp) => {
                    let ok = resp["ok"] == true;
                    if ok {
                        accepted += 1;
                    }
                    if resp.get("panic").is_some() || (ok && od.lines < 40 && c["how"] != "same") {
                        od.put(&json!({"node": n, "ci": ci + 1, "req": c, "resp": resp}));
                    }
                    edges.push(json!([n, ci + 1, if ok { 1 } else { 0 }, resp["aux"]]));
                }
            }
        }
        edges_total += edges.len() as u64;
        o.put(&json!({"id": n, "n": n, "nonce": hex::encode(s.nonce(n)), "x": true, "e": edges}));
    }
    o.finish();
    od.finish();
    println!("{}", json!({"states": maxn + 1, "edges": edges_total, "accepted": accepted, "inapplicable": skipped,
                          "cases": cases.len()}));
}

fn run_one(seq: &[J], nseq: usize, seed: u64, o: &mut NdJson) {
    let mut s = Session::new(seed);
    let mut step = 0;
    for r in seq {
        let pre = s.n();
        if let Some(resp) = apply(&mut s, r) {
            o.put(&json!({"seq": nseq, "step": step, "pre": {"n": pre}, "req": r, "resp": resp, "post": {"n": s.n()}}));
            step += 1;
        }
    }
}

/// leg C / replay: request sequences from a fresh session, one record per step
fn run_seqs() {
    let seqs = read_ndjson(&arg("seqs").unwrap());
    let mut o = NdJson::create(&arg("out").unwrap());
    let seed = arg_u64("seed", 1);
    for (i, q) in seqs.iter().enumerate() {
        run_one(q.as_array().expect("sequence"), i, seed, &mut o);
    }
    let n = o.lines;
    o.finish();
    println!("{}", json!({"sequences": seqs.len(), "steps": n}));
}

// ---------------------------------------------------------------------------------------------
// seeded random sessions (input generation only: the edits below are the structural modifications
// named in the property; whether the real code may accept the result is judged by TLC)

fn rbytes(g: &mut StdRng, max: usize, ascii: bool) -> Vec<u8> {
    let n = g.gen_range(0..=max);
    (0..n).map(|_| if ascii { g.gen_range(0..128u8) } else { g.gen() }).collect()
}

fn rver(g: &mut StdRng) -> Vec<u8> {
    let v: u64 = match g.gen_range(0..8) {
        0 => 0,
        1 => 1,
        2 => u64::MAX,
        3 => i64::MAX as u64,
        4 => 1u64 << 63,
        5 => g.gen_range(0..1000),
        6 => u64::from_be_bytes([g.gen_range(0..128), 0, 0, 0, 0, 0, 0, g.gen_range(0..4)]),
        _ => g.gen(),
    };
    let mut b = v.to_be_bytes().to_vec();
    if g.gen_range(0..6) == 0 {
        // an all-ASCII version lets a key absorb version bytes
        b = (0..8).map(|_| g.gen_range(0..128u8)).collect();
    }
    b
}

fn jrec(k: &[u8], v: &[u8], x: &[u8]) -> J {
    json!({"k": k, "v": v, "x": x})
}

fn rlist(g: &mut StdRng) -> Vec<(Vec<u8>, Vec<u8>, Vec<u8>)> {
    let n = [0, 1, 1, 1, 2, 2, 3][g.gen_range(0..7)];
    (0..n).map(|_| (rbytes(g, 12, true), rver(g), rbytes(g, 40, false))).collect()
}

fn jlist(l: &[(Vec<u8>, Vec<u8>, Vec<u8>)]) -> J {
    J::Array(l.iter().map(|r| jrec(&r.0, &r.1, &r.2)).collect())
}

fn flat(l: &[(Vec<u8>, Vec<u8>, Vec<u8>)]) -> Vec<u8> {
    let mut p = vec![];
    for r in l {
        p.extend(&r.0);
        p.extend(&r.1);
        p.extend(&r.2);
    }
    p
}

/// cut a byte string into `n` (key, 8-byte version, value) records at random boundaries
fn rparse(g: &mut StdRng, p: &[u8], n: usize) -> Option<Vec<(Vec<u8>, Vec<u8>, Vec<u8>)>> {
    if n == 0 {
        return if p.is_empty() { Some(vec![]) } else { None };
    }
    if p.len() < 8 * n {
        return None;
    }
    // record lengths: each >= 8
    let mut cuts: Vec<usize> = (0..n - 1).map(|_| g.gen_range(0..=p.len() - 8 * n)).collect();
    cuts.sort();
    let mut out = vec![];
    let mut start = 0;
    for i in 0..n {
        let end = if i + 1 < n { cuts[i] + 8 * (i + 1) } else { p.len() };
        let seg = &p[start..end];
        let kl = g.gen_range(0..=seg.len() - 8);
        if std::str::from_utf8(&seg[..kl]).is_err() {
            return None;
        }
        out.push((seg[..kl].to_vec(), seg[kl..kl + 8].to_vec(), seg[kl + 8..].to_vec()));
        start = end;
    }
    Some(out)
}

fn redit(g: &mut StdRng, l: &[(Vec<u8>, Vec<u8>, Vec<u8>)]) -> (String, Vec<(Vec<u8>, Vec<u8>, Vec<u8>)>) {
    let mut m = l.to_vec();
    let kind = g.gen_range(0..12);
    if m.is_empty() {
        return if kind < 6 { ("same".into(), m) } else { ("add".into(), vec![(b"a".to_vec(), rver(g), vec![])]) };
    }
    let i = g.gen_range(0..m.len());
    let how = match kind {
        0 | 1 => "same",
        2 => {
            // boundary shift / merge / split: another parse of the same unframed byte string
            let n = [1, 1, 2, 2, 3][g.gen_range(0..5)];
            for _ in 0..8 {
                if let Some(p) = rparse(g, &flat(l), n) {
                    m = p;
                    break;
                }
            }
            "parse"
        }
        3 => {
            if !m[i].2.is_empty() {
                let p = g.gen_range(0..m[i].2.len());
                m[i].2[p] ^= 1 << g.gen_range(0..8);
            }
            "flipx"
        }
        4 => {
            let p = g.gen_range(0..8);
            m[i].1[p] ^= 1 << g.gen_range(0..8);
            "flipv"
        }
        5 => {
            if !m[i].0.is_empty() {
                let p = g.gen_range(0..m[i].0.len());
                m[i].0[p] ^= 1 << g.gen_range(0..7);
            }
            "flipk"
        }
        6 => {
            let j = g.gen_range(0..m.len());
            let (a, b) = (m[i].0.clone(), m[j].0.clone());
            m[i].0 = b;
            m[j].0 = a;
            "swapk"
        }
        7 => {
            let j = g.gen_range(0..m.len());
            let (a, b) = (m[i].1.clone(), m[j].1.clone());
            m[i].1 = b;
            m[j].1 = a;
            "swapv"
        }
        8 => {
            let j = g.gen_range(0..m.len());
            m.swap(i, j);
            "reorder"
        }
        9 => {
            m.remove(i);
            "drop"
        }
        10 => {
            m[i].2.pop();
            "truncx"
        }
        _ => {
            let r = m[i].clone();
            m.insert(i, r);
            "dup"
        }
    };
    (how.to_string(), m)
}

fn walk() {
    let seed = arg_u64("seed", 1);
    let steps = arg_u64("steps", 1000);
    let per = arg_u64("per", 50);
    let mut o = NdJson::create(&arg("out").unwrap());
    let mut g = StdRng::seed_from_u64(seed);
    let mut nseq = 0;
    let none = json!({"t": "none", "n": 0});
    while o.lines < steps {
        let mut seq = vec![];
        for _ in 0..per {
            let pick = g.gen_range(0..20);
            if pick == 0 {
                seq.push(json!({"op": "NewNonce", "mk": {"impl": "core", "ctx": {"t": "role", "j": 1, "ext": []}, "l": []},
                                "ed": none, "ck": "core", "l2": [], "how": "same"}));
                continue;
            }
            let l1 = rlist(&mut g);
            let (how, l2) = redit(&mut g, &l1);
            let ed = match g.gen_range(0..12) {
                0 => json!({"t": "flip", "n": g.gen_range(0..256)}),
                1 => json!({"t": "trunc", "n": g.gen_range(0..32)}),
                2 => json!({"t": "ext", "n": g.gen_range(0..256)}),
                _ => none.clone(),
            };
            if pick < 5 && !l1.is_empty() && !l2.is_empty() {
                seq.push(json!({"op": "Open", "mk": {"impl": "lss", "ctx": {"t": "role", "j": 1, "ext": []}, "l": [jlist(&l1)[0]]},
                                "ed": ed, "ck": "lss", "l2": [jlist(&l2)[0]], "how": how}));
                continue;
            }
            let (op, want) = match g.gen_range(0..3) {
                0 => ("CheckGet", json!({"t": "nonce", "j": 0, "ext": []})),
                1 => ("CheckPutAck", json!({"t": "role", "j": 2, "ext": []})),
                _ => ("ServerCheckClient", json!({"t": "role", "j": 1, "ext": []})),
            };
            let mut how = how;
            let mut l1j = jlist(&l1);
            let ctx = match g.gen_range(0..10) {
                0 => {
                    if how == "same" {
                        how = "ctx".into();
                    }
                    json!({"t": "role", "j": g.gen_range(1..3), "ext": []})
                }
                1 => {
                    if how == "same" {
                        how = "ctx".into();
                    }
                    json!({"t": "nonce", "j": g.gen_range(0..3), "ext": []})
                }
                2 => {
                    if how == "same" {
                        how = "ctx".into();
                    }
                    json!({"t": "zero", "j": 0, "ext": []})
                }
                3 => {
                    // the context absorbs a prefix of the presented list's bytes
                    let p = flat(&l2);
                    let cut = g.gen_range(0..=p.len());
                    let rest = (0..4).find_map(|n| rparse(&mut g, &p[cut..], n));
                    match rest {
                        Some(rl) => {
                            how = "absorb".into();
                            l1j = jlist(&rl);
                            let mut c = want.clone();
                            c["ext"] = json!(p[..cut].to_vec());
                            c
                        }
                        None => want.clone(),
                    }
                }
                _ => want.clone(),
            };
            let mk_impl = if g.gen_range(0..2) == 0 { "core" } else { "lss" };
            let ck = if g.gen_range(0..2) == 0 { "core" } else { "lss" };
            seq.push(json!({"op": op, "mk": {"impl": mk_impl, "ctx": ctx, "l": l1j}, "ed": ed, "ck": ck,
                            "l2": jlist(&l2), "how": how}));
        }
        run_one(&seq, nseq, seed, &mut o);
        nseq += 1;
    }
    let n = o.lines;
    o.finish();
    println!("{}", json!({"sequences": nseq, "steps": n}));
}

fn main() {
    quiet_panics();
    let cmd = std::env::args().nth(1).unwrap_or_default();
    match cmd.as_str() {
        "explore" => explore(),
        "run" => run_seqs(),
        "walk" => walk(),
        _ => {
            eprintln!("usage: auth explore|run|walk ...");
            std::process::exit(2);
        }
    }
}
