//! Protocol-handler level explorer over the cloud-staged (transactional) store.
//!
//! Requests are real protocol messages handled by a real ChannelHandler whose RootHandler was
//! negotiated to protocol version v (4: validate+revoke in one message, point reply carries the
//! secret n-2; 5: separate RevokeCommitmentTx; 6: no secret in the point reply).  Each request
//! runs the way vlsd does it: persister.enter(); handler.handle(msg); muts = persister.prepare();
//! (store muts in the "cloud"); persister.commit().  Recorded per edge: reply, number of pending
//! mutations, what changed, whether a signer restored (a) from the committed local store and
//! (b) from the pre-commit local store plus the prepared mutations (crash between prepare and
//! commit) equals the running signer.
//!
//! Besides the semantic ("2"-suffixed, LDK-style) messages the RAW-transaction messages that stock
//! CLN sends are driven: ValidateCommitmentTx, SignRemoteCommitmentTx, SignMutualCloseTx (channel
//! handler) and SignCommitmentTx (root handler, with its lock_time = 0 mutual-close workaround).
//! They carry the canonical transaction of the named content plus a PSBT whose outputs hold the
//! witness scripts / wallet derivation paths, and go through the wire codec (as_vec -> from_vec)
//! before they reach the handler.
//!
//!   hand explore --alphabet FILE --n 3 --out DIR [--threads 16]
use std::collections::{HashMap, VecDeque};
use std::sync::{Arc, Condvar, Mutex};

use bitcoin::hashes::Hash;
use bitcoin::secp256k1::ecdsa::Signature;
use bitcoin::secp256k1::{PublicKey, SecretKey};
use bitcoin::bip32::{ChildNumber, DerivationPath, Fingerprint};
use bitcoin::{BlockHash, Network, Psbt, ScriptBuf, Transaction};
use lightning_signer::persist::Persist;
use serde_json::{json, Value};

use vls_protocol::model::{Bip32KeyVersion, BitcoinSignature, DisclosedSecret, Htlc, PubKey};
use vls_protocol::msgs::{self, Message, SerBolt};
use vls_protocol::psbt::PsbtWrapper;
use vls_protocol::serde_bolt::{Array, ArrayBE, Octets, WithSize};
use vls_protocol_signer::approver::PositiveApprover;
use vls_protocol_signer::handler::{ChannelHandler, Handler, InitHandler, RootHandler};
use vls_verif_harness::chanlib::*;
use vls_verif_harness::*;

struct H {
    ctx: Ctx,
    handlers: HashMap<u32, ChannelHandler>,
    /// the root handlers the channel handlers were made from (SignCommitmentTx is a root message)
    roots: HashMap<u32, RootHandler>,
}

/// a message as the handler receives it from the wire
fn wire<T: SerBolt>(m: T) -> Message {
    msgs::from_vec(m.as_vec()).expect("harness: message does not survive the wire codec")
}

/// PSBT of an unsigned transaction: output i carries witness script i (if not empty) and wallet
/// derivation path i (if not empty) - what extract_psbt_witscripts / extract_psbt_output_paths read
fn psbt_of(tx: &Transaction, wits: &[Vec<u8>], paths: &[DerivationPath]) -> WithSize<PsbtWrapper> {
    let mut psbt = Psbt::from_unsigned_tx(tx.clone()).expect("harness: unsigned transaction");
    for (i, o) in psbt.outputs.iter_mut().enumerate() {
        if let Some(w) = wits.get(i) {
            if !w.is_empty() {
                o.witness_script = Some(ScriptBuf::from(w.clone()));
            }
        }
        if let Some(p) = paths.get(i) {
            if !p.is_empty() {
                let key = PublicKey::from_slice(&peer_id()).unwrap();
                o.bip32_derivation.insert(key, (Fingerprint::default(), p.clone()));
            }
        }
    }
    WithSize(PsbtWrapper { inner: psbt })
}

fn negotiate(fx: &NodeFx, version: u32) -> (RootHandler, ChannelHandler) {
    let mut init = InitHandler::new(0, fx.node.clone(), Arc::new(PositiveApprover()), version);
    let m = msgs::HsmdInit {
        key_version: Bip32KeyVersion { pubkey_version: 0, privkey_version: 0 },
        chain_params: BlockHash::all_zeros(),
        encryption_key: None,
        dev_privkey: None,
        dev_bip32_seed: None,
        dev_channel_secrets: None,
        dev_channel_secrets_shaseed: None,
        hsm_wire_min_version: 2,
        hsm_wire_max_version: version,
    };
    let _ = init.handle(Message::HsmdInit(m)).expect("HsmdInit");
    let root: RootHandler = init.into();
    let chan = root.for_new_client(1, PubKey(peer_id()), 1);
    (root, chan)
}

impl H {
    fn new(nmax: u64) -> H {
        H::new_opt(nmax, None)
    }

    fn new_opt(nmax: u64, sigs_from: Option<&H>) -> H {
        let fx = NodeFx::new_cloud(Network::Regtest);
        let mut ctx = Ctx::with_fx_opts(fx, "ready", nmax, sigs_from.is_none());
        if let Some(b) = sigs_from {
            for (k, s) in b.ctx.sigs.iter() {
                ctx.sigs.insert(k.clone(), Sigs { commit: s.commit, htlc: s.htlc.clone() });
            }
            ctx.raw = b.ctx.raw.clone();
        }
        let mut handlers = HashMap::new();
        let mut roots = HashMap::new();
        for v in [4u32, 5, 6] {
            let ((r, h), _) = ctx.fx.tx(|| negotiate(&ctx.fx, v));
            handlers.insert(v, h);
            roots.insert(v, r);
        }
        H { ctx, handlers, roots }
    }

    fn rebuild_on(&self, fx: NodeFx) -> H {
        // a restored signer: same channel context, fresh handlers
        let mut handlers = HashMap::new();
        let mut roots = HashMap::new();
        for v in [4u32, 5, 6] {
            let ((r, h), _) = fx.tx(|| negotiate(&fx, v));
            handlers.insert(v, h);
            roots.insert(v, r);
        }
        let mut sigs = HashMap::new();
        for (k, s) in self.ctx.sigs.iter() {
            sigs.insert(k.clone(), Sigs { commit: s.commit, htlc: s.htlc.clone() });
        }
        let cc = self.ctx.cc.as_ref().map(|c| lightning_signer::util::test_utils::TestChannelContext {
            channel_id: c.channel_id.clone(),
            setup: c.setup.clone(),
            counterparty_keys: c.counterparty_keys.clone(),
        });
        H { ctx: Ctx { fx, id: self.ctx.id.clone(), cc, nmax: self.ctx.nmax, sigs, raw: self.ctx.raw.clone() }, handlers, roots }
    }

    /// the canonical closing transaction of content c (the funder = holder pays 1000 sat fee), its
    /// outputs in BIP 69 order, with the wallet derivation path of every output (empty: not ours);
    /// built as chanlib's "SignMutualCloseRaw" builds it.  `lock_time` 0 is what CLN sends.
    fn closing_tx(&self, c: &Content) -> Option<(Transaction, Vec<DerivationPath>)> {
        use bitcoin::{absolute::LockTime, transaction::Version, Amount, Sequence, TxIn, TxOut, Witness};
        let (script, cp_script, path) = self.close_scripts();
        let mut outs = vec![(TxOut { value: Amount::from_sat(c.to_holder - 1000), script_pubkey: script }, path)];
        if c.to_cp > 0 {
            outs.push((TxOut { value: Amount::from_sat(c.to_cp), script_pubkey: cp_script }, DerivationPath::master()));
        }
        outs.sort_by(|a, b| a.0.value.cmp(&b.0.value).then_with(|| a.0.script_pubkey.as_bytes().cmp(b.0.script_pubkey.as_bytes())));
        let outpoint = self.ctx.cc.as_ref()?.setup.funding_outpoint;
        let tx = Transaction {
            version: Version::TWO,
            lock_time: LockTime::ZERO,
            input: vec![TxIn { previous_output: outpoint, script_sig: ScriptBuf::new(), sequence: Sequence::MAX, witness: Witness::new() }],
            output: outs.iter().map(|o| o.0.clone()).collect(),
        };
        Some((tx, outs.into_iter().map(|o| o.1).collect()))
    }

    /// (holder's wallet script at path [1], counterparty's script, the wallet path)
    fn close_scripts(&self) -> (ScriptBuf, ScriptBuf, DerivationPath) {
        use lightning_signer::node::SpendType;
        use lightning_signer::util::test_utils::make_test_funding_wallet_addr;
        let script = make_test_funding_wallet_addr(&self.ctx.fx.node, 1, SpendType::P2wpkh).script_pubkey();
        let cp_script = make_test_funding_wallet_addr(&self.ctx.fx.node, 77, SpendType::P2wpkh).script_pubkey();
        (script, cp_script, vec![ChildNumber::from_normal_idx(1).unwrap()].into())
    }

    /// the canonical COUNTERPARTY commitment transaction number n at per-commitment point `pt` for
    /// content c and its output witness scripts, built with LDK (not with the signer's own builder)
    fn cp_commitment(&self, n: u64, pt: &PublicKey, c: &Content) -> Option<(Transaction, Vec<Vec<u8>>)> {
        use lightning::ln::chan_utils::{CommitmentTransaction, TxCreationKeys};
        use lightning::sign::ChannelSigner;
        use lightning_signer::channel::Channel;
        use lightning_signer::util::test_utils::build_tx_scripts;
        self.ctx
            .fx
            .node
            .with_channel(&self.ctx.id, |chan| {
                let params = chan.make_channel_parameters();
                let directed = params.as_counterparty_broadcastable();
                let hpk = chan.keys.pubkeys().clone();
                let cpk = chan.setup.counterparty_points.clone();
                let keys = TxCreationKeys::derive_new(
                    &bitcoin::secp256k1::Secp256k1::new(),
                    pt,
                    &cpk.delayed_payment_basepoint,
                    &cpk.htlc_basepoint,
                    &hpk.revocation_basepoint,
                    &hpk.htlc_basepoint,
                );
                // the counterparty broadcasts: what the holder received is what the counterparty offers
                let htlcs = Channel::htlcs_info2_to_oic(&c.received, &c.offered);
                let mut with_aux: Vec<_> = htlcs.iter().cloned().map(|h| (h, ())).collect();
                let ctx = CommitmentTransaction::new_with_auxiliary_htlc_data(
                    INITIAL_COMMITMENT_NUMBER - n,
                    c.to_cp,
                    c.to_holder,
                    cpk.funding_pubkey,
                    hpk.funding_pubkey,
                    keys.clone(),
                    0,
                    &mut with_aux,
                    &directed,
                );
                let tx = ctx.trust().built_transaction().transaction.clone();
                let scripts = build_tx_scripts(&keys, c.to_cp, c.to_holder, &htlcs, &directed, &cpk.funding_pubkey, &hpk.funding_pubkey)
                    .expect("scripts");
                Ok((tx, scripts.iter().map(|s| s.as_bytes().to_vec()).collect()))
            })
            .ok()
    }

    /// (protocol version of the handler, root handler?, message)
    fn message(&self, r: &Value) -> Option<(u32, bool, Message)> {
        let op = r["op"].as_str().unwrap();
        let v = r["v"].as_u64().unwrap_or(6) as u32;
        let n = r["n"].as_u64().unwrap_or(0);
        let bsig = |s: &Signature| BitcoinSignature { signature: vls_protocol::model::Signature(s.serialize_compact()), sighash: 1 };
        // the holder's view: received = added by the counterparty (REMOTE), offered = LOCAL
        let htlcs_of = |c: &Content| -> Vec<Htlc> {
            let mut htlcs = vec![];
            for h in &c.received {
                htlcs.push(Htlc { side: Htlc::REMOTE, amount: h.value_sat * 1000, payment_hash: vls_protocol::model::Sha256(h.payment_hash.0), ctlv_expiry: h.cltv_expiry });
            }
            for h in &c.offered {
                htlcs.push(Htlc { side: Htlc::LOCAL, amount: h.value_sat * 1000, payment_hash: vls_protocol::model::Sha256(h.payment_hash.0), ctlv_expiry: h.cltv_expiry });
            }
            htlcs
        };
        let cp_funding = || PubKey(self.ctx.cc.as_ref().map(|cc| cc.setup.counterparty_points.funding_pubkey.serialize()).unwrap_or(peer_id()));
        let mut root = false;
        let m = match op {
            // the RAW message of stock CLN: canonical transaction of (n, c), witness scripts in the PSBT outputs
            "HValidateRaw" => {
                let cname = r["c"].as_str().unwrap();
                let kind = r["sig"].as_str().unwrap();
                let c = content(cname);
                let s = self
                    .ctx
                    .sigs
                    .get(&(n, cname.to_string(), kind.to_string()))
                    .or_else(|| self.ctx.sigs.get(&(0, cname.to_string(), "good".to_string())))?;
                let (tx, wits) = self.ctx.raw.get(&(n, cname.to_string())).or_else(|| self.ctx.raw.get(&(0, cname.to_string())))?;
                wire(msgs::ValidateCommitmentTx {
                    tx: WithSize(tx.clone()),
                    psbt: psbt_of(tx, wits, &[]),
                    htlcs: Array(htlcs_of(&c)),
                    commitment_number: n,
                    feerate: 0,
                    signature: bsig(&s.commit),
                    htlc_signatures: Array(s.htlc.iter().map(|x| bsig(x)).collect()),
                })
            }
            "HSignMutualCloseRaw" => {
                let c = content(r["c"].as_str().unwrap());
                let (tx, opaths) = self.closing_tx(&c)?;
                wire(msgs::SignMutualCloseTx { tx: WithSize(tx.clone()), psbt: psbt_of(&tx, &[], &opaths), remote_funding_key: cp_funding() })
            }
            "HSignMutualClose" => {
                let c = content(r["c"].as_str().unwrap());
                let (script, cp_script, _) = self.close_scripts();
                wire(msgs::SignMutualCloseTx2 {
                    to_local_value_sat: c.to_holder - 1000,
                    to_remote_value_sat: c.to_cp,
                    local_script: Octets(script.to_bytes()),
                    remote_script: Octets(if c.to_cp > 0 { cp_script.to_bytes() } else { vec![] }),
                    local_wallet_path_hint: ArrayBE(vec![1u32]),
                })
            }
            // root-handler message of CLN: lock_time != 0 -> sign_holder_commitment_tx_phase2(n) (everything but
            // the number is ignored; the canonical commitment transaction of (n, "A") is what is sent) ...
            "HSignCommitment" => {
                root = true;
                let (tx, wits) = self.ctx.raw.get(&(n, "A".to_string())).or_else(|| self.ctx.raw.get(&(0, "A".to_string())))?;
                assert!(tx.lock_time.to_consensus_u32() != 0);
                wire(msgs::SignCommitmentTx {
                    peer_id: PubKey(peer_id()),
                    dbid: 1,
                    tx: WithSize(tx.clone()),
                    psbt: psbt_of(tx, wits, &[]),
                    remote_funding_key: cp_funding(),
                    commitment_number: n,
                })
            }
            // ... lock_time = 0 -> the mutual-close workaround: sign_mutual_close_tx
            "HSignCommitmentClose" => {
                root = true;
                let c = content(r["c"].as_str().unwrap());
                let (tx, opaths) = self.closing_tx(&c)?;
                wire(msgs::SignCommitmentTx {
                    peer_id: PubKey(peer_id()),
                    dbid: 1,
                    tx: WithSize(tx.clone()),
                    psbt: psbt_of(&tx, &[], &opaths),
                    remote_funding_key: cp_funding(),
                    commitment_number: 0,
                })
            }
            "HSignCpRaw" => {
                let c = content(r["c"].as_str().unwrap());
                let pt = tree_point(&tree_of(r["t"].as_str().unwrap()), n);
                let (tx, wits) = self.cp_commitment(n, &pt, &c)?;
                // received by the holder = offered by the counterparty: the handler flips the sides itself
                wire(msgs::SignRemoteCommitmentTx {
                    tx: WithSize(tx.clone()),
                    psbt: psbt_of(&tx, &wits, &[]),
                    remote_funding_key: cp_funding(),
                    remote_per_commitment_point: PubKey(pt.serialize()),
                    option_static_remotekey: true,
                    commitment_number: n,
                    htlcs: Array(htlcs_of(&c)),
                    feerate: 0,
                })
            }
            "HValidate" => {
                let cname = r["c"].as_str().unwrap();
                let kind = r["sig"].as_str().unwrap();
                let c = content(cname);
                let s = self
                    .ctx
                    .sigs
                    .get(&(n, cname.to_string(), kind.to_string()))
                    .or_else(|| self.ctx.sigs.get(&(0, cname.to_string(), "good".to_string())))?;
                let htlcs = htlcs_of(&c);
                Message::ValidateCommitmentTx2(msgs::ValidateCommitmentTx2 {
                    commitment_number: n,
                    feerate: 0,
                    to_local_value_sat: c.to_holder,
                    to_remote_value_sat: c.to_cp,
                    htlcs: Array(htlcs),
                    signature: bsig(&s.commit),
                    htlc_signatures: Array(s.htlc.iter().map(|x| bsig(x)).collect()),
                })
            }
            "HRevoke" => Message::RevokeCommitmentTx(msgs::RevokeCommitmentTx { commitment_number: n }),
            "HGetPoint" => Message::GetPerCommitmentPoint(msgs::GetPerCommitmentPoint { commitment_number: n }),
            "HSignHolder" => Message::SignLocalCommitmentTx2(msgs::SignLocalCommitmentTx2 { commitment_number: n }),
            "HSignCp" => {
                let c = content(r["c"].as_str().unwrap());
                let pt = tree_point(&tree_of(r["t"].as_str().unwrap()), n);
                Message::SignRemoteCommitmentTx2(msgs::SignRemoteCommitmentTx2 {
                    remote_per_commitment_point: PubKey(pt.serialize()),
                    commitment_number: n,
                    feerate: 0,
                    to_local_value_sat: c.to_holder,
                    to_remote_value_sat: c.to_cp,
                    htlcs: Array(vec![]),
                })
            }
            "HValidateRevocation" => {
                let m = r["m"].as_u64().unwrap();
                let sk = tree_secret(&tree_of(r["t"].as_str().unwrap()), m);
                Message::ValidateRevocation(msgs::ValidateRevocation { commitment_number: n, commitment_secret: DisclosedSecret(sk.secret_bytes()) })
            }
            _ => return None,
        };
        Some((v, root, m))
    }

    /// vlsd-style handling; returns (resp json, number of prepared mutations, prepared kvvs, local dump before commit)
    fn handle(&self, r: &Value) -> (Value, usize, Vec<(String, u64, Vec<u8>)>, Vec<(String, u64, Vec<u8>)>) {
        let cloud = self.ctx.fx.cloud.as_ref().unwrap();
        let (v, root, msg) = match self.message(r) {
            Some(x) => x,
            None => return (json!({"ok": false, "sec": -1, "pt": -1, "flag": -1, "err": "harness: no message"}), 0, vec![], vec![]),
        };
        cloud.enter().expect("enter");
        let res = if root { catch(|| self.roots[&v].handle(msg)) } else { catch(|| self.handlers[&v].handle(msg)) };
        let muts = cloud.prepare();
        let prepared: Vec<(String, u64, Vec<u8>)> = muts.clone().into_iter().map(|(k, (ver, val))| (k, ver, val)).collect();
        let local_before = dump_store(&cloud.0);
        let nm = muts.len();
        cloud.commit().expect("commit");
        let dsec = |s: &DisclosedSecret| -> i64 { SecretKey::from_slice(&s.0).map(|k| self.ctx.holder_secret_index(&k)).unwrap_or(-2) };
        let dpt = |p: &PubKey| -> i64 { PublicKey::from_slice(&p.0).map(|k| self.ctx.holder_point_index(&k)).unwrap_or(-2) };
        let resp = match res {
            Err(p) => json!({"ok": false, "sec": -1, "pt": -1, "flag": -1, "err": format!("PANIC: {}", p)}),
            Ok(Err(e)) => json!({"ok": false, "sec": -1, "pt": -1, "flag": -1, "err": format!("{:?}", e).chars().take(100).collect::<String>()}),
            Ok(Ok(reply)) => match msgs::from_vec(reply.as_vec()) {
                Ok(Message::ValidateCommitmentTxReply(m)) => json!({"ok": true, "sec": m.old_commitment_secret.as_ref().map(dsec).unwrap_or(-1), "pt": dpt(&m.next_per_commitment_point), "flag": -1, "err": ""}),
                Ok(Message::RevokeCommitmentTxReply(m)) => json!({"ok": true, "sec": dsec(&m.old_commitment_secret), "pt": dpt(&m.next_per_commitment_point), "flag": -1, "err": ""}),
                Ok(Message::GetPerCommitmentPointReply(m)) => json!({"ok": true, "sec": m.secret.as_ref().map(dsec).unwrap_or(-1), "pt": dpt(&m.point), "flag": -1, "err": ""}),
                Ok(_) => json!({"ok": true, "sec": -1, "pt": -1, "flag": -1, "err": ""}),
                Err(e) => json!({"ok": false, "sec": -1, "pt": -1, "flag": -1, "err": format!("undecodable reply {:?}", e)}),
            },
        };
        (resp, nm, prepared, local_before)
    }
}

fn observe(h: &H) -> (Value, Value) {
    let cloud = h.ctx.fx.cloud.as_ref().unwrap();
    let (full, _) = h.ctx.fx.tx(|| full_state_json(&h.ctx.fx));
    let d = dump_store(&cloud.0);
    (full, dump_to_json(&d))
}

fn durable(h: &H) -> Value {
    h.ctx.fx.tx(|| durable_state_json(&h.ctx.fx)).0
}

/// restore from explicit key-version-values and compare the durable view with the running signer
fn restore_diff(h: &H, kvvs: &[(String, u64, Vec<u8>)]) -> (bool, Vec<String>, Option<NodeFx>) {
    match h.ctx.fx.restore_from(kvvs) {
        Err(e) => (false, vec![e], None),
        Ok(fx2) => {
            let a = durable(h);
            let b = fx2.tx(|| durable_state_json(&fx2)).0;
            let mut out = vec![];
            json_diff(&a, &b, "", 5, &mut out);
            (out.is_empty(), out, Some(fx2))
        }
    }
}

fn build(base: &H, path: &[Value]) -> H {
    let mut h = H::new_opt(base.ctx.nmax, Some(base));
    for r in path {
        if r["op"] == "Restart" {
            let d = dump_store(&h.ctx.fx.cloud.as_ref().unwrap().0);
            if let Ok(fx2) = h.ctx.fx.restore_from(&d) {
                h = h.rebuild_on(fx2);
            }
        } else {
            h.handle(r);
        }
    }
    h
}

struct Shared {
    queue: VecDeque<(u64, Vec<Value>)>,
    seen: HashMap<String, u64>,
    active: usize,
    states: u64,
}

fn explore() {
    let alphabet: Vec<Value> = serde_json::from_str(&std::fs::read_to_string(arg("alphabet").unwrap()).unwrap()).unwrap();
    let out = arg("out").unwrap();
    let nmax = arg_u64("n", 3);
    let threads = arg_u64("threads", 16) as usize;
    let max_states = arg_u64("max-states", 100_000);
    std::fs::create_dir_all(&out).unwrap();
    let shared = Arc::new((Mutex::new(Shared { queue: VecDeque::new(), seen: HashMap::new(), active: 0, states: 0 }), Condvar::new()));
    {
        let h = H::new(nmax);
        let (full, _) = observe(&h);
        let mut g = shared.0.lock().unwrap();
        g.seen.insert(digest(&full), 0);
        g.queue.push_back((0, vec![]));
        g.states = 1;
    }
    let alphabet = Arc::new(alphabet);
    let mut handles = vec![];
    for w in 0..threads {
        let shared = shared.clone();
        let alphabet = alphabet.clone();
        let out = out.clone();
        handles.push(std::thread::spawn(move || {
            let base = H::new(nmax);
            let mut o = NdJson::create(&format!("{}/edges-{}.ndjson", out, w));
            let mut od = NdJson::create(&format!("{}/details-{}.ndjson", out, w));
            let mut nedges = 0u64;
            loop {
                let item = {
                    let (m, cv) = (&shared.0, &shared.1);
                    let mut g = m.lock().unwrap();
                    loop {
                        if let Some(s) = g.queue.pop_front() {
                            g.active += 1;
                            break Some(s);
                        }
                        if g.active == 0 {
                            cv.notify_all();
                            break None;
                        }
                        g = cv.wait(g).unwrap();
                    }
                };
                let (pre_id, path) = match item {
                    Some(s) => s,
                    None => break,
                };
                let h0 = build(&base, &path);
                let snap0 = h0.ctx.fx.tx(|| h0.ctx.snap()).0;
                let apre = project(&snap0, nmax);
                let expand = apre["nh"].as_u64().unwrap() <= nmax && apre["nc"].as_u64().unwrap() <= nmax;
                let mut edges = vec![];
                if expand {
                    for (ri, r) in alphabet.iter().enumerate() {
                        let mut h = build(&base, &path);
                        let (full_pre, store_pre) = observe(&h);
                        let (resp, nm, re_commit, re_crash, rdiff) = if r["op"] == "Restart" {
                            let d = dump_store(&h.ctx.fx.cloud.as_ref().unwrap().0);
                            let (eq, diff, fx2) = restore_diff(&h, &d);
                            if let Some(fx2) = fx2 {
                                h = h.rebuild_on(fx2);
                            }
                            (json!({"ok": true, "sec": -1, "pt": -1, "flag": -1, "err": ""}), 0usize, eq, true, diff)
                        } else {
                            let (resp, nm, prepared, local_before) = h.handle(r);
                            // (a) restart from the committed local store
                            let d = dump_store(&h.ctx.fx.cloud.as_ref().unwrap().0);
                            let (eq_a, diff_a, _) = restore_diff(&h, &d);
                            // (b) crash between prepare and commit: local store before commit + cloud mutations
                            let mut merged: HashMap<String, (u64, Vec<u8>)> = local_before.into_iter().map(|(k, v, x)| (k, (v, x))).collect();
                            for (k, v, x) in prepared {
                                merged.insert(k, (v, x));
                            }
                            let mut mv: Vec<(String, u64, Vec<u8>)> = merged.into_iter().map(|(k, (v, x))| (k, v, x)).collect();
                            mv.sort();
                            let (eq_b, diff_b, _) = restore_diff(&h, &mv);
                            let mut diff = diff_a;
                            diff.extend(diff_b.into_iter().map(|x| format!("crash:{}", x)));
                            (resp, nm, eq_a, eq_b, diff)
                        };
                        let (full_post, store_post) = observe(&h);
                        let mut changed = vec![];
                        json_diff(&full_pre, &full_post, "", 4, &mut changed);
                        let mut mask = 0;
                        for c in &changed {
                            mask |= if c.starts_with("channels") { 1 } else if c.starts_with("node") { 2 } else { 8 };
                        }
                        // the last-writer record changes on every committed transaction; other keys must not
                        let strip = |v: &Value| -> Vec<Value> { v.as_array().unwrap().iter().filter(|e| e[0] != "_WRITER").cloned().collect() };
                        if strip(&store_pre) != strip(&store_post) {
                            mask |= 4;
                        }
                        let snap = h.ctx.fx.tx(|| h.ctx.snap()).0;
                        let apost = project(&snap, nmax);
                        let kpost = digest(&full_post);
                        let mut npath = path.clone();
                        npath.push(r.clone());
                        let to: i64 = {
                            let mut g = shared.0.lock().unwrap();
                            match g.seen.get(&kpost) {
                                Some(i) => *i as i64,
                                None if g.states < max_states => {
                                    let i = g.states;
                                    g.seen.insert(kpost, i);
                                    g.states += 1;
                                    g.queue.push_back((i, npath));
                                    shared.1.notify_one();
                                    i as i64
                                }
                                None => -1,
                            }
                        };
                        let ok = resp["ok"] == true;
                        if (!ok && (mask != 0 || nm != 0)) || !re_commit || !re_crash || resp["err"].as_str().unwrap_or("").starts_with("PANIC") {
                            od.put(&json!({"node": pre_id, "ri": ri + 1, "path": path, "req": r, "resp": resp, "muts": nm,
                                           "changed": changed, "restart_diff": rdiff, "pre": apre, "post": apost}));
                        }
                        edges.push(json!([to, ri + 1, if ok { 1 } else { 0 }, resp["sec"], resp["pt"], resp["flag"], mask,
                                          if re_commit { 1 } else { 0 }, nm, if re_crash { 1 } else { 0 }]));
                    }
                }
                nedges += edges.len() as u64;
                o.put(&json!({"id": pre_id, "pre": apre, "x": expand, "r0": 1, "e": edges}));
                let mut g = shared.0.lock().unwrap();
                g.active -= 1;
                if g.queue.is_empty() && g.active == 0 {
                    shared.1.notify_all();
                }
            }
            o.finish();
            od.finish();
            nedges
        }));
    }
    let mut edges = 0;
    for h in handles {
        edges += h.join().unwrap();
    }
    let g = shared.0.lock().unwrap();
    println!("{}", json!({"states": g.states, "edges": edges, "truncated": g.states >= max_states}));
}

fn main() {
    quiet_panics();
    match std::env::args().nth(1).unwrap_or_default().as_str() {
        "explore" => explore(),
        _ => {
            eprintln!("usage: hand explore ...");
            std::process::exit(2);
        }
    }
}
