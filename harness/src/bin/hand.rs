//! Protocol-handler level explorer over the cloud-staged (transactional) store.
//!
//! Requests are real protocol messages handled by a real ChannelHandler whose RootHandler was
//! negotiated to protocol version v (4: validate+revoke in one message, point reply carries the
//! secret n-2; 5: separate RevokeCommitmentTx; 6: no secret in the point reply).  Each request
//! runs the way vlsd does it: persister.enter(); handler.handle(msg); muts = persister.prepare();
//! (store muts in the "cloud"); persister.commit().  Recorded per edge: reply, number of pending
//! mutations, what changed, whether a signer restored (a) from the committed local store and
//! (b) from the pre-commit local store plus the prepared mutations (crash between prepare and
//! commit) equals the running signer.
//!
//!   hand explore --alphabet FILE --n 3 --out DIR [--threads 16]
use std::collections::{HashMap, VecDeque};
use std::sync::{Arc, Condvar, Mutex};

use bitcoin::hashes::Hash;
use bitcoin::secp256k1::ecdsa::Signature;
use bitcoin::secp256k1::{PublicKey, SecretKey};
use bitcoin::{BlockHash, Network};
use lightning_signer::persist::Persist;
use serde_json::{json, Value};

use vls_protocol::model::{Bip32KeyVersion, BitcoinSignature, DisclosedSecret, Htlc, PubKey};
use vls_protocol::msgs::{self, Message};
use vls_protocol::serde_bolt::Array;
use vls_protocol_signer::approver::PositiveApprover;
use vls_protocol_signer::handler::{ChannelHandler, Handler, InitHandler, RootHandler};
use vls_verif_harness::chanlib::*;
use vls_verif_harness::*;

struct H {
    ctx: Ctx,
    handlers: HashMap<u32, ChannelHandler>,
}

fn negotiate(fx: &NodeFx, version: u32) -> ChannelHandler {
    let mut init = InitHandler::new(0, fx.node.clone(), Arc::new(PositiveApprover()), version);
    let m = msgs::HsmdInit {
        key_version: Bip32KeyVersion { pubkey_version: 0, privkey_version: 0 },
        chain_params: BlockHash::all_zeros(),
        encryption_key: None,
        dev_privkey: None,
        dev_bip32_seed: None,
        dev_channel_secrets: None,
        dev_channel_secrets_shaseed: None,
        hsm_wire_min_version: 2,
        hsm_wire_max_version: version,
    };
    let _ = init.handle(Message::HsmdInit(m)).expect("HsmdInit");
    let root: RootHandler = init.into();
    root.for_new_client(1, PubKey(peer_id()), 1)
}

impl H {
    fn new(nmax: u64) -> H {
        H::new_opt(nmax, None)
    }

    fn new_opt(nmax: u64, sigs_from: Option<&H>) -> H {
        let fx = NodeFx::new_cloud(Network::Regtest);
        let mut ctx = Ctx::with_fx_opts(fx, "ready", nmax, sigs_from.is_none());
        if let Some(b) = sigs_from {
            for (k, s) in b.ctx.sigs.iter() {
                ctx.sigs.insert(k.clone(), Sigs { commit: s.commit, htlc: s.htlc.clone() });
            }
        }
        let mut handlers = HashMap::new();
        for v in [4u32, 5, 6] {
            let (h, _) = ctx.fx.tx(|| negotiate(&ctx.fx, v));
            handlers.insert(v, h);
        }
        H { ctx, handlers }
    }

    fn rebuild_on(&self, fx: NodeFx) -> H {
        // a restored signer: same channel context, fresh handlers
        let mut handlers = HashMap::new();
        for v in [4u32, 5, 6] {
            let (h, _) = fx.tx(|| negotiate(&fx, v));
            handlers.insert(v, h);
        }
        let mut sigs = HashMap::new();
        for (k, s) in self.ctx.sigs.iter() {
            sigs.insert(k.clone(), Sigs { commit: s.commit, htlc: s.htlc.clone() });
        }
        let cc = self.ctx.cc.as_ref().map(|c| lightning_signer::util::test_utils::TestChannelContext {
            channel_id: c.channel_id.clone(),
            setup: c.setup.clone(),
            counterparty_keys: c.counterparty_keys.clone(),
        });
        H { ctx: Ctx { fx, id: self.ctx.id.clone(), cc, nmax: self.ctx.nmax, sigs, raw: self.ctx.raw.clone() }, handlers }
    }

    fn message(&self, r: &Value) -> Option<(u32, Message)> {
        let op = r["op"].as_str().unwrap();
        let v = r["v"].as_u64().unwrap_or(6) as u32;
        let n = r["n"].as_u64().unwrap_or(0);
        let bsig = |s: &Signature| BitcoinSignature { signature: vls_protocol::model::Signature(s.serialize_compact()), sighash: 1 };
        let m = match op {
            "HValidate" => {
                let cname = r["c"].as_str().unwrap();
                let kind = r["sig"].as_str().unwrap();
                let c = content(cname);
                let s = self
                    .ctx
                    .sigs
                    .get(&(n, cname.to_string(), kind.to_string()))
                    .or_else(|| self.ctx.sigs.get(&(0, cname.to_string(), "good".to_string())))?;
                let mut htlcs = vec![];
                for h in &c.received {
                    htlcs.push(Htlc { side: Htlc::REMOTE, amount: h.value_sat * 1000, payment_hash: vls_protocol::model::Sha256(h.payment_hash.0), ctlv_expiry: h.cltv_expiry });
                }
                for h in &c.offered {
                    htlcs.push(Htlc { side: Htlc::LOCAL, amount: h.value_sat * 1000, payment_hash: vls_protocol::model::Sha256(h.payment_hash.0), ctlv_expiry: h.cltv_expiry });
                }
                Message::ValidateCommitmentTx2(msgs::ValidateCommitmentTx2 {
                    commitment_number: n,
                    feerate: 0,
                    to_local_value_sat: c.to_holder,
                    to_remote_value_sat: c.to_cp,
                    htlcs: Array(htlcs),
                    signature: bsig(&s.commit),
                    htlc_signatures: Array(s.htlc.iter().map(|x| bsig(x)).collect()),
                })
            }
            "HRevoke" => Message::RevokeCommitmentTx(msgs::RevokeCommitmentTx { commitment_number: n }),
            "HGetPoint" => Message::GetPerCommitmentPoint(msgs::GetPerCommitmentPoint { commitment_number: n }),
            "HSignHolder" => Message::SignLocalCommitmentTx2(msgs::SignLocalCommitmentTx2 { commitment_number: n }),
            "HSignCp" => {
                let c = content(r["c"].as_str().unwrap());
                let pt = tree_point(&tree_of(r["t"].as_str().unwrap()), n);
                Message::SignRemoteCommitmentTx2(msgs::SignRemoteCommitmentTx2 {
                    remote_per_commitment_point: PubKey(pt.serialize()),
                    commitment_number: n,
                    feerate: 0,
                    to_local_value_sat: c.to_holder,
                    to_remote_value_sat: c.to_cp,
                    htlcs: Array(vec![]),
                })
            }
            "HValidateRevocation" => {
                let m = r["m"].as_u64().unwrap();
                let sk = tree_secret(&tree_of(r["t"].as_str().unwrap()), m);
                Message::ValidateRevocation(msgs::ValidateRevocation { commitment_number: n, commitment_secret: DisclosedSecret(sk.secret_bytes()) })
            }
            _ => return None,
        };
        Some((v, m))
    }

    /// vlsd-style handling; returns (resp json, number of prepared mutations, prepared kvvs, local dump before commit)
    fn handle(&self, r: &Value) -> (Value, usize, Vec<(String, u64, Vec<u8>)>, Vec<(String, u64, Vec<u8>)>) {
        let cloud = self.ctx.fx.cloud.as_ref().unwrap();
        let (v, msg) = match self.message(r) {
            Some(x) => x,
            None => return (json!({"ok": false, "sec": -1, "pt": -1, "flag": -1, "err": "harness: no message"}), 0, vec![], vec![]),
        };
        let handler = &self.handlers[&v];
        cloud.enter().expect("enter");
        let res = catch(|| handler.handle(msg));
        let muts = cloud.prepare();
        let prepared: Vec<(String, u64, Vec<u8>)> = muts.clone().into_iter().map(|(k, (ver, val))| (k, ver, val)).collect();
        let local_before = dump_store(&cloud.0);
        let nm = muts.len();
        cloud.commit().expect("commit");
        let dsec = |s: &DisclosedSecret| -> i64 { SecretKey::from_slice(&s.0).map(|k| self.ctx.holder_secret_index(&k)).unwrap_or(-2) };
        let dpt = |p: &PubKey| -> i64 { PublicKey::from_slice(&p.0).map(|k| self.ctx.holder_point_index(&k)).unwrap_or(-2) };
        let resp = match res {
            Err(p) => json!({"ok": false, "sec": -1, "pt": -1, "flag": -1, "err": format!("PANIC: {}", p)}),
            Ok(Err(e)) => json!({"ok": false, "sec": -1, "pt": -1, "flag": -1, "err": format!("{:?}", e).chars().take(100).collect::<String>()}),
            Ok(Ok(reply)) => match msgs::from_vec(reply.as_vec()) {
                Ok(Message::ValidateCommitmentTxReply(m)) => json!({"ok": true, "sec": m.old_commitment_secret.as_ref().map(dsec).unwrap_or(-1), "pt": dpt(&m.next_per_commitment_point), "flag": -1, "err": ""}),
                Ok(Message::RevokeCommitmentTxReply(m)) => json!({"ok": true, "sec": dsec(&m.old_commitment_secret), "pt": dpt(&m.next_per_commitment_point), "flag": -1, "err": ""}),
                Ok(Message::GetPerCommitmentPointReply(m)) => json!({"ok": true, "sec": m.secret.as_ref().map(dsec).unwrap_or(-1), "pt": dpt(&m.point), "flag": -1, "err": ""}),
                Ok(_) => json!({"ok": true, "sec": -1, "pt": -1, "flag": -1, "err": ""}),
                Err(e) => json!({"ok": false, "sec": -1, "pt": -1, "flag": -1, "err": format!("undecodable reply {:?}", e)}),
            },
        };
        (resp, nm, prepared, local_before)
    }
}

fn observe(h: &H) -> (Value, Value) {
    let cloud = h.ctx.fx.cloud.as_ref().unwrap();
    let (full, _) = h.ctx.fx.tx(|| full_state_json(&h.ctx.fx));
    let d = dump_store(&cloud.0);
    (full, dump_to_json(&d))
}

fn durable(h: &H) -> Value {
    h.ctx.fx.tx(|| durable_state_json(&h.ctx.fx)).0
}

/// restore from explicit key-version-values and compare the durable view with the running signer
fn restore_diff(h: &H, kvvs: &[(String, u64, Vec<u8>)]) -> (bool, Vec<String>, Option<NodeFx>) {
    match h.ctx.fx.restore_from(kvvs) {
        Err(e) => (false, vec![e], None),
        Ok(fx2) => {
            let a = durable(h);
            let b = fx2.tx(|| durable_state_json(&fx2)).0;
            let mut out = vec![];
            json_diff(&a, &b, "", 5, &mut out);
            (out.is_empty(), out, Some(fx2))
        }
    }
}

fn build(base: &H, path: &[Value]) -> H {
    let mut h = H::new_opt(base.ctx.nmax, Some(base));
    for r in path {
        if r["op"] == "Restart" {
            let d = dump_store(&h.ctx.fx.cloud.as_ref().unwrap().0);
            if let Ok(fx2) = h.ctx.fx.restore_from(&d) {
                h = h.rebuild_on(fx2);
            }
        } else {
            h.handle(r);
        }
    }
    h
}

struct Shared {
    queue: VecDeque<(u64, Vec<Value>)>,
    seen: HashMap<String, u64>,
    active: usize,
    states: u64,
}

fn explore() {
    let alphabet: Vec<Value> = serde_json::from_str(&std::fs::read_to_string(arg("alphabet").unwrap()).unwrap()).unwrap();
    let out = arg("out").unwrap();
    let nmax = arg_u64("n", 3);
    let threads = arg_u64("threads", 16) as usize;
    let max_states = arg_u64("max-states", 100_000);
    std::fs::create_dir_all(&out).unwrap();
    let shared = Arc::new((Mutex::new(Shared { queue: VecDeque::new(), seen: HashMap::new(), active: 0, states: 0 }), Condvar::new()));
    {
        let h = H::new(nmax);
        let (full, _) = observe(&h);
        let mut g = shared.0.lock().unwrap();
        g.seen.insert(digest(&full), 0);
        g.queue.push_back((0, vec![]));
        g.states = 1;
    }
    let alphabet = Arc::new(alphabet);
    let mut handles = vec![];
    for w in 0..threads {
        let shared = shared.clone();
        let alphabet = alphabet.clone();
        let out = out.clone();
        handles.push(std::thread::spawn(move || {
            let base = H::new(nmax);
            let mut o = NdJson::create(&format!("{}/edges-{}.ndjson", out, w));
            let mut od = NdJson::create(&format!("{}/details-{}.ndjson", out, w));
            let mut nedges = 0u64;
            loop {
                let item = {
                    let (m, cv) = (&shared.0, &shared.1);
                    let mut g = m.lock().unwrap();
                    loop {
                        if let Some(s) = g.queue.pop_front() {
                            g.active += 1;
                            break Some(s);
                        }
                        if g.active == 0 {
                            cv.notify_all();
                            break None;
                        }
                        g = cv.wait(g).unwrap();
                    }
                };
                let (pre_id, path) = match item {
                    Some(s) => s,
                    None => break,
                };
                let h0 = build(&base, &path);
                let snap0 = h0.ctx.fx.tx(|| h0.ctx.snap()).0;
                let apre = project(&snap0, nmax);
                let expand = apre["nh"].as_u64().unwrap() <= nmax && apre["nc"].as_u64().unwrap() <= nmax;
                let mut edges = vec![];
                if expand {
                    for (ri, r) in alphabet.iter().enumerate() {
                        let mut h = build(&base, &path);
                        let (full_pre, store_pre) = observe(&h);
                        let (resp, nm, re_commit, re_crash, rdiff) = if r["op"] == "Restart" {
                            let d = dump_store(&h.ctx.fx.cloud.as_ref().unwrap().0);
                            let (eq, diff, fx2) = restore_diff(&h, &d);
                            if let Some(fx2) = fx2 {
                                h = h.rebuild_on(fx2);
                            }
                            (json!({"ok": true, "sec": -1, "pt": -1, "flag": -1, "err": ""}), 0usize, eq, true, diff)
                        } else {
                            let (resp, nm, prepared, local_before) = h.handle(r);
                            // (a) restart from the committed local store
                            let d = dump_store(&h.ctx.fx.cloud.as_ref().unwrap().0);
                            let (eq_a, diff_a, _) = restore_diff(&h, &d);
                            // (b) crash between prepare and commit: local store before commit + cloud mutations
                            let mut merged: HashMap<String, (u64, Vec<u8>)> = local_before.into_iter().map(|(k, v, x)| (k, (v, x))).collect();
                            for (k, v, x) in prepared {
                                merged.insert(k, (v, x));
                            }
                            let mut mv: Vec<(String, u64, Vec<u8>)> = merged.into_iter().map(|(k, (v, x))| (k, v, x)).collect();
                            mv.sort();
                            let (eq_b, diff_b, _) = restore_diff(&h, &mv);
                            let mut diff = diff_a;
                            diff.extend(diff_b.into_iter().map(|x| format!("crash:{}", x)));
                            (resp, nm, eq_a, eq_b, diff)
                        };
                        let (full_post, store_post) = observe(&h);
                        let mut changed = vec![];
                        json_diff(&full_pre, &full_post, "", 4, &mut changed);
                        let mut mask = 0;
                        for c in &changed {
                            mask |= if c.starts_with("channels") { 1 } else if c.starts_with("node") { 2 } else { 8 };
                        }
                        // the last-writer record changes on every committed transaction; other keys must not
                        let strip = |v: &Value| -> Vec<Value> { v.as_array().unwrap().iter().filter(|e| e[0] != "_WRITER").cloned().collect() };
                        if strip(&store_pre) != strip(&store_post) {
                            mask |= 4;
                        }
                        let snap = h.ctx.fx.tx(|| h.ctx.snap()).0;
                        let apost = project(&snap, nmax);
                        let kpost = digest(&full_post);
                        let mut npath = path.clone();
                        npath.push(r.clone());
                        let to: i64 = {
                            let mut g = shared.0.lock().unwrap();
                            match g.seen.get(&kpost) {
                                Some(i) => *i as i64,
                                None if g.states < max_states => {
                                    let i = g.states;
                                    g.seen.insert(kpost, i);
                                    g.states += 1;
                                    g.queue.push_back((i, npath));
                                    shared.1.notify_one();
                                    i as i64
                                }
                                None => -1,
                            }
                        };
                        let ok = resp["ok"] == true;
                        if (!ok && (mask != 0 || nm != 0)) || !re_commit || !re_crash || resp["err"].as_str().unwrap_or("").starts_with("PANIC") {
                            od.put(&json!({"node": pre_id, "ri": ri + 1, "path": path, "req": r, "resp": resp, "muts": nm,
                                           "changed": changed, "restart_diff": rdiff, "pre": apre, "post": apost}));
                        }
                        edges.push(json!([to, ri + 1, if ok { 1 } else { 0 }, resp["sec"], resp["pt"], resp["flag"], mask,
                                          if re_commit { 1 } else { 0 }, nm, if re_crash { 1 } else { 0 }]));
                    }
                }
                nedges += edges.len() as u64;
                o.put(&json!({"id": pre_id, "pre": apre, "x": expand, "r0": 1, "e": edges}));
                let mut g = shared.0.lock().unwrap();
                g.active -= 1;
                if g.queue.is_empty() && g.active == 0 {
                    shared.1.notify_all();
                }
            }
            o.finish();
            od.finish();
            nedges
        }));
    }
    let mut edges = 0;
    for h in handles {
        edges += h.join().unwrap();
    }
    let g = shared.0.lock().unwrap();
    println!("{}", json!({"states": g.states, "edges": edges, "truncated": g.states >= max_states}));
}

fn main() {
    quiet_panics();
    match std::env::args().nth(1).unwrap_or_default().as_str() {
        "explore" => explore(),
        _ => {
            eprintln!("usage: hand explore ...");
            std::process::exit(2);
        }
    }
}
