//! Lock protocol extraction and schedule replay for C20 (needs the `vls_verif` traced mutex).
//!
//!   locks record --out programs.json
//!        runs every request kind sequentially on a real node and records its lock program
//!        (sequence of acquire/release of named lock instances), as the code really does it.
//!   locks confirm --a KIND --pa K --b KIND --pb K
//!        runs the two request kinds on two real threads; thread A is held before its K-th
//!        acquisition until thread B stands before its K'-th one, then both continue.  Prints
//!        {"deadlock": true|false, ...}: true when neither thread finishes (watchdog).
//!   locks conc --pairs FILE --out FILE
//!        concurrent execution of pairs of channel requests under controller-imposed schedules;
//!        records replies and final states (linearizability leg).
use std::collections::HashMap;
use std::sync::atomic::{AtomicBool, Ordering};
use std::sync::{Arc, Mutex as StdMutex};
use std::time::{Duration, Instant};

use bitcoin::bip32::DerivationPath;
use bitcoin::hashes::Hash;
use bitcoin::secp256k1::PublicKey;
use bitcoin::Network;
use lightning::types::payment::PaymentHash;
use lightning_signer::channel::{ChannelId, CommitmentType};
use lightning_signer::node::{NodeMonitor, SpendType};
use lightning_signer::util::test_utils::{
    channel_commitment, counterparty_sign_holder_commitment, TestChannelContext,
    TestFundingTxContext,
};
use lightning_signer::verif_sync::set_lock_tracer;
use serde_json::{json, Value};
use vls_verif_harness::*;

use vls_verif_harness::sched::{Ev, Tracer, NACQ, TID};

fn short_class(c: &str) -> String {
    // the lock class is the payload type: keep the last path segments of the outer type
    let c = c.replace("lightning_signer::", "").replace("alloc::", "").replace("std::", "");
    if c.contains("BTreeMap") && c.contains("ChannelSlot") {
        "ChannelMap".into()
    } else if c.contains("ChannelSlot") {
        "Slot".into()
    } else if c.contains("NodeState") {
        "NodeState".into()
    } else if c.contains("ChainTracker") {
        "Tracker".into()
    } else if c.contains("ValidatorFactory") {
        "VFactory".into()
    } else if c.contains("BTreeMap<") && c.contains("String") {
        "Store".into()
    } else if c.contains("Duration") {
        "Clock".into()
    } else {
        c.split("::").last().unwrap_or(&c).trim_end_matches('>').to_string()
    }
}

struct World {
    fx: NodeFx,
    ch1: TestChannelContext,
    ch2: TestChannelContext,
    ch3: ChannelId,
    names: HashMap<usize, String>,
}

const V: u64 = 3_000_000;

fn validate_and_sigs(
    fx: &NodeFx,
    cc: &TestChannelContext,
    n: u64,
    to_h: u64,
    to_c: u64,
) -> (bitcoin::secp256k1::ecdsa::Signature, Vec<bitcoin::secp256k1::ecdsa::Signature>) {
    let nctx = fx.node_ctx();
    let mut t = channel_commitment(&nctx, cc, n, 0, to_h, to_c, vec![], vec![]);
    counterparty_sign_holder_commitment(&nctx, cc, &mut t)
}

const ORACLE_SECRET: [u8; 32] = [2u8; 32];

fn spend_tx(prev: bitcoin::OutPoint, tag: u8) -> bitcoin::Transaction {
    use bitcoin::{absolute::LockTime, transaction::Version, Amount, ScriptBuf, Sequence, Transaction, TxIn, TxOut, Witness};
    Transaction {
        version: Version::TWO,
        lock_time: LockTime::ZERO,
        input: vec![TxIn { previous_output: prev, script_sig: ScriptBuf::new(), sequence: Sequence(0xFFFF_FFFD), witness: Witness::default() }],
        output: vec![TxOut { value: Amount::from_sat(V), script_pubkey: ScriptBuf::from_bytes(vec![0x51, 0x01, tag]) }],
    }
}

/// connect a block with the given transactions through the node's tracker, streamed (block_chunk + add_block)
fn connect_block(fx: &NodeFx, txs: Vec<bitcoin::Transaction>) -> Result<(), String> {
    use bitcoin::key::Keypair;
    use bitcoin::secp256k1::{Secp256k1, SecretKey};
    use bitcoin::{absolute::LockTime, transaction::Version, Amount, OutPoint, ScriptBuf, Sequence, Transaction, TxIn, TxOut, Witness};
    use lightning_signer::util::test_utils::make_block;
    use txoo::filter::BlockSpendFilter;
    use txoo::proof::{ProofType, TxoProof};
    use txoo::util::sign_attestation;
    use txoo::Attestation;
    let secp = Secp256k1::new();
    let sk = SecretKey::from_slice(&ORACLE_SECRET).unwrap();
    let keypair = Keypair::from_secret_key(&secp, &sk);
    let oracle = PublicKey::from_secret_key(&secp, &sk);
    let (prev, height) = {
        let t = fx.node.get_tracker();
        (t.tip.clone(), t.height + 1)
    };
    let coinbase = Transaction {
        version: Version::TWO,
        lock_time: LockTime::ZERO,
        input: vec![TxIn {
            previous_output: OutPoint::null(),
            script_sig: ScriptBuf::from_bytes(vec![0x03, height as u8, (height >> 8) as u8, 0]),
            sequence: Sequence::MAX,
            witness: Witness::default(),
        }],
        output: vec![TxOut { value: Amount::from_sat(50), script_pubkey: ScriptBuf::from_bytes(vec![0x51, 0x01, 200]) }],
    };
    let mut btx = vec![coinbase];
    btx.extend(txs);
    let block = make_block(prev.0, btx);
    let filter = BlockSpendFilter::from_block(&block);
    let att = Attestation { block_hash: block.block_hash(), block_height: height, filter_header: filter.filter_header(&prev.1), time: 0 };
    let atts = vec![(oracle, sign_attestation(att, &keypair, &secp))];
    let bytes = bitcoin::consensus::serialize(&block);
    let hash = block.block_hash();
    let mut tracker = fx.node.get_tracker();
    let mut off = 0usize;
    for chunk in bytes.chunks(173) {
        tracker.block_chunk(hash, off as u32, chunk).map_err(|e| format!("{:?}", e))?;
        off += chunk.len();
    }
    let proof = TxoProof { attestations: atts, proof: ProofType::ExternalBlock() };
    tracker.add_block(block.header, proof).map_err(|e| format!("{:?}", e))?;
    fx.node.get_persister().update_tracker(&fx.node.get_id(), &tracker).map_err(|e| format!("{:?}", e))?;
    Ok(())
}

fn world() -> World {
    use bitcoin::secp256k1::{Secp256k1, SecretKey};
    let fx = NodeFx::new(Network::Regtest, None);
    let oracle = PublicKey::from_secret_key(&Secp256k1::new(), &SecretKey::from_slice(&ORACLE_SECRET).unwrap());
    fx.node.get_tracker().trusted_oracle_pubkeys = vec![oracle];
    let id1 = new_stub(&fx, 1);
    let id2 = new_stub(&fx, 2);
    let ch3 = new_stub(&fx, 3);
    // real funding transactions, so that blocks can confirm and spend the funding outputs
    let fund = |i: u8| spend_tx(bitcoin::OutPoint { txid: bitcoin::Txid::from_slice(&[0x30 + i; 32]).unwrap(), vout: 0 }, i);
    let (f1, f2) = (fund(1), fund(2));
    let mut s1 = test_setup(V, 100_000_000, CommitmentType::StaticRemoteKey, 2);
    s1.funding_outpoint = bitcoin::OutPoint { txid: f1.compute_txid(), vout: 0 };
    let mut s2 = test_setup(V, 100_000_000, CommitmentType::StaticRemoteKey, 3);
    s2.funding_outpoint = bitcoin::OutPoint { txid: f2.compute_txid(), vout: 0 };
    let ch1 = ready_channel(&fx, &id1, s1);
    let ch2 = ready_channel(&fx, &id2, s2);
    for cc in [&ch1, &ch2] {
        let (cs, hs) = validate_and_sigs(&fx, cc, 0, 2_999_000, 0);
        fx.node
            .with_channel(&cc.channel_id, |c| {
                c.validate_holder_commitment_tx_phase2(0, 0, 2_999_000, 0, vec![], vec![], &cs, &hs)?;
                c.activate_initial_commitment()?;
                c.sign_counterparty_commitment_tx_phase2(&tree_point(&TREE_A, 0), 0, 0, 2_999_000, 0, vec![], vec![])?;
                Ok(())
            })
            .expect("bring channel to commitment 1");
    }
    connect_block(&fx, vec![f1, f2]).expect("confirm the funding transactions");
    // name the lock instances that matter
    let mut names = HashMap::new();
    for (i, id) in [&id1, &id2, &ch3].iter().enumerate() {
        let arc = fx.node.get_channel(id).unwrap();
        names.insert(&*arc as *const _ as *const () as usize, format!("Slot{}", i + 1));
    }
    // ... and each channel's chain monitor state (found by tracing one access)
    for (i, id) in [&id1, &id2].iter().enumerate() {
        let tr = Arc::new(Tracer::new(1));
        set_lock_tracer(Some(tr.clone()));
        TID.with(|t| t.set(0));
        fx.node.with_channel(id, |c| Ok(c.monitor.as_chain_state())).unwrap();
        TID.with(|t| t.set(usize::MAX));
        set_lock_tracer(None);
        let evs = tr.events.lock().unwrap().clone();
        let ev = evs.iter().find(|e| e.class.contains("monitor::State")).expect("monitor state lock seen");
        names.insert(ev.addr, format!("MonState{}", i + 1));
    }
    World { fx, ch1, ch2, ch3, names }
}

fn current_invoice(x: u8, amt: u64) -> lightning_signer::invoice::Invoice {
    use bitcoin::hashes::sha256::Hash as Sha256Hash;
    use lightning::types::payment::{PaymentPreimage, PaymentSecret};
    use lightning_signer::lightning_invoice::{Currency, InvoiceBuilder};
    let payment_hash = Sha256Hash::hash(&PaymentPreimage([x; 32]).0);
    let private_key = bitcoin::secp256k1::SecretKey::from_slice(&[42; 32]).unwrap();
    lightning_signer::invoice::Invoice::Bolt11(
        InvoiceBuilder::new(Currency::Regtest)
            .description("test".into())
            .payment_hash(payment_hash)
            .payment_secret(PaymentSecret([x; 32]))
            .duration_since_epoch(Duration::from_secs(NOW_SECS - 10))
            .min_final_cltv_expiry_delta(144)
            .amount_milli_satoshis(amt)
            .build_signed(|hash| bitcoin::secp256k1::Secp256k1::new().sign_ecdsa_recoverable(hash, &private_key))
            .unwrap(),
    )
}

fn sweep_tx(w: &World, sequence: u32) -> (bitcoin::Transaction, DerivationPath) {
    use bitcoin::{absolute::LockTime, transaction::Version, Amount, OutPoint, ScriptBuf, Sequence, Transaction, TxIn, TxOut, Txid, Witness};
    use lightning_signer::util::test_utils::make_test_funding_wallet_addr;
    let script = make_test_funding_wallet_addr(&w.fx.node, 1, SpendType::P2wpkh).script_pubkey();
    let path: DerivationPath = vec![bitcoin::bip32::ChildNumber::from_normal_idx(1).unwrap()].into();
    let tx = Transaction {
        version: Version(2),
        lock_time: LockTime::ZERO,
        input: vec![TxIn {
            previous_output: OutPoint { txid: Txid::from_slice(&[0x11; 32]).unwrap(), vout: 0 },
            script_sig: ScriptBuf::new(),
            sequence: Sequence(sequence),
            witness: Witness::default(),
        }],
        output: vec![TxOut { value: Amount::from_sat(99_000), script_pubkey: script }],
    };
    (tx, path)
}

fn unknown_id() -> ChannelId {
    ChannelId::new_from_peer_id_and_oid(&peer_id(), 77)
}

type Op = (&'static str, Box<dyn Fn(&World) + Send + Sync>, Box<dyn Fn(&World) -> Value + Send + Sync>);

fn st(r: Result<Value, lightning_signer::util::status::Status>) -> Value {
    match r {
        Ok(v) => json!({"ok": true, "v": v}),
        Err(e) => json!({"ok": false, "err": format!("{:?}", e.code())}),
    }
}

fn ops() -> Vec<Op> {
    let none = || -> Box<dyn Fn(&World) + Send + Sync> { Box::new(|_w| {}) };
    let chan_ops = |ch: u8| -> Vec<Op> {
        let pick = move |w: &World| -> TestChannelContext {
            let c = if ch == 1 { &w.ch1 } else { &w.ch2 };
            TestChannelContext { channel_id: c.channel_id.clone(), setup: c.setup.clone(), counterparty_keys: c.counterparty_keys.clone() }
        };
        let nm = |s: &'static str| -> &'static str { Box::leak(format!("{}(ch{})", s, ch).into_boxed_str()) };
        vec![
            (nm("sign_cp"), none(), Box::new(move |w| {
                let cc = pick(w);
                st(w.fx.node.with_channel(&cc.channel_id, |c| {
                    c.sign_counterparty_commitment_tx_phase2(&tree_point(&TREE_A, 1), 1, 0, 2_899_000, 100_000, vec![], vec![])
                }).map(|_| json!(null)))
            })),
            (nm("validate_holder"), none(), Box::new(move |w| {
                let cc = pick(w);
                let (cs, hs) = validate_and_sigs(&w.fx, &cc, 1, 2_899_000, 100_000);
                st(w.fx.node.with_channel(&cc.channel_id, |c| {
                    c.validate_holder_commitment_tx_phase2(1, 0, 2_899_000, 100_000, vec![], vec![], &cs, &hs)
                }).map(|_| json!(null)))
            })),
            (nm("revoke"), Box::new(move |w| {
                let cc = pick(w);
                let (cs, hs) = validate_and_sigs(&w.fx, &cc, 1, 2_899_000, 100_000);
                w.fx.node.with_channel(&cc.channel_id, |c| {
                    c.validate_holder_commitment_tx_phase2(1, 0, 2_899_000, 100_000, vec![], vec![], &cs, &hs)
                }).unwrap();
            }), Box::new(move |w| {
                let cc = pick(w);
                st(w.fx.node.with_channel(&cc.channel_id, |c| c.revoke_previous_holder_commitment(1)).map(|_| json!(null)))
            })),
            (nm("validate_revocation"), Box::new(move |w| {
                let cc = pick(w);
                w.fx.node.with_channel(&cc.channel_id, |c| {
                    c.sign_counterparty_commitment_tx_phase2(&tree_point(&TREE_A, 1), 1, 0, 2_899_000, 100_000, vec![], vec![])
                }).unwrap();
            }), Box::new(move |w| {
                let cc = pick(w);
                st(w.fx.node.with_channel(&cc.channel_id, |c| c.validate_counterparty_revocation(0, &tree_secret(&TREE_A, 0))).map(|_| json!(null)))
            })),
            (nm("get_point"), none(), Box::new(move |w| {
                let cc = pick(w);
                st(w.fx.node.with_channel_base(&cc.channel_id, |b| b.get_per_commitment_point(1)).map(|_| json!(null)))
            })),
            (nm("sign_holder"), none(), Box::new(move |w| {
                let cc = pick(w);
                st(w.fx.node.with_channel(&cc.channel_id, |c| c.sign_holder_commitment_tx_phase2(0)).map(|_| json!(null)))
            })),
            (nm("sign_mutual_close"), none(), Box::new(move |w| {
                use lightning_signer::util::test_utils::make_test_funding_wallet_addr;
                let cc = pick(w);
                let script = make_test_funding_wallet_addr(&w.fx.node, 1, SpendType::P2wpkh).script_pubkey();
                let path: DerivationPath = vec![bitcoin::bip32::ChildNumber::from_normal_idx(1).unwrap()].into();
                st(w.fx.node.with_channel(&cc.channel_id, |c| {
                    c.sign_mutual_close_tx_phase2(2_998_000, 0, &Some(script.clone()), &None, &path)
                }).map(|_| json!(null)))
            })),
            (nm("sign_delayed_sweep"), none(), Box::new(move |w| {
                let cc = pick(w);
                let (tx, path) = sweep_tx(w, cc.setup.counterparty_selected_contest_delay as u32);
                st(w.fx.node.with_channel(&cc.channel_id, |c| {
                    c.sign_delayed_sweep(&tx, 0, 0, &bitcoin::ScriptBuf::new(), 100_000, &path)
                }).map(|_| json!(null)))
            })),
            (nm("sign_justice_sweep"), none(), Box::new(move |w| {
                let cc = pick(w);
                let (tx, path) = sweep_tx(w, 0xffff_fffd);
                st(w.fx.node.with_channel(&cc.channel_id, |c| {
                    c.sign_justice_sweep(&tx, 0, &tree_secret(&TREE_A, 0), &bitcoin::ScriptBuf::new(), 100_000, &path)
                }).map(|_| json!(null)))
            })),
            (nm("sign_cp_htlc_sweep"), none(), Box::new(move |w| {
                let cc = pick(w);
                let (tx, path) = sweep_tx(w, 0xffff_fffd);
                st(w.fx.node.with_channel(&cc.channel_id, |c| {
                    c.sign_counterparty_htlc_sweep(&tx, 0, &tree_point(&TREE_A, 1), &bitcoin::ScriptBuf::new(), 100_000, &path)
                }).map(|_| json!(null)))
            })),
            (nm("get_basepoints"), none(), Box::new(move |w| {
                let cc = pick(w);
                st(w.fx.node.with_channel_base(&cc.channel_id, |b| Ok(b.get_channel_basepoints())).map(|_| json!(null)))
            })),
            (nm("check_future_secret"), none(), Box::new(move |w| {
                let cc = pick(w);
                st(w.fx.node.with_channel_base(&cc.channel_id, |b| b.check_future_secret(5, &tree_secret(&TREE_A, 5))).map(|b| json!(b)))
            })),
            (nm("add_block_closing"), none(), Box::new(move |w| {
                // a block that spends this channel's (confirmed) funding output
                let cc = pick(w);
                let r = connect_block(&w.fx, vec![spend_tx(cc.setup.funding_outpoint, 0x70 + ch)]);
                json!({"ok": r.is_ok(), "err": r.err()})
            })),
            (nm("forget_channel"), none(), Box::new(move |w| {
                let cc = pick(w);
                st(w.fx.node.forget_channel(&cc.channel_id).map(|_| json!(null)))
            })),
        ]
    };
    let mut v: Vec<Op> = vec![];
    v.extend(chan_ops(1));
    v.extend(chan_ops(2));
    v.push(("forget_channel(stub)", none(), Box::new(|w| st(w.fx.node.forget_channel(&w.ch3).map(|_| json!(null))))));
    v.push(("forget_channel(unknown)", none(), Box::new(|w| st(w.fx.node.forget_channel(&unknown_id()).map(|_| json!(null))))));
    v.push(("new_channel", none(), Box::new(|w| st(w.fx.node.new_channel(9, &peer_id(), &w.fx.node).map(|_| json!(null))))));
    v.push(("setup_channel(stub)", none(), Box::new(|w| {
        let setup = test_setup(V, 0, CommitmentType::StaticRemoteKey, 4);
        st(w.fx.node.setup_channel(w.ch3.clone(), None, setup, &DerivationPath::master()).map(|_| json!(null)))
    })));
    v.push(("channel_balance", none(), Box::new(|w| {
        let b = w.fx.node.channel_balance();
        json!({"ok": true, "v": b.claimable})
    })));
    v.push(("get_heartbeat", none(), Box::new(|w| {
        let _ = w.fx.node.get_heartbeat();
        json!({"ok": true})
    })));
    v.push(("chaninfo", none(), Box::new(|w| json!({"ok": true, "v": w.fx.node.chaninfo().len()}))));
    v.push(("add_invoice", none(), Box::new(|w| {
        let inv = current_invoice(1, 100_000);
        st(w.fx.node.add_invoice(inv).map(|b| json!(b)))
    })));
    v.push(("add_keysend", none(), Box::new(|w| {
        let payee = PublicKey::from_slice(&peer_id()).unwrap();
        st(w.fx.node.add_keysend(payee, PaymentHash([9u8; 32]), 1_000).map(|b| json!(b)))
    })));
    v.push(("add_allowlist", none(), Box::new(|w| {
        st(w.fx.node.add_allowlist(&["bcrt1qw508d6qejxtdg4y5r3zarvary0c5xw7kygt080".to_string()]).map(|_| json!(null)))
    })));
    v.push(("set_allowlist", none(), Box::new(|w| {
        st(w.fx.node.set_allowlist(&["bcrt1qw508d6qejxtdg4y5r3zarvary0c5xw7kygt080".to_string()]).map(|_| json!(null)))
    })));
    v.push(("remove_allowlist", none(), Box::new(|w| {
        st(w.fx.node.remove_allowlist(&["bcrt1qw508d6qejxtdg4y5r3zarvary0c5xw7kygt080".to_string()]).map(|_| json!(null)))
    })));
    v.push(("check_onchain_tx", none(), Box::new(|w| {
        let nctx = w.fx.node_ctx();
        let mut t = TestFundingTxContext::new();
        t.add_wallet_input(&nctx, SpendType::P2wpkh, 1, 1_000_000);
        t.add_wallet_output(&nctx, SpendType::P2wpkh, 1, 999_000);
        let tx = t.to_tx();
        let r = w.fx.node.check_onchain_tx(&tx, &[true], &t.prev_outs, &t.iuckeys, &t.opaths);
        json!({"ok": r.is_ok()})
    })));
    v.push(("sign_onchain_tx", none(), Box::new(|w| {
        let nctx = w.fx.node_ctx();
        let mut t = TestFundingTxContext::new();
        t.add_wallet_input(&nctx, SpendType::P2wpkh, 1, 1_000_000);
        t.add_wallet_output(&nctx, SpendType::P2wpkh, 1, 999_000);
        let tx = t.to_tx();
        st(w.fx.node.unchecked_sign_onchain_tx(&tx, &t.ipaths, &t.prev_outs, t.iuckeys.clone()).map(|v| json!(v.len())))
    })));
    v.push(("persist_all", none(), Box::new(|w| {
        w.fx.node.persist_all();
        json!({"ok": true})
    })));
    v.push(("sign_bolt11_invoice", none(), Box::new(|w| {
        let inv = current_invoice(2, 50_000);
        let raw = match &inv {
            lightning_signer::invoice::Invoice::Bolt11(b) => b.clone().into_signed_raw(),
            _ => unreachable!(),
        };
        let (raw_invoice, _, _) = raw.into_parts();
        st(w.fx.node.sign_bolt11_invoice(raw_invoice).map(|_| json!(null)))
    })));
    v.push(("sign_node_announcement", none(), Box::new(|w| st(w.fx.node.sign_node_announcement(&[7u8; 64]).map(|_| json!(null))))));
    v.push(("sign_message", none(), Box::new(|w| st(w.fx.node.sign_message(b"hello").map(|_| json!(null))))));
    v.push(("ecdh", none(), Box::new(|w| {
        let _ = w.fx.node.ecdh(&PublicKey::from_slice(&peer_id()).unwrap());
        json!({"ok": true})
    })));
    v.push(("allowlist", none(), Box::new(|w| st(w.fx.node.allowlist().map(|l| json!(l.len()))))));
    v.push(("has_payment", none(), Box::new(|w| st(w.fx.node.has_payment(&PaymentHash([9u8; 32]), &[9u8; 32]).map(|b| json!(b))))));
    v.push(("get_chain_height", none(), Box::new(|w| json!({"ok": true, "v": w.fx.node.get_chain_height()}))));
    v.push(("add_block", none(), Box::new(|w| {
        use lightning_signer::util::test_utils::make_testnet_header;
        let mut tracker = w.fx.node.get_tracker();
        let (header, proof) = make_testnet_header(tracker.tip(), tracker.height());
        let r = tracker.add_block(header, proof);
        if r.is_ok() {
            let _ = w.fx.node.get_persister().update_tracker(&w.fx.node.get_id(), &tracker);
        }
        json!({"ok": r.is_ok()})
    })));
    v
}

fn program(events: &[Ev], names: &mut HashMap<usize, String>, counters: &mut HashMap<String, usize>) -> Vec<Value> {
    let mut out = vec![];
    for e in events {
        if e.kind == "want" {
            continue;
        }
        let name = names
            .entry(e.addr)
            .or_insert_with(|| {
                let c = short_class(e.class);
                let k = counters.entry(c.clone()).or_insert(0);
                *k += 1;
                if ["NodeState", "ChannelMap", "Tracker", "VFactory", "Store", "Clock"].contains(&c.as_str()) && *k == 1 {
                    c
                } else {
                    format!("{}#{}", c, k)
                }
            })
            .clone();
        out.push(json!([e.kind, name]));
    }
    out
}

fn record() {
    let out = arg("out").unwrap();
    let mut progs = vec![];
    for (name, prep, act) in ops() {
        let w = world();
        let mut names = w.names.clone();
        let mut counters = HashMap::new();
        prep(&w);
        let tr = Arc::new(Tracer::new(1));
        set_lock_tracer(Some(tr.clone()));
        TID.with(|t| t.set(0));
        NACQ.with(|c| c.set(0));
        let res = catch(|| act(&w));
        TID.with(|t| t.set(usize::MAX));
        set_lock_tracer(None);
        let evs = tr.events.lock().unwrap().clone();
        let prog = program(&evs, &mut names, &mut counters);
        progs.push(json!({"kind": name, "result": res.unwrap_or_else(|p| json!({"panic": p})), "prog": prog}));
    }
    std::fs::write(&out, serde_json::to_string_pretty(&progs).unwrap()).unwrap();
    println!("{}", json!({"programs": progs.len()}));
}

fn confirm() {
    let a = arg("a").unwrap();
    let b = arg("b").unwrap();
    let pa = arg_u64("pa", 0) as usize;
    let pb = arg_u64("pb", 0) as usize;
    let all = ops();
    let w = Arc::new(world());
    let mut acts = vec![];
    for k in [&a, &b] {
        let (_, prep, act) = all.iter().find(|o| o.0 == k.as_str()).expect("unknown kind");
        prep(&w);
        acts.push(act);
    }
    let tr = Arc::new(Tracer::new(2));
    tr.stop_at[0].store(pa, Ordering::SeqCst);
    tr.stop_at[1].store(pb, Ordering::SeqCst);
    set_lock_tracer(Some(tr.clone()));
    let done = Arc::new((AtomicBool::new(false), AtomicBool::new(false)));
    // threads are leaked on purpose when they deadlock
    let acts: Vec<&'static (dyn Fn(&World) -> Value + Send + Sync)> = acts
        .into_iter()
        .map(|a| unsafe { std::mem::transmute::<&(dyn Fn(&World) -> Value + Send + Sync), &'static (dyn Fn(&World) -> Value + Send + Sync)>(&**a) })
        .collect();
    std::mem::forget(all);
    let first_b = arg_or("first", "a") == "b";
    let mut order: Vec<(usize, &'static (dyn Fn(&World) -> Value + Send + Sync))> = acts.into_iter().enumerate().collect();
    if first_b {
        order.reverse();
    }
    for (pos, (i, act)) in order.into_iter().enumerate() {
        if pos == 1 {
            // let the first thread reach its stop point (or finish) before the second starts
            let t = Instant::now();
            let j = if first_b { 1 } else { 0 };
            while !(tr.arrived[j].load(Ordering::SeqCst)) && t.elapsed() < Duration::from_secs(3) {
                let fin = if j == 0 { done.0.load(Ordering::SeqCst) } else { done.1.load(Ordering::SeqCst) };
                if fin { break; }
                std::thread::sleep(Duration::from_millis(1));
            }
        }
        let w = w.clone();
        let done = done.clone();
        std::thread::spawn(move || {
            TID.with(|t| t.set(i));
            NACQ.with(|c| c.set(0));
            let _ = catch(|| act(&w));
            if i == 0 {
                done.0.store(true, Ordering::SeqCst)
            } else {
                done.1.store(true, Ordering::SeqCst)
            }
        });
    }
    // wait until both stand at their stop points (or finished), then open the gate
    let t0 = Instant::now();
    loop {
        let a_ok = tr.arrived[0].load(Ordering::SeqCst) || done.0.load(Ordering::SeqCst);
        let b_ok = tr.arrived[1].load(Ordering::SeqCst) || done.1.load(Ordering::SeqCst);
        if (a_ok && b_ok) || t0.elapsed() > Duration::from_secs(5) {
            break;
        }
        std::thread::sleep(Duration::from_millis(2));
    }
    let both_arrived = tr.arrived[0].load(Ordering::SeqCst) && tr.arrived[1].load(Ordering::SeqCst);
    {
        *tr.gate.0.lock().unwrap() = true;
        tr.gate.1.notify_all();
    }
    let t1 = Instant::now();
    while t1.elapsed() < Duration::from_secs(3) {
        if done.0.load(Ordering::SeqCst) && done.1.load(Ordering::SeqCst) {
            break;
        }
        std::thread::sleep(Duration::from_millis(5));
    }
    let fa = done.0.load(Ordering::SeqCst);
    let fb = done.1.load(Ordering::SeqCst);
    let evs = tr.events.lock().map(|e| e.clone()).unwrap_or_default();
    let tail: Vec<Value> = evs.iter().rev().take(8).rev().map(|e| json!([e.tid, e.kind, short_class(e.class)])).collect();
    println!("{}", json!({"a": a, "b": b, "pa": pa, "pb": pb, "both_arrived": both_arrived,
                          "finished": [fa, fb], "deadlock": both_arrived && !fa && !fb, "tail": tail}));
    std::process::exit(0);
}

/// Linearizability leg: pairs of Channel.tla requests executed concurrently on one channel.
/// For every lock acquisition k of request A: A is held before acquisition k, B is started and
/// runs until it finishes or blocks, then A continues (and symmetrically with B held).
fn conc() {
    use vls_verif_harness::chanlib::*;
    let nmax = arg_u64("n", 6);
    let cases: Vec<Value> = std::fs::read_to_string(arg("cases").unwrap())
        .unwrap()
        .lines()
        .filter(|l| !l.trim().is_empty())
        .map(|l| serde_json::from_str(l).unwrap())
        .collect();
    let mut o = NdJson::create(&arg("out").unwrap());
    let mut ctx = Arc::new(Ctx::new("ready", nmax));
    // a panic under the channel lock poisons the mutex: the signer object is replaced
    let is_panic = |v: &Value| v["err"].as_str().unwrap_or("").starts_with("PANIC");
    let s0 = ctx.snap();
    let mut runs = 0u64;
    for (ci, case) in cases.iter().enumerate() {
        let prefix = case["prefix"].as_array().unwrap();
        let reqs = [case["a"].clone(), case["b"].clone()];
        // reach the start state sequentially (untraced)
        ctx.restore(&s0);
        let mut skip = false;
        for r in prefix {
            if is_panic(&ctx.apply(r)) {
                skip = true;
                break;
            }
        }
        if skip {
            // the behaviour's prefix contains a request that aborts the signer: not a start state
            ctx = Arc::new(Ctx::new("ready", nmax));
            continue;
        }
        let start = ctx.snap();
        let pre = project(&start, nmax);
        // how many acquisitions does each request perform when run alone?
        let mut nacq = [0usize; 2];
        for i in 0..2 {
            ctx.restore(&start);
            let tr = Arc::new(Tracer::new(1));
            set_lock_tracer(Some(tr.clone()));
            TID.with(|t| t.set(0));
            NACQ.with(|c| c.set(0));
            let v = ctx.apply(&reqs[i]);
            nacq[i] = NACQ.with(|c| c.get());
            TID.with(|t| t.set(usize::MAX));
            set_lock_tracer(None);
            if is_panic(&v) {
                skip = true;
                ctx = Arc::new(Ctx::new("ready", nmax));
            }
        }
        if skip {
            // one of the two requests aborts the signer when run alone: no concurrent runs
            continue;
        }
        // sequential baselines on the real implementation: a;b and b;a
        let strip0 = |v: &Value| json!({"ok": v["ok"], "sec": v["sec"], "pt": v["pt"], "flag": v["flag"]});
        let mut seqs = vec![];
        for order in [[0usize, 1usize], [1, 0]] {
            ctx.restore(&start);
            let r1 = ctx.apply(&reqs[order[0]]);
            let r2 = ctx.apply(&reqs[order[1]]);
            let post = project(&ctx.snap(), nmax);
            let (ra, rb) = if order[0] == 0 { (r1, r2) } else { (r2, r1) };
            seqs.push(json!({"ra": strip0(&ra), "rb": strip0(&rb), "post": post}));
        }
        for held in 0..2usize {
            for k in 0..=nacq[held] {
                ctx.restore(&start);
                let tr = Arc::new(Tracer::new(2));
                tr.stop_at[held].store(k, Ordering::SeqCst);
                set_lock_tracer(Some(tr.clone()));
                let results: Arc<StdMutex<Vec<Option<Value>>>> = Arc::new(StdMutex::new(vec![None, None]));
                let mut handles = vec![];
                let spawn = |i: usize| {
                    let ctx = ctx.clone();
                    let r = reqs[i].clone();
                    let results = results.clone();
                    std::thread::spawn(move || {
                        TID.with(|t| t.set(i));
                        NACQ.with(|c| c.set(0));
                        let v = ctx.apply(&r);
                        results.lock().unwrap()[i] = Some(v);
                    })
                };
                // the held thread first, up to its stop point (or completion)
                handles.push(spawn(held));
                let t = Instant::now();
                while !tr.arrived[held].load(Ordering::SeqCst)
                    && results.lock().unwrap()[held].is_none()
                    && t.elapsed() < Duration::from_secs(2)
                {
                    std::thread::yield_now();
                }
                // the other thread runs until it finishes or blocks
                let other = 1 - held;
                handles.push(spawn(other));
                let t = Instant::now();
                while results.lock().unwrap()[other].is_none() && t.elapsed() < Duration::from_millis(25) {
                    std::thread::yield_now();
                }
                let other_finished_while_held = results.lock().unwrap()[other].is_some();
                {
                    *tr.gate.0.lock().unwrap() = true;
                    tr.gate.1.notify_all();
                }
                let t = Instant::now();
                let mut stuck = false;
                loop {
                    let g = results.lock().unwrap();
                    if g[0].is_some() && g[1].is_some() {
                        break;
                    }
                    drop(g);
                    if t.elapsed() > Duration::from_secs(3) {
                        stuck = true;
                        break;
                    }
                    std::thread::yield_now();
                }
                set_lock_tracer(None);
                if stuck {
                    o.put(&json!({"case": ci, "held": held, "k": k, "stuck": true, "pre": pre, "a": reqs[0], "b": reqs[1]}));
                    o.finish();
                    println!("{}", json!({"runs": runs, "stuck": true}));
                    std::process::exit(0);
                }
                for h in handles {
                    let _ = h.join();
                }
                let res = results.lock().unwrap().clone();
                let strip = |v: &Value| json!({"ok": v["ok"], "sec": v["sec"], "pt": v["pt"], "flag": v["flag"]});
                let post = project(&ctx.snap(), nmax);
                o.put(&json!({"case": ci, "held": held, "k": k, "stuck": false,
                              "other_ran_through": other_finished_while_held,
                              "pre": pre, "a": reqs[0], "b": reqs[1],
                              "ra": strip(res[0].as_ref().unwrap()), "rb": strip(res[1].as_ref().unwrap()),
                              "post": post, "sab": seqs[0], "sba": seqs[1]}));
                runs += 1;
            }
        }
    }
    o.finish();
    println!("{}", json!({"runs": runs, "cases": cases.len(), "stuck": false}));
}

/// Linearizability leg at node level: pairs of Node.tla requests run concurrently on one real
/// node (fresh node per run, prefix re-executed), one thread held before each of its lock
/// acquisitions in turn while the other runs; sequential baselines a;b and b;a from the same node.
fn conc_node() {
    use vls_verif_harness::nodelib as nl;
    let cases: Vec<Value> = std::fs::read_to_string(arg("cases").unwrap())
        .unwrap()
        .lines()
        .filter(|l| !l.trim().is_empty())
        .map(|l| serde_json::from_str(l).unwrap())
        .collect();
    let mut o = NdJson::create(&arg("out").unwrap());
    let mut runs = 0u64;
    let strip = |v: &Value| json!({"ok": v["ok"], "flag": v["flag"]});
    for (ci, case) in cases.iter().enumerate() {
        // "policy": "paylimit" = payment velocity limit of one v1 amount per hour;
        // "tick": seconds by which the clock advances between the two requests (sequential references) /
        // while the held thread waits at its stop point (time passes while a request is preempted)
        let paylimit = case["policy"] == "paylimit";
        let tick = case["tick"].as_u64().unwrap_or(0);
        let build = |prefix: &Vec<Value>| -> NodeFx {
            let fx = NodeFx::new(Network::Regtest, if paylimit { Some(nl::paylimit_policy(Network::Regtest)) } else { None });
            for r in prefix {
                nl::apply(&fx, r);
            }
            fx
        };
        let advance = |fx: &NodeFx| {
            if tick > 0 {
                fx.clock.set(fx.clock_now() + Duration::from_secs(tick));
            }
        };
        let prefix: Vec<Value> = case["prefix"].as_array().unwrap().clone();
        let reqs = [case["a"].clone(), case["b"].clone()];
        let pre = nl::project(&build(&prefix));
        let mut nacq = [0usize; 2];
        for i in 0..2 {
            let fx = build(&prefix);
            let tr = Arc::new(Tracer::new(1));
            set_lock_tracer(Some(tr.clone()));
            TID.with(|t| t.set(0));
            NACQ.with(|c| c.set(0));
            nl::apply(&fx, &reqs[i]);
            nacq[i] = NACQ.with(|c| c.get());
            TID.with(|t| t.set(usize::MAX));
            set_lock_tracer(None);
        }
        let mut seqs = vec![];
        for order in [[0usize, 1usize], [1, 0]] {
            let fx = build(&prefix);
            let r1 = nl::apply(&fx, &reqs[order[0]]);
            advance(&fx);
            let r2 = nl::apply(&fx, &reqs[order[1]]);
            let (ra, rb) = if order[0] == 0 { (r1, r2) } else { (r2, r1) };
            seqs.push(json!({"ra": strip(&ra), "rb": strip(&rb), "post": nl::project(&fx)}));
        }
        for held in 0..2usize {
            for k in 0..=nacq[held] {
                let fx = Arc::new(build(&prefix));
                let tr = Arc::new(Tracer::new(2));
                tr.stop_at[held].store(k, Ordering::SeqCst);
                set_lock_tracer(Some(tr.clone()));
                let results: Arc<StdMutex<Vec<Option<Value>>>> = Arc::new(StdMutex::new(vec![None, None]));
                let spawn = |i: usize| {
                    let fx = fx.clone();
                    let r = reqs[i].clone();
                    let results = results.clone();
                    std::thread::spawn(move || {
                        TID.with(|t| t.set(i));
                        NACQ.with(|c| c.set(0));
                        let v = nl::apply(&fx, &r);
                        results.lock().unwrap()[i] = Some(v);
                    })
                };
                let h1 = spawn(held);
                let t = Instant::now();
                while !tr.arrived[held].load(Ordering::SeqCst)
                    && results.lock().unwrap()[held].is_none()
                    && t.elapsed() < Duration::from_secs(2)
                {
                    std::thread::yield_now();
                }
                let other = 1 - held;
                advance(&fx);
                let h2 = spawn(other);
                let t = Instant::now();
                while results.lock().unwrap()[other].is_none() && t.elapsed() < Duration::from_millis(25) {
                    std::thread::yield_now();
                }
                let through = results.lock().unwrap()[other].is_some();
                {
                    *tr.gate.0.lock().unwrap() = true;
                    tr.gate.1.notify_all();
                }
                let t = Instant::now();
                let mut stuck = false;
                loop {
                    let g = results.lock().unwrap();
                    if g[0].is_some() && g[1].is_some() {
                        break;
                    }
                    drop(g);
                    if t.elapsed() > Duration::from_secs(3) {
                        stuck = true;
                        break;
                    }
                    std::thread::yield_now();
                }
                set_lock_tracer(None);
                if stuck {
                    o.put(&json!({"case": ci, "held": held, "k": k, "stuck": true, "pre": pre, "a": reqs[0], "b": reqs[1]}));
                    o.finish();
                    println!("{}", json!({"runs": runs, "stuck": true}));
                    std::process::exit(0);
                }
                let _ = h1.join();
                let _ = h2.join();
                let res = results.lock().unwrap().clone();
                o.put(&json!({"case": ci, "held": held, "k": k, "stuck": false, "other_ran_through": through,
                              "pre": pre, "a": reqs[0], "b": reqs[1],
                              "ra": strip(res[0].as_ref().unwrap()), "rb": strip(res[1].as_ref().unwrap()),
                              "post": nl::project(&fx), "sab": seqs[0], "sba": seqs[1],
                              // both requests have returned: is what they acknowledged durable?
                              "rdiff": nl::restart_fields(&fx)}));
                runs += 1;
            }
        }
    }
    o.finish();
    println!("{}", json!({"runs": runs, "cases": cases.len(), "stuck": false}));
}

fn main() {
    quiet_panics();
    match std::env::args().nth(1).unwrap_or_default().as_str() {
        "record" => record(),
        "confirm" => confirm(),
        "conc" => conc(),
        "conc-node" => conc_node(),
        _ => {
            eprintln!("usage: locks record|confirm ...");
            std::process::exit(2);
        }
    }
}
