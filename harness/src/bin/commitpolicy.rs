//! Commitment policy bounds (C05): runs the TLC-generated case matrix against the REAL entry points.
//!
//!   commitpolicy run --cases cases.ndjson --out log.ndjson [--threads 8]
//!
//! Every line of `cases.ndjson` is one case chosen by TLC (spec/MC_CommitPolicy.tla): a policy, a
//! validator kind, a channel setup, the blocks to feed to the channel's chain monitor, the initial
//! commitments of the open step and one commitment request.  All numbers are arrays of base-10000
//! limbs (least significant first) CHOSEN BY TLC; this program only converts them to u64/u32.
//!
//! Per case the life cycle  new_channel -> setup_channel -> [open: sign counterparty commitment 0,
//! validate holder commitment 0 with verifying counterparty signatures, activate] -> blocks ->
//! request  is driven through the public API of the real crates (states are REACHED, a context is
//! built once and its public state fields are snapshotted / restored between the cases that share
//! it).  One ndjson record per case is written with the concrete values that were used (converted
//! back from the typed values) and the real verdicts.  No property logic here: TLC
//! (spec/ImplCommitPolicy.tla) re-judges every record with the reference predicate.
use std::collections::HashMap;
use std::sync::Arc;

use bitcoin::absolute::LockTime;
use bitcoin::bip32::DerivationPath;
use bitcoin::hashes::Hash;
use bitcoin::secp256k1::ecdsa::Signature;
use bitcoin::secp256k1::{Message, PublicKey, Secp256k1, SecretKey};
use bitcoin::transaction::Version;
use bitcoin::{Amount, BlockHash, Network, OutPoint, ScriptBuf, Sequence, Transaction, TxIn, TxOut, Witness};
use lightning::types::payment::PaymentHash;
use lightning_signer::chain::tracker::ChainListener;
use lightning_signer::channel::{ChannelId, ChannelSetup, CommitmentType};
use lightning_signer::monitor::ChainMonitor;
use lightning_signer::policy::filter::{FilterResult, FilterRule, PolicyFilter};
use lightning_signer::policy::onchain_validator::OnchainValidatorFactory;
use lightning_signer::policy::simple_validator::{make_default_simple_policy, SimpleValidatorFactory};
use lightning_signer::policy::validator::{EnforcementState, ValidatorFactory};
use lightning_signer::tx::tx::HTLCInfo2;
use lightning_signer::util::status::Status;
use lightning_signer::util::test_utils::key::make_test_counterparty_points;
use lightning_signer::util::test_utils::{
    channel_commitment, counterparty_sign_holder_commitment, make_test_counterparty_keys, TestChannelContext,
};
use serde_json::{json, Value};
use vls_verif_harness::*;

// ---------------------------------------------------------------------------------------------
// numbers: base-10000 limbs <-> machine integers

fn big(v: &Value) -> u128 {
    let mut x: u128 = 0;
    let arr = v.as_array().expect("limbs");
    for l in arr.iter().rev() {
        x = x.checked_mul(10_000).expect("number too large").checked_add(l.as_u64().expect("limb") as u128).unwrap();
    }
    x
}
fn u64_of(v: &Value) -> u64 {
    u64::try_from(big(v)).expect("value does not fit u64")
}
fn u32_of(v: &Value) -> u32 {
    u32::try_from(big(v)).expect("value does not fit u32")
}
fn limbs(mut x: u128) -> Value {
    let mut out = vec![];
    while x > 0 {
        out.push(json!((x % 10_000) as u64));
        x /= 10_000;
    }
    Value::Array(out)
}

// ---------------------------------------------------------------------------------------------
// typed form of a case

#[derive(Clone, Debug)]
struct Rule {
    tag: String,
    prefix: bool,
    warn: bool,
}

#[derive(Clone, Debug)]
struct Pol {
    vk: String,
    min_delay: u16,
    max_delay: u16,
    max_chan: u64,
    max_htlcs: usize,
    max_inflight: u64,
    use_chain: bool,
    min_fr: u32,
    max_fr: u32,
    filter: Vec<Rule>,
}

#[derive(Clone, Debug)]
struct Setup {
    ctype: String,
    outbound: bool,
    value: u64,
    push_msat: u64,
    hdelay: u16,
    cdelay: u16,
}

#[derive(Clone, Debug)]
struct Htlc {
    v: u64,
    cltv: u32,
    /// identity of the payment hash within its direction (chosen by TLC; HTLCs may share it)
    h: u64,
}

#[derive(Clone, Debug)]
struct Req {
    feerate: u32,
    to_b: u64,
    to_c: u64,
    off: Vec<Htlc>,
    rcv: Vec<Htlc>,
}

fn tag_string(segs: &Value, prefix: bool) -> String {
    let s: Vec<String> = segs.as_array().unwrap().iter().map(|x| x.as_str().unwrap().to_string()).collect();
    let mut t = s.join("-");
    if prefix && !t.is_empty() {
        t.push('-');
    }
    t
}
fn tag_segments(tag: &str) -> Value {
    let t = tag.strip_suffix('-').unwrap_or(tag);
    if t.is_empty() {
        json!([])
    } else {
        Value::Array(t.split('-').map(|s| json!(s)).collect())
    }
}

fn parse_pol(v: &Value) -> Pol {
    Pol {
        vk: v["vk"].as_str().unwrap().to_string(),
        min_delay: v["min_delay"].as_u64().unwrap() as u16,
        max_delay: v["max_delay"].as_u64().unwrap() as u16,
        max_chan: u64_of(&v["max_chan"]),
        max_htlcs: v["max_htlcs"].as_u64().unwrap() as usize,
        max_inflight: u64_of(&v["max_inflight"]),
        use_chain: v["use_chain"].as_bool().unwrap(),
        min_fr: u32_of(&v["min_fr"]),
        max_fr: u32_of(&v["max_fr"]),
        filter: v["filter"]
            .as_array()
            .unwrap()
            .iter()
            .map(|r| {
                let prefix = r["prefix"].as_bool().unwrap();
                Rule { tag: tag_string(&r["tag"], prefix), prefix, warn: r["warn"].as_bool().unwrap() }
            })
            .collect(),
    }
}
fn pol_json(p: &Pol) -> Value {
    json!({"vk": p.vk, "min_delay": p.min_delay, "max_delay": p.max_delay, "max_chan": limbs(p.max_chan as u128),
           "max_htlcs": p.max_htlcs, "max_inflight": limbs(p.max_inflight as u128), "use_chain": p.use_chain,
           "min_fr": limbs(p.min_fr as u128), "max_fr": limbs(p.max_fr as u128),
           "filter": p.filter.iter().map(|r| json!({"tag": tag_segments(&r.tag), "prefix": r.prefix, "warn": r.warn}))
                      .collect::<Vec<_>>()})
}
fn parse_setup(v: &Value) -> Setup {
    Setup {
        ctype: v["ctype"].as_str().unwrap().to_string(),
        outbound: v["outbound"].as_bool().unwrap(),
        value: u64_of(&v["value"]),
        push_msat: u64_of(&v["push_msat"]),
        hdelay: v["hdelay"].as_u64().unwrap() as u16,
        cdelay: v["cdelay"].as_u64().unwrap() as u16,
    }
}
fn setup_json(s: &Setup) -> Value {
    json!({"ctype": s.ctype, "outbound": s.outbound, "value": limbs(s.value as u128),
           "push_msat": limbs(s.push_msat as u128), "hdelay": s.hdelay, "cdelay": s.cdelay})
}
fn parse_htlcs(v: &Value) -> Vec<Htlc> {
    v.as_array()
        .unwrap()
        .iter()
        .enumerate()
        .map(|(i, h)| Htlc { v: u64_of(&h["v"]), cltv: u32_of(&h["cltv"]), h: h["h"].as_u64().unwrap_or(i as u64) })
        .collect()
}
fn parse_req(v: &Value) -> Req {
    Req {
        feerate: u32_of(&v["feerate"]),
        to_b: u64_of(&v["to_b"]),
        to_c: u64_of(&v["to_c"]),
        off: parse_htlcs(&v["off"]),
        rcv: parse_htlcs(&v["rcv"]),
    }
}
fn htlcs_json(h: &[Htlc]) -> Value {
    Value::Array(h.iter().map(|x| json!({"v": limbs(x.v as u128), "cltv": limbs(x.cltv as u128), "h": x.h})).collect())
}
fn req_json(r: &Req) -> Value {
    json!({"feerate": limbs(r.feerate as u128), "to_b": limbs(r.to_b as u128), "to_c": limbs(r.to_c as u128),
           "off": htlcs_json(&r.off), "rcv": htlcs_json(&r.rcv)})
}

// ---------------------------------------------------------------------------------------------
// the real signer

fn commitment_type(s: &str) -> CommitmentType {
    match s {
        "legacy" => CommitmentType::Legacy,
        "static" => CommitmentType::StaticRemoteKey,
        "anchors" => CommitmentType::Anchors,
        "zerofee" => CommitmentType::AnchorsZeroFeeHtlc,
        _ => panic!("unknown commitment type {}", s),
    }
}

fn factory(p: &Pol) -> Arc<dyn ValidatorFactory> {
    let mut sp = make_default_simple_policy(Network::Regtest);
    sp.min_delay = p.min_delay;
    sp.max_delay = p.max_delay;
    sp.max_channel_size_sat = p.max_chan;
    sp.max_htlcs = p.max_htlcs;
    sp.max_htlc_value_sat = p.max_inflight;
    sp.use_chain_state = p.use_chain;
    sp.min_feerate_per_kw = p.min_fr;
    sp.max_feerate_per_kw = p.max_fr;
    sp.filter = PolicyFilter {
        rules: p
            .filter
            .iter()
            .map(|r| FilterRule {
                tag: r.tag.clone(),
                is_prefix: r.prefix,
                action: if r.warn { FilterResult::Warn } else { FilterResult::Error },
            })
            .collect(),
    };
    let simple = SimpleValidatorFactory::new_with_policy(sp);
    match p.vk.as_str() {
        "simple" => Arc::new(simple),
        "onchain" => Arc::new(OnchainValidatorFactory::new_with_simple_factory(simple)),
        k => panic!("unknown validator kind {}", k),
    }
}

fn funding_tx() -> Transaction {
    Transaction {
        version: Version::TWO,
        lock_time: LockTime::ZERO,
        input: vec![TxIn {
            previous_output: OutPoint { txid: bitcoin::Txid::from_slice(&[9u8; 32]).unwrap(), vout: 1 },
            script_sig: ScriptBuf::new(),
            sequence: Sequence(0xFFFF_FFFD),
            witness: Witness::default(),
        }],
        output: vec![TxOut { value: Amount::from_sat(1_000_000), script_pubkey: ScriptBuf::from_bytes(vec![0x51, 0x01, 0x01]) }],
    }
}

/// some transaction spending the funding output (what a close looks like to the chain monitor)
fn closing_tx(funding: &OutPoint) -> Transaction {
    Transaction {
        version: Version::TWO,
        lock_time: LockTime::ZERO,
        input: vec![TxIn {
            previous_output: *funding,
            script_sig: ScriptBuf::new(),
            sequence: Sequence(0xFFFF_FFFD),
            witness: Witness::default(),
        }],
        output: vec![TxOut { value: Amount::from_sat(900_000), script_pubkey: ScriptBuf::from_bytes(vec![0x51, 0x01, 0x02]) }],
    }
}

/// observation normalisation: which check produced the refusal, read off the message text
fn classify(msg: &str) -> &'static str {
    let table: [(&str, &str); 23] = [
        ("sign_counterparty_commitment panic", "builder"),
        ("less than dust limit", "dust"),
        ("too many HTLCs", "count"),
        ("expiry too", "cltv"),
        ("value overflow", "overflow"),
        ("sum of HTLC values", "inflight"),
        ("fee underflow", "underflow"),
        ("feerate below minimum", "fee_low"),
        ("feerate above maximum", "fee_high"),
        ("may not have HTLCS", "first_htlcs"),
        ("may only send push_value_msat", "first_value"),
        ("channel value", "chan_size"),
        ("funding is not buried", "unburied"),
        ("closed on-chain", "closed"),
        ("unsafe commitment type", "safe_type"),
        ("holder contest-delay", "delay_holder"),
        ("counterparty contest-delay", "delay_cp"),
        ("sig verify failed", "signature"),
        ("unbalanced payments", "payments"),
        ("beneficial channel value underflow", "push"),
        ("invalid attempt to sign counterparty", "state"),
        ("retry", "state"),
        ("channel is closing", "state"),
    ];
    for (k, c) in table.iter() {
        if msg.contains(k) {
            return c;
        }
    }
    "other"
}

fn outcome(r: Result<Result<(), Status>, String>) -> (String, String, String) {
    match r {
        Ok(Ok(())) => ("ok".into(), "none".into(), "".into()),
        Ok(Err(st)) => ("refused".into(), classify(st.message()).into(), st.message().chars().take(160).collect()),
        Err(p) => ("panic".into(), "panic".into(), p.chars().take(160).collect()),
    }
}

fn htlc_infos(hs: &[Htlc], tag: u8) -> Vec<HTLCInfo2> {
    // the payment hash is a function of (direction, hash number): HTLCs with the same number
    // in the same direction - of one commitment or of successive ones - share the hash
    hs.iter()
        .map(|h| {
            let mut b = [tag; 32];
            b[0] = (h.h & 0xff) as u8;
            b[1] = ((h.h >> 8) & 0xff) as u8 + 1;
            HTLCInfo2 { value_sat: h.v, payment_hash: PaymentHash(b), cltv_expiry: h.cltv }
        })
        .collect()
}

struct Ctx {
    fx: NodeFx,
    id: ChannelId,
    cc: Option<TestChannelContext>,
    monitor: Option<ChainMonitor>,
    h0: u32,
    setup_res: (String, String, String),
    open_res: (String, String, String),
    cstate: Value,
    snap_estate: Option<EnforcementState>,
    snap_node: Option<NodeSnap>,
    dummy_sig: Signature,
    ftx: Transaction,
    funding_outpoint: OutPoint,
}

fn payee() -> PublicKey {
    let secp = Secp256k1::new();
    PublicKey::from_secret_key(&secp, &SecretKey::from_slice(&[77u8; 32]).unwrap())
}

impl Ctx {
    /// outgoing HTLCs are payments: approve them the way a node does (keysend), so that the
    /// policy bounds are the only possible reason for a refusal
    /// Parts of one payment share the hash: the payment is approved once, for the sum.
    fn approve(&self, outgoing: &[HTLCInfo2]) {
        self.approve_sums(&Self::sums(outgoing));
    }

    fn sums(outgoing: &[HTLCInfo2]) -> Vec<(PaymentHash, u64)> {
        let mut sums: Vec<(PaymentHash, u64)> = vec![];
        for h in outgoing {
            match sums.iter_mut().find(|(p, _)| *p == h.payment_hash) {
                Some((_, v)) => *v = v.saturating_add(h.value_sat),
                None => sums.push((h.payment_hash, h.value_sat)),
            }
        }
        sums
    }

    fn approve_sums(&self, sums: &[(PaymentHash, u64)]) {
        for (hash, v) in sums {
            let amt = v.checked_mul(1000).unwrap_or(u64::MAX / 2);
            let _ = catch(|| self.fx.node.add_keysend(payee(), *hash, amt));
        }
    }

    /// the HTLCs of a request that are payments of this node
    fn outgoing(side: &str, r: &Req) -> Vec<HTLCInfo2> {
        if side == "cp" {
            htlc_infos(&r.rcv, 0xD0)
        } else {
            htlc_infos(&r.off, 0xA0)
        }
    }

    /// a history of several requests: a payment is approved once (an approval cannot be changed
    /// afterwards), for the largest amount any request of the history has in flight for it
    fn approve_history(&self, side: &str, reqs: &[&Req]) {
        let mut all: Vec<(PaymentHash, u64)> = vec![];
        for r in reqs {
            for (p, v) in Self::sums(&Self::outgoing(side, r)) {
                match all.iter_mut().find(|(q, _)| *q == p) {
                    Some((_, w)) => *w = (*w).max(v),
                    None => all.push((p, v)),
                }
            }
        }
        self.approve_sums(&all);
    }

    fn sign_cp(&self, n: u64, r: &Req) -> (String, String, String) {
        // request in the broadcaster's (= counterparty's) terms, as the API wants it
        let off = htlc_infos(&r.off, 0xC0);
        let rcv = htlc_infos(&r.rcv, 0xD0);
        self.approve(&rcv);
        let pt = tree_point(&TREE_A, n);
        outcome(catch(|| {
            self.fx
                .node
                .with_channel(&self.id, |chan| {
                    chan.sign_counterparty_commitment_tx_phase2(&pt, n, r.feerate, r.to_c, r.to_b, off.clone(), rcv.clone())
                })
                .map(|_| ())
        }))
    }

    /// counterparty signatures on the holder commitment (test counterparty keys); None when
    /// the transaction cannot even be built (the helper panicked - it holds the channel lock
    /// while it does, so the context must be rebuilt afterwards)
    fn make_sigs(&self, n: u64, r: &Req) -> Option<(Signature, Vec<Signature>)> {
        let off = htlc_infos(&r.off, 0xA0);
        let rcv = htlc_infos(&r.rcv, 0xB0);
        let node_ctx = self.fx.node_ctx();
        let cc = self.cc.as_ref().unwrap();
        catch(|| {
            let mut t = channel_commitment(&node_ctx, cc, n, r.feerate, r.to_b, r.to_c, off.clone(), rcv.clone());
            counterparty_sign_holder_commitment(&node_ctx, cc, &mut t)
        })
        .ok()
    }

    fn validate_holder_with(&self, n: u64, r: &Req, sigs: Option<(Signature, Vec<Signature>)>) -> (String, String, String) {
        let off = htlc_infos(&r.off, 0xA0);
        let rcv = htlc_infos(&r.rcv, 0xB0);
        self.approve(&off);
        let (cs, hs) = match sigs {
            Some(x) => x,
            None => (self.dummy_sig, vec![self.dummy_sig; off.len() + rcv.len()]),
        };
        outcome(catch(|| {
            self.fx.node.with_channel(&self.id, |chan| {
                chan.validate_holder_commitment_tx_phase2(n, r.feerate, r.to_b, r.to_c, off.clone(), rcv.clone(), &cs, &hs)
            })
        }))
    }

    fn validate_holder(&self, n: u64, r: &Req) -> ((String, String, String), &'static str) {
        let sigs = self.make_sigs(n, r);
        let kind = if sigs.is_some() { "good" } else { "unavailable" };
        (self.validate_holder_with(n, r, sigs), kind)
    }

    fn new(pol: &Pol, setup: &Setup, chain: &Value, n: u64, pre: &Value) -> Ctx {
        let fx = NodeFx::new_with_factory(Network::Regtest, factory(pol));
        let id = new_stub(&fx, 1);
        let h0 = fx.node.get_tracker().height();
        let ftx = funding_tx();
        let funding_outpoint = OutPoint { txid: ftx.compute_txid(), vout: 0 };
        let cs = ChannelSetup {
            is_outbound: setup.outbound,
            channel_value_sat: setup.value,
            push_value_msat: setup.push_msat,
            funding_outpoint,
            holder_selected_contest_delay: setup.hdelay,
            holder_shutdown_script: None,
            counterparty_points: make_test_counterparty_points(),
            counterparty_selected_contest_delay: setup.cdelay,
            counterparty_shutdown_script: None,
            commitment_type: commitment_type(&setup.ctype),
        };
        let secp = Secp256k1::new();
        let dummy_sig = secp.sign_ecdsa(&Message::from_digest([1u8; 32]), &SecretKey::from_slice(&[78u8; 32]).unwrap());
        let node_ctx = fx.node_ctx();
        let counterparty_keys = make_test_counterparty_keys(&node_ctx, &id, setup.value);
        let setup_res = outcome(catch(|| {
            fx.node.setup_channel(id.clone(), None, cs.clone(), &DerivationPath::master()).map(|_| ())
        }));
        let mut ctx = Ctx {
            fx,
            id: id.clone(),
            cc: None,
            monitor: None,
            h0,
            setup_res,
            open_res: ("none".into(), "none".into(), "".into()),
            cstate: json!([]),
            snap_estate: None,
            snap_node: None,
            dummy_sig,
            ftx: ftx.clone(),
            funding_outpoint,
        };
        if ctx.setup_res.0 != "ok" {
            return ctx;
        }
        ctx.cc = Some(TestChannelContext { channel_id: id.clone(), setup: cs, counterparty_keys });
        ctx.monitor = {
            let tracker = ctx.fx.node.get_tracker();
            tracker.listeners.get(&funding_outpoint).map(|(m, _)| m.clone())
        };
        // open: the initial commitments of both sides, then activation
        if n > 0 {
            let a = ctx.sign_cp(0, &parse_req(&pre["cp"]));
            ctx.open_res = if a.0 != "ok" {
                a
            } else {
                let (b, _) = ctx.validate_holder(0, &parse_req(&pre["holder"]));
                if b.0 != "ok" {
                    b
                } else {
                    outcome(catch(|| {
                        ctx.fx.node.with_channel(&ctx.id, |chan| chan.activate_initial_commitment()).map(|_| ())
                    }))
                }
            };
            if ctx.open_res.0 != "ok" {
                return ctx;
            }
        }
        // chain: feed the blocks to the channel's monitor
        ctx.chain_to(&json!({"blocks": 0, "fund_at": 0, "close_at": 0}), chain);
        let monitor = ctx.monitor.as_ref().expect("monitor");
        let cst = monitor.as_base().as_chain_state();
        ctx.cstate = json!([cst.current_height, cst.funding_depth, cst.closing_depth]);
        ctx.snap_estate =
            Some(ctx.fx.node.with_channel(&ctx.id, |chan| Ok(chan.enforcement_state.clone())).unwrap());
        ctx.snap_node = Some(node_snap(&ctx.fx.node.get_state()));
        ctx
    }

    fn block_txs(&self, chain: &Value, b: u64) -> Vec<Transaction> {
        let mut txs = vec![];
        if b == chain["fund_at"].as_u64().unwrap() {
            txs.push(self.ftx.clone());
        }
        if b == chain["close_at"].as_u64().unwrap() {
            txs.push(closing_tx(&self.funding_outpoint));
        }
        txs
    }

    /// move the channel's chain monitor from the chain `from` to the chain `to` (block b of a
    /// chain holds the funding tx iff b = fund_at, a spend of the funding output iff b =
    /// close_at): disconnect the blocks after the common prefix, connect the new ones
    fn chain_to(&self, from: &Value, to: &Value) {
        let monitor = self.monitor.as_ref().expect("monitor");
        let nf = from["blocks"].as_u64().unwrap();
        let nt = to["blocks"].as_u64().unwrap();
        let same = |b: u64| {
            (b == from["fund_at"].as_u64().unwrap()) == (b == to["fund_at"].as_u64().unwrap())
                && (b == from["close_at"].as_u64().unwrap()) == (b == to["close_at"].as_u64().unwrap())
        };
        let mut p = 0;
        while p < nf.min(nt) && same(p + 1) {
            p += 1;
        }
        let hash = |b: u64, c: &Value| {
            let mut h = [b as u8; 32];
            h[1] = c["fund_at"].as_u64().unwrap() as u8;
            h[2] = c["close_at"].as_u64().unwrap() as u8;
            BlockHash::from_slice(&h).unwrap()
        };
        let mut b = nf;
        while b > p {
            let txs = self.block_txs(from, b);
            catch(|| monitor.on_remove_block(&txs, &hash(b, from))).expect("on_remove_block");
            b -= 1;
        }
        for b in p + 1..=nt {
            let txs = self.block_txs(to, b);
            catch(|| monitor.on_add_block(&txs, &hash(b, to))).expect("on_add_block");
        }
    }

    fn chain_state(&self) -> Value {
        let cst = self.monitor.as_ref().expect("monitor").as_base().as_chain_state();
        json!([cst.current_height, cst.funding_depth, cst.closing_depth])
    }

    fn request(&self, side: &str, n: u64, req: &Req) -> ((String, String, String), &'static str) {
        if side == "cp" {
            (self.sign_cp(n, req), "na")
        } else {
            match self.make_sigs(n, req) {
                Some(sg) => (self.validate_holder_with(n, req, Some(sg)), "good"),
                None => (("none".into(), "none".into(), "signatures unavailable".into()), "unavailable"),
            }
        }
    }

    fn restore(&self) {
        let es = self.snap_estate.as_ref().unwrap().clone();
        self.fx
            .node
            .with_channel(&self.id, |chan| {
                chan.enforcement_state = es.clone();
                Ok(())
            })
            .unwrap();
        let mut st = self.fx.node.get_state();
        node_restore(&mut st, self.snap_node.as_ref().unwrap());
    }
}

fn run_case(ctxs: &mut HashMap<String, Ctx>, c: &Value) -> Value {
    let pol = parse_pol(&c["pol"]);
    let setup = parse_setup(&c["setup"]);
    let n = c["n"].as_u64().unwrap();
    let kind = c["kind"].as_str().unwrap();
    let side = c["side"].as_str().unwrap();
    let req = parse_req(&c["req"]);
    let pre_h = parse_req(&c["pre"]["holder"]);
    let pre_c = parse_req(&c["pre"]["cp"]);
    if kind == "seq" {
        return run_seq(c, &pol, &setup, n, side, &req, &pre_h, &pre_c);
    }
    let key = digest(&json!([c["pol"], c["setup"], c["chain"], if kind == "setup" { 0 } else { n }, c["pre"]]));
    if !ctxs.contains_key(&key) {
        if ctxs.len() > 64 {
            ctxs.clear();
        }
        let chain = if kind == "setup" { json!({"blocks": 0, "fund_at": 0, "close_at": 0}) } else { c["chain"].clone() };
        ctxs.insert(key.clone(), Ctx::new(&pol, &setup, &chain, if kind == "setup" { 0 } else { n }, &c["pre"]));
    }
    let ctx = &ctxs[&key];
    let (h0, setup_res, open_res, cstate) = (ctx.h0, ctx.setup_res.clone(), ctx.open_res.clone(), ctx.cstate.clone());
    let mut res = ("none".to_string(), "none".to_string(), "".to_string());
    let mut sig = "na";
    if kind == "commit" && ctx.setup_res.0 == "ok" && (n == 0 || ctx.open_res.0 == "ok") {
        ctx.restore();
        if side == "cp" {
            res = ctx.sign_cp(n, &req);
        } else {
            match ctx.make_sigs(n, &req) {
                Some(sg) => {
                    res = ctx.validate_holder_with(n, &req, Some(sg));
                    sig = "good";
                }
                None => {
                    // fresh context (same construction), request with signatures that cannot verify
                    let chain = c["chain"].clone();
                    let fresh = Ctx::new(&pol, &setup, &chain, n, &c["pre"]);
                    ctxs.insert(key.clone(), fresh);
                    let ctx = &ctxs[&key];
                    if ctx.setup_res.0 == "ok" && (n == 0 || ctx.open_res.0 == "ok") {
                        res = ctx.validate_holder_with(n, &req, None);
                    }
                    sig = "unavailable";
                }
            }
        }
        if res.0 == "panic" {
            // a panic may have poisoned a lock of this node: rebuild the context next time
            ctxs.remove(&key);
        }
    }
    let mut chain = c["chain"].clone();
    chain["h0"] = json!(h0);
    json!({
        "id": c["id"], "fam": c["fam"], "why": c["why"], "kind": kind,
        "pol": pol_json(&pol), "setup": setup_json(&setup), "chain": chain, "side": side, "n": n,
        "pre": {"holder": req_json(&pre_h), "cp": req_json(&pre_c)}, "req": req_json(&req),
        "obs": {"setup": setup_res.0, "setup_cls": setup_res.1, "open": open_res.0, "open_cls": open_res.1,
                "res1": "none", "res1_cls": "none", "adv": "none", "cstate2": [],
                "res": res.0, "res_cls": res.1, "sig": sig, "cstate": cstate,
                "msg": [setup_res.2, open_res.2, res.2, ""]},
        "seq": {"on": false, "adv": false, "req1": req_json(&parse_req(&c["seq"]["req1"])), "chain2": c["seq"]["chain2"]},
    })
}

/// kind "seq": open ; chain ; request1 ; the chain changes ; the same number again - or, with
/// seq.adv: open ; chain ; request1 (number n-1) ; it becomes current (revocation) ; the chain
/// moves to seq.chain2 ; request (number n).  Its own context (the chain monitor is moved),
/// nothing is snapshotted or shared.
fn run_seq(c: &Value, pol: &Pol, setup: &Setup, n: u64, side: &str, req: &Req, pre_h: &Req, pre_c: &Req) -> Value {
    let req1 = parse_req(&c["seq"]["req1"]);
    let ctx = Ctx::new(pol, setup, &c["chain"], 1, &c["pre"]);
    let mut res1 = ("none".to_string(), "none".to_string(), "".to_string());
    let mut res = res1.clone();
    let mut sig = "na";
    let mut cstate2 = json!([]);
    let adv = c["seq"]["adv"].as_bool().unwrap_or(false);
    let n1 = if adv { n - 1 } else { n };
    let mut adv_res = "none".to_string();
    if ctx.setup_res.0 == "ok" && ctx.open_res.0 == "ok" {
        ctx.approve_history(side, &[&req1, req]);
        let (r1, _) = ctx.request(side, n1, &req1);
        res1 = r1;
        if adv {
            // the pending commitment becomes current, as the protocol does it
            if res1.0 == "ok" {
                let o = if side == "holder" {
                    outcome(catch(|| {
                        ctx.fx.node.with_channel(&ctx.id, |chan| chan.revoke_previous_holder_commitment(n1)).map(|_| ())
                    }))
                } else {
                    let secret = tree_secret(&TREE_A, n1 - 1);
                    outcome(catch(|| {
                        ctx.fx.node.with_channel(&ctx.id, |chan| chan.validate_counterparty_revocation(n1 - 1, &secret))
                    }))
                };
                adv_res = o.0.clone();
                if o.0 == "ok" {
                    // the chain may move while the first commitment is current
                    ctx.chain_to(&c["chain"], &c["seq"]["chain2"]);
                    cstate2 = ctx.chain_state();
                    let (r2, k) = ctx.request(side, n, req);
                    res = r2;
                    sig = k;
                }
            }
        } else if res1.0 != "panic" {
            ctx.chain_to(&c["chain"], &c["seq"]["chain2"]);
            cstate2 = ctx.chain_state();
            let (r2, k) = ctx.request(side, n, req);
            res = r2;
            sig = k;
        }
    }
    let mut chain = c["chain"].clone();
    chain["h0"] = json!(ctx.h0);
    let mut chain2 = c["seq"]["chain2"].clone();
    chain2["h0"] = json!(ctx.h0);
    json!({
        "id": c["id"], "fam": c["fam"], "why": c["why"], "kind": "seq",
        "pol": pol_json(pol), "setup": setup_json(setup), "chain": chain, "side": side, "n": n,
        "pre": {"holder": req_json(pre_h), "cp": req_json(pre_c)}, "req": req_json(req),
        "obs": {"setup": ctx.setup_res.0, "setup_cls": ctx.setup_res.1, "open": ctx.open_res.0, "open_cls": ctx.open_res.1,
                "res1": res1.0, "res1_cls": res1.1, "adv": adv_res, "cstate2": cstate2,
                "res": res.0, "res_cls": res.1, "sig": sig, "cstate": ctx.cstate,
                "msg": [ctx.setup_res.2, ctx.open_res.2, res.2, res1.2]},
        "seq": {"on": true, "adv": adv, "req1": req_json(&req1), "chain2": chain2},
    })
}

fn run() {
    let cases_path = arg("cases").expect("--cases");
    let out = arg("out").expect("--out");
    let threads = arg_u64("threads", 8) as usize;
    let text = std::fs::read_to_string(&cases_path).expect("read cases");
    let cases: Vec<Value> = text.lines().filter(|l| !l.trim().is_empty()).map(|l| serde_json::from_str(l).expect("case")).collect();
    // cases that share a context go to the same worker, in id order
    let mut shards: Vec<Vec<Value>> = vec![vec![]; threads];
    for c in cases.iter() {
        let k = digest(&json!([c["pol"], c["setup"], c["chain"], c["n"], c["pre"]]));
        let h = u64::from_str_radix(&k[0..8], 16).unwrap() as usize % threads;
        shards[h].push(c.clone());
    }
    let mut handles = vec![];
    for shard in shards.into_iter() {
        handles.push(
            std::thread::Builder::new()
                .stack_size(64 << 20)
                .spawn(move || {
                    let mut ctxs: HashMap<String, Ctx> = HashMap::new();
                    let mut shard = shard;
                    shard.sort_by_key(|c| digest(&json!([c["pol"], c["setup"], c["chain"], c["n"], c["pre"]])));
                    shard.iter().map(|c| run_case(&mut ctxs, c)).collect::<Vec<Value>>()
                })
                .unwrap(),
        );
    }
    let mut rows: Vec<Value> = vec![];
    for h in handles {
        rows.extend(h.join().expect("worker"));
    }
    rows.sort_by_key(|r| r["id"].as_u64().unwrap());
    let mut w = NdJson::create(&out);
    let (mut ok, mut refused, mut panics, mut unreached) = (0u64, 0u64, 0u64, 0u64);
    for r in rows.iter() {
        match r["obs"]["res"].as_str().unwrap() {
            "ok" => ok += 1,
            "refused" => refused += 1,
            "panic" => panics += 1,
            _ => {
                if r["kind"] == "commit" {
                    unreached += 1
                }
            }
        }
        w.put(r);
    }
    w.finish();
    println!("{}", json!({"cases": rows.len(), "ok": ok, "refused": refused, "panics": panics, "unreached": unreached}));
}

fn main() {
    quiet_panics();
    match std::env::args().nth(1).as_deref() {
        Some("run") => run(),
        _ => {
            eprintln!("usage: commitpolicy run --cases F --out F [--threads N]");
            std::process::exit(2);
        }
    }
}
