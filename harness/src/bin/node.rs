//! Node-level request explorer (Node.tla): allowlist, invoices/keysends, new/setup/forget channel,
//! heartbeat, restart.  States are re-created by re-executing their request path on a fresh node
//! (a fixture costs ~2 ms), so structural changes (channel map, tracker listeners) need no undo.
//!
//!   node explore --alphabet FILE --out DIR [--threads 16] [--max-states N]
use std::collections::{HashMap, VecDeque};
use std::sync::{Arc, Condvar, Mutex};

use bitcoin::Network;
use serde_json::{json, Value};
use vls_verif_harness::nodelib::*;
use vls_verif_harness::*;

struct Obs {
    full: Value,
    store_exact: Value,
    store_vals: Value,
}

fn observe(fx: &NodeFx) -> Obs {
    let d = dump_store(&fx.store.0);
    let mut full = full_state_json(fx);
    // velocity counters are explored by the velocity harness (C12); leaving them out keeps
    // the node graph small (every invoice amount would otherwise multiply the states)
    if !TRACK_VC.load(std::sync::atomic::Ordering::Relaxed) {
        full["node"].as_object_mut().unwrap().remove("vc");
    }
    if !TRACK_FEE.load(std::sync::atomic::Ordering::Relaxed) {
        full["node"].as_object_mut().unwrap().remove("fvc");
    }
    Obs {
        full,
        store_exact: dump_to_json(&d),
        store_vals: Value::Array(d.iter().map(|(k, _v, x)| json!([k, String::from_utf8_lossy(x).to_string()])).collect()),
    }
}

/// identity of a state: the running signer's state and what a restart would restore
fn key_of(o: &Obs, restored: &Value) -> String {
    digest(&json!([o.full, restored]))
}

/// restart observation: fields of the durable view that differ between running and restored signer
fn restart_diff(fx: &NodeFx) -> (bool, Vec<String>, Option<NodeFx>, Value) {
    match fx.restart_copy() {
        Err(e) => (false, vec![e.clone()], None, json!(e)),
        Ok(fx2) => {
            let a = durable_state_json(fx);
            let b = durable_state_json(&fx2);
            let mut out = vec![];
            json_diff(&a, &b, "", 5, &mut out);
            (out.is_empty(), out, Some(fx2), b)
        }
    }
}

fn new_fx() -> NodeFx {
    if TRACK_FEE.load(std::sync::atomic::Ordering::Relaxed) {
        NodeFx::new(Network::Regtest, Some(feelimit_policy(Network::Regtest)))
    } else if TRACK_VC.load(std::sync::atomic::Ordering::Relaxed) {
        NodeFx::new(Network::Regtest, Some(maxinv_policy(Network::Regtest)))
    } else {
        NodeFx::new(Network::Regtest, None)
    }
}

fn build(path: &[Value]) -> NodeFx {
    let mut fx = new_fx();
    for r in path {
        if r["op"] == "Restart" {
            if let Ok(f2) = fx.restart_copy() {
                fx = f2;
            }
        } else {
            apply(&fx, r);
        }
    }
    fx
}

struct Shared {
    queue: VecDeque<(u64, Vec<Value>)>,
    seen: HashMap<String, u64>,
    active: usize,
    states: u64,
}

fn explore() {
    let alphabet: Vec<Value> = serde_json::from_str(&std::fs::read_to_string(arg("alphabet").unwrap()).unwrap()).unwrap();
    let out = arg("out").unwrap();
    let threads = arg_u64("threads", 16) as usize;
    let max_states = arg_u64("max-states", 200_000);
    let max_chans = arg_u64("max-chans", 2);
    // "feelimit": a fee velocity limit of FEE_LIMIT Withdraw fees per hour, counted fees are part of the state
    TRACK_FEE.store(arg_or("policy", "default") == "feelimit", std::sync::atomic::Ordering::Relaxed);
    TRACK_VC.store(arg_or("policy", "default") == "maxinv", std::sync::atomic::Ordering::Relaxed);
    std::fs::create_dir_all(&out).unwrap();
    let shared = Arc::new((Mutex::new(Shared { queue: VecDeque::new(), seen: HashMap::new(), active: 0, states: 0 }), Condvar::new()));
    {
        let fx = build(&[]);
        let o = observe(&fx);
        let rd = restart_diff(&fx).3;
        let mut g = shared.0.lock().unwrap();
        g.seen.insert(key_of(&o, &rd), 0);
        g.queue.push_back((0, vec![]));
        g.states = 1;
    }
    let alphabet = Arc::new(alphabet);
    let mut handles = vec![];
    for w in 0..threads {
        let shared = shared.clone();
        let alphabet = alphabet.clone();
        let out = out.clone();
        handles.push(std::thread::spawn(move || {
            let mut o = NdJson::create(&format!("{}/edges-{}.ndjson", out, w));
            let mut od = NdJson::create(&format!("{}/details-{}.ndjson", out, w));
            let mut nedges = 0u64;
            loop {
                let item = {
                    let (m, cv) = (&shared.0, &shared.1);
                    let mut g = m.lock().unwrap();
                    loop {
                        if let Some(s) = g.queue.pop_front() {
                            g.active += 1;
                            break Some(s);
                        }
                        if g.active == 0 {
                            cv.notify_all();
                            break None;
                        }
                        g = cv.wait(g).unwrap();
                    }
                };
                let (pre_id, path) = match item {
                    Some(s) => s,
                    None => break,
                };
                let fx0 = build(&path);
                let apre = project(&fx0);
                let r0 = restart_diff(&fx0).0;
                // bound: at most max_chans channels ever created (keeps the graph finite and small)
                let expand = apre["chans"].as_array().unwrap().len() as u64 <= max_chans;
                let mut edges = vec![];
                if expand {
                    for (ri, r) in alphabet.iter().enumerate() {
                        let mut fx = build(&path);
                        let pre = observe(&fx);
                        let (resp, restart_equal, rdiff, restored) = if r["op"] == "Restart" {
                            let (eq, diff, f2, _) = restart_diff(&fx);
                            match f2 {
                                Some(f2) => {
                                    fx = f2;
                                    let rj = restart_diff(&fx).3;
                                    (json!({"ok": true, "flag": -1, "err": ""}), eq, diff, rj)
                                }
                                None => (json!({"ok": false, "flag": -1, "err": diff.join(";")}), eq, diff, json!(null)),
                            }
                        } else {
                            let resp = apply(&fx, r);
                            let (eq, diff, _, rj) = restart_diff(&fx);
                            (resp, eq, diff, rj)
                        };
                        let post = observe(&fx);
                        let mut changed = vec![];
                        json_diff(&pre.full, &post.full, "", 4, &mut changed);
                        let mut mask = 0;
                        for c in &changed {
                            mask |= if c.starts_with("channels") { 1 } else if c.starts_with("node") { 2 } else { 8 };
                        }
                        if pre.store_exact != post.store_exact {
                            mask |= 4;
                        }
                        let kpost = key_of(&post, &restored);
                        let apost = project(&fx);
                        let mut npath = path.clone();
                        npath.push(r.clone());
                        let to: i64 = {
                            let mut g = shared.0.lock().unwrap();
                            match g.seen.get(&kpost) {
                                Some(i) => *i as i64,
                                None if g.states < max_states => {
                                    let i = g.states;
                                    g.seen.insert(kpost, i);
                                    g.states += 1;
                                    g.queue.push_back((i, npath));
                                    shared.1.notify_one();
                                    i as i64
                                }
                                None => -1,
                            }
                        };
                        let ok = resp["ok"] == true;
                        if (!ok && mask != 0) || !restart_equal || resp["err"].as_str().unwrap_or("").starts_with("PANIC") {
                            od.put(&json!({"node": pre_id, "ri": ri + 1, "path": path, "req": r, "resp": resp,
                                           "changed": changed, "restart_diff": rdiff, "pre": apre, "post": apost}));
                        }
                        edges.push(json!([to, ri + 1, if ok { 1 } else { 0 }, resp["flag"], mask, if restart_equal { 1 } else { 0 }]));
                    }
                }
                nedges += edges.len() as u64;
                o.put(&json!({"id": pre_id, "pre": apre, "x": expand, "r0": if r0 { 1 } else { 0 }, "e": edges}));
                let mut g = shared.0.lock().unwrap();
                g.active -= 1;
                if g.queue.is_empty() && g.active == 0 {
                    shared.1.notify_all();
                }
            }
            o.finish();
            od.finish();
            nedges
        }));
    }
    let mut edges = 0;
    for h in handles {
        edges += h.join().unwrap();
    }
    let g = shared.0.lock().unwrap();
    println!("{}", json!({"states": g.states, "edges": edges, "truncated": g.states >= max_states}));
}

/// node path --requests FILE: apply a request sequence to a fresh node, print every reply (replays, probing)
fn path() {
    let reqs: Vec<Value> = serde_json::from_str(&std::fs::read_to_string(arg("requests").unwrap()).unwrap()).unwrap();
    TRACK_FEE.store(arg_or("policy", "default") == "feelimit", std::sync::atomic::Ordering::Relaxed);
    TRACK_VC.store(arg_or("policy", "default") == "maxinv", std::sync::atomic::Ordering::Relaxed);
    let mut fx = new_fx();
    for r in reqs {
        let before = observe(&fx);
        let resp = if r["op"] == "Restart" {
            match fx.restart_copy() {
                Ok(f2) => {
                    fx = f2;
                    json!({"ok": true})
                }
                Err(e) => json!({"ok": false, "err": e}),
            }
        } else {
            apply(&fx, &r)
        };
        let after = observe(&fx);
        let mut changed = vec![];
        json_diff(&before.full, &after.full, "", 5, &mut changed);
        println!("{}", json!({"req": r, "resp": resp, "post": project(&fx), "changed": changed,
                              "store_changed": before.store_exact != after.store_exact}));
    }
}

fn main() {
    quiet_panics();
    match std::env::args().nth(1).unwrap_or_default().as_str() {
        "explore" => explore(),
        "path" => path(),
        _ => {
            eprintln!("usage: node explore ...");
            std::process::exit(2);
        }
    }
}
