//! Velocity-control explorer (legs B and C of C12).
//!
//!   velocity explore --cases cases.json --out nodes.ndjson [--details FILE] [--threads 8]
//!                    [--max-states N]
//!        for every case of the TLC-generated matrix: exhaustive breadth-first exploration of
//!        the REAL implementation's state graph (every request of the case's alphabet applied
//!        to every discovered state).  One ndjson row per state:
//!          {id, c: case index (1-based), root, x: expanded, pre: projection,
//!           e: [[to, request index (1-based), ok (1 approved / 0 refused / -1 error)], ...]}
//!   velocity run --cases cases.json --seqs seqs.ndjson --out steps.ndjson
//!        replays request sequences ({"c": case index, "reqs": [...]}) from a fresh signer, no
//!        snapshots: one record per step {seq, step, c, pre, req, ok, post}.
//!
//! Levels:  struct    a bare `VelocityControl::new_with_intervals(L, B, K)` (or, in the cases with a
//!                     spec change, `VelocityControl::new(spec)` of a real interval type)
//!          approver  `VelocityApprover<NegativeApprover>` with the real Hourly/Daily spec
//!          node      a real `Node` over a KVV store: add_invoice / add_keysend /
//!                    check_onchain_tx, restart = Node::restore_nodes from a copy of the store
//! No property logic here: TLC compares every edge with Velocity!Step and runs the window
//! monitor.  The harness only scales model time/amounts to real seconds/msat and back.
use std::collections::{HashMap, VecDeque};
use std::sync::Arc;
use std::time::Duration;

use bitcoin::absolute::LockTime;
use bitcoin::bip32::DerivationPath;
use bitcoin::hashes::sha256::Hash as Sha256Hash;
use bitcoin::hashes::Hash;
use bitcoin::secp256k1::{All, PublicKey, Secp256k1, SecretKey};
use bitcoin::transaction::Version;
use bitcoin::{Amount, Network, OutPoint, ScriptBuf, Sequence, Transaction, TxIn, TxOut, Txid, Witness};
use lightning::types::payment::{PaymentHash, PaymentSecret};
use lightning_signer::invoice::Invoice;
use lightning_signer::lightning_invoice::{Currency, InvoiceBuilder};
use lightning_signer::node::{PaymentState, RoutedPayment};
use lightning_signer::persist::Persist;
use lightning_signer::policy::simple_validator::SimplePolicy;
use lightning_signer::util::clock::{Clock, ManualClock};
use lightning_signer::util::velocity::{
    VelocityControl, VelocityControlIntervalType, VelocityControlSpec,
};
use serde_json::{json, Value};
use vls_protocol_signer::approver::{Approve, NegativeApprover, PositiveApprover, VelocityApprover};
use vls_verif_harness::*;

fn named_pre(invoice_kind: bool, h: u64) -> [u8; 32] {
    let mut pre = [9u8; 32];
    pre[0] = if invoice_kind { 1 } else { 2 };
    pre[1] = h as u8;
    pre
}

/// the model's stand-in for u64::MAX (Velocity.tla: TOP)
const TOP: u64 = 1_000_000_000;

#[derive(Clone, Debug)]
struct Ctl {
    b: u64,
    k: usize,
    l: u64,
}

#[derive(Clone, Debug)]
struct Req {
    op: String,
    dt: u64,
    a: u64,
    /// 0: a fresh payment hash; h > 0: the named payment hash h of the request's kind
    h: u64,
}

#[derive(Clone, Debug)]
struct Case {
    id: String,
    level: String,
    kind: String,
    pay: Ctl,
    fee: Ctl,
    scale: u64,
    unit: u64,
    t0: u64,
    /// exploration bound: states holding a small bucket value above `cap` are not expanded
    cap: u64,
    /// named payment hashes per kind (invoice / keysend) that requests may re-use
    ns: u64,
    /// spec change: the control / node is CREATED and USED under this other spec (kind, pay, fee),
    /// then the case's spec is installed (update_spec / restart with the changed policy); the
    /// case's root is the state after that change
    from: Option<(String, Ctl, Ctl)>,
    reqs: Vec<Req>,
}

fn ctl_of(v: &Value) -> Ctl {
    Ctl {
        b: v["B"].as_u64().unwrap(),
        k: v["K"].as_u64().unwrap() as usize,
        l: v["L"].as_u64().unwrap(),
    }
}

fn req_of(v: &Value) -> Req {
    Req {
        op: v["op"].as_str().unwrap().to_string(),
        dt: v["dt"].as_u64().unwrap(),
        a: v["a"].as_u64().unwrap(),
        h: v["h"].as_u64().unwrap_or(0),
    }
}

fn load_cases(path: &str) -> Vec<Case> {
    let v: Vec<Value> = serde_json::from_str(&std::fs::read_to_string(path).unwrap()).unwrap();
    v.iter()
        .map(|c| Case {
            id: c["id"].as_str().unwrap().to_string(),
            level: c["level"].as_str().unwrap().to_string(),
            kind: c["kind"].as_str().unwrap().to_string(),
            pay: ctl_of(&c["pay"]),
            fee: ctl_of(&c["fee"]),
            scale: c["scale"].as_u64().unwrap(),
            unit: c["unit"].as_u64().unwrap(),
            t0: c["t0"].as_u64().unwrap(),
            cap: c["cap"].as_u64().unwrap(),
            ns: c["ns"].as_u64().unwrap_or(0),
            from: match c["from"]["kind"].as_str() {
                None | Some("none") => None,
                Some(k) => Some((k.to_string(), ctl_of(&c["from"]["pay"]), ctl_of(&c["from"]["fee"]))),
            },
            reqs: c["reqs"].as_array().unwrap().iter().map(req_of).collect(),
        })
        .collect()
}

// ---------------------------------------------------------------------------------------------
// scaling between model values and real values (encoding only)

/// model amount -> msat: small amounts are multiples of `unit`, TOP-k is u64::MAX - k*unit
fn enc_amt(a: u64, unit: u64) -> u64 {
    if a > TOP / 2 {
        u64::MAX - (TOP - a) * unit
    } else {
        a * unit
    }
}

/// msat -> model amount, -1 if the value has no model counterpart
fn dec_amt(c: u64, unit: u64) -> i64 {
    if c > u64::MAX / 2 {
        let d = u64::MAX - c;
        if d % unit == 0 && d / unit < TOP / 2 {
            (TOP - d / unit) as i64
        } else {
            -1
        }
    } else if c % unit == 0 && c / unit < TOP / 2 {
        (c / unit) as i64
    } else {
        -1
    }
}

impl Case {
    /// real second -> model second; a control that was never used has start_sec 0
    fn dec_time(&self, s: u64) -> i64 {
        if s >= self.t0 && (s - self.t0) % self.scale == 0 {
            ((s - self.t0) / self.scale) as i64
        } else if s == 0 {
            0
        } else {
            -1
        }
    }
    fn spec(&self, c: &Ctl) -> VelocityControlSpec {
        if c.l == TOP {
            return VelocityControlSpec::UNLIMITED;
        }
        let interval_type = match self.kind.as_str() {
            "hourly" => VelocityControlIntervalType::Hourly,
            "daily" => VelocityControlIntervalType::Daily,
            k => panic!("no real spec for kind {}", k),
        };
        VelocityControlSpec { limit_msat: enc_amt(c.l, self.unit), interval_type }
    }
    fn ctl_json(&self, vc: &VelocityControl) -> Value {
        let b: Vec<i64> = vc.buckets.iter().map(|v| dec_amt(*v, self.unit)).collect();
        json!({"start": self.dec_time(vc.start_sec), "b": b})
    }
    fn fresh_json(&self, c: &Ctl) -> Value {
        json!({"start": 0, "b": vec![0i64; c.k]})
    }
}

// ---------------------------------------------------------------------------------------------
// the three kinds of real system under exploration

/// what is saved / restored between edges of the exploration: the controls and the clock
#[derive(Clone)]
struct Snap {
    now: u64, // real seconds
    pay: VelocityControl,
    fee: VelocityControl,
    dpay: VelocityControl,
    dfee: VelocityControl,
    /// entries of the node's `invoices` map for the named payment hashes, in memory / in the store
    inv: Vec<(PaymentHash, PaymentState)>,
    dinv: Vec<(PaymentHash, PaymentState)>,
}

enum Sys {
    Struct { ctl: VelocityControl, now: u64 },
    Approver { app: VelocityApprover<NegativeApprover>, clock: Arc<ManualClock>, spec: VelocityControlSpec },
    Node { fx: NodeFx },
}

struct World {
    case: Case,
    sys: Sys,
    secp: Secp256k1<All>,
    counter: u64,
    payee: PublicKey,
    last_detail: String,
}

fn policy_of(case: &Case) -> SimplePolicy {
    let mut policy = default_policy(Network::Regtest);
    policy.global_velocity_control = case.spec(&case.pay);
    policy.fee_velocity_control = case.spec(&case.fee);
    policy
}

impl World {
    /// A case with a spec change: the system is built and used under the OLD spec (an approval of
    /// the full limit of every limited control), then the case's spec is installed the way the code
    /// does it (struct: `update_spec`; node: restore from the store with the changed policy, i.e.
    /// `Node::new_full` -> `update_spec`), and at node level one zero-amount payment is approved so
    /// that the store holds the controls of the new spec.  Everything after that is the case's
    /// alphabet; `Restart` keeps the NEW spec.
    fn new(case: &Case) -> World {
        let (kind, pay, fee) = match &case.from {
            None => return World::build(case),
            Some(f) => f.clone(),
        };
        let mut old = case.clone();
        old.kind = kind;
        old.pay = pay;
        old.fee = fee;
        old.from = None;
        let mut w = World::build(&old);
        let node = case.level == "node";
        if old.pay.l != TOP {
            let op = if node { "AddKeysend" } else { "Insert" };
            let r = w.apply(&Req { op: op.to_string(), dt: 0, a: old.pay.l, h: 0 });
            assert_eq!(r, 1, "approval under the old spec: {}", w.last_detail);
        }
        if node && old.fee.l != TOP {
            let r = w.apply(&Req { op: "Onchain".to_string(), dt: 0, a: old.fee.l, h: 0 });
            assert_eq!(r, 1, "fee approval under the old spec: {}", w.last_detail);
        }
        w.case = case.clone();
        let newsys = match &mut w.sys {
            Sys::Struct { ctl, .. } => {
                ctl.update_spec(&case.spec(&case.pay));
                None
            }
            Sys::Node { fx } => {
                fx.policy = Some(policy_of(case));
                Some(Sys::Node { fx: fx.restart_copy().expect("restart with the changed policy") })
            }
            Sys::Approver { .. } => panic!("no spec change at approver level"),
        };
        if let Some(sys) = newsys {
            w.sys = sys;
            let r = w.apply(&Req { op: "AddKeysend".to_string(), dt: 0, a: 0, h: 0 });
            assert_eq!(r, 1, "zero payment under the new spec: {}", w.last_detail);
        }
        w
    }

    fn build(case: &Case) -> World {
        let secp = Secp256k1::new();
        let payee = PublicKey::from_secret_key(&secp, &SecretKey::from_slice(&[43u8; 32]).unwrap());
        let sys = match case.level.as_str() {
            "struct" => Sys::Struct {
                ctl: if case.kind == "intervals" {
                    VelocityControl::new_with_intervals(
                        enc_amt(case.pay.l, case.unit),
                        (case.pay.b * case.scale) as u32,
                        case.pay.k,
                    )
                } else {
                    // a real interval type (the cases with a spec change)
                    VelocityControl::new(case.spec(&case.pay))
                },
                now: case.t0,
            },
            "approver" => {
                let clock = Arc::new(ManualClock::new(Duration::from_secs(case.t0)));
                let spec = case.spec(&case.pay);
                let app = VelocityApprover::new(clock.clone(), VelocityControl::new(spec), NegativeApprover());
                Sys::Approver { app, clock, spec }
            }
            "node" => {
                let fx = NodeFx::new(Network::Regtest, Some(policy_of(case)));
                fx.clock.set(Duration::from_secs(case.t0));
                Sys::Node { fx }
            }
            l => panic!("unknown level {}", l),
        };
        World { case: case.clone(), sys, secp, counter: 0, payee, last_detail: String::new() }
    }

    fn now_real(&self) -> u64 {
        match &self.sys {
            Sys::Struct { now, .. } => *now,
            Sys::Approver { clock, .. } => clock.now().as_secs(),
            Sys::Node { fx } => fx.clock.now().as_secs(),
        }
    }

    fn fresh_hash(&mut self) -> [u8; 32] {
        self.counter += 1;
        let mut pre = [7u8; 32];
        pre[..8].copy_from_slice(&self.counter.to_be_bytes());
        pre
    }

    /// pre-image of a payment: fresh (never repeated) for h = 0, fixed for a named payment
    fn pre_for(&mut self, invoice_kind: bool, h: u64) -> [u8; 32] {
        if h == 0 {
            return self.fresh_hash();
        }
        named_pre(invoice_kind, h)
    }

    /// A signed BOLT11 invoice.  A named payment (h > 0) always yields the same invoice for the same
    /// amount (stamped at the case's epoch, ten years of validity), so that a retry is a retry.
    fn invoice(&mut self, amt_msat: u64, now: u64, h: u64) -> Invoice {
        let pre = self.pre_for(true, h);
        let payment_hash = Sha256Hash::hash(&pre);
        let key = SecretKey::from_slice(&[42u8; 32]).unwrap();
        let secp = &self.secp;
        let stamp = if h == 0 { now } else { self.case.t0 };
        Invoice::Bolt11(
            InvoiceBuilder::new(Currency::Regtest)
                .description("velocity".into())
                .payment_hash(payment_hash)
                .payment_secret(PaymentSecret(pre))
                .duration_since_epoch(Duration::from_secs(stamp))
                .expiry_time(Duration::from_secs(10 * 365 * 86400))
                .min_final_cltv_expiry_delta(144)
                .amount_milli_satoshis(amt_msat)
                .build_signed(|h| secp.sign_ecdsa_recoverable(h, &key))
                .expect("invoice"),
        )
    }

    /// payment hashes of the named payments: slots 1..ns invoices, ns+1..2ns keysends
    fn named_hashes(&self) -> Vec<PaymentHash> {
        let ns = self.case.ns;
        let mut v = vec![];
        for h in 1..=ns {
            v.push(PaymentHash(Sha256Hash::hash(&named_pre(true, h)).to_byte_array()));
        }
        for h in 1..=ns {
            v.push(PaymentHash(named_pre(false, h)));
        }
        v
    }

    /// apply one request to the real system: 1 approved, 0 refused, -1 error / panic
    fn apply(&mut self, r: &Req) -> i64 {
        self.last_detail.clear();
        let now = self.now_real() + r.dt * self.case.scale;
        let amt = enc_amt(r.a, self.case.unit);
        let level = self.case.level.clone();
        match (level.as_str(), r.op.as_str()) {
            ("struct", "Insert") => {
                if let Sys::Struct { ctl, now: n } = &mut self.sys {
                    *n = now;
                    match catch(|| ctl.insert(now, amt)) {
                        Ok(true) => 1,
                        Ok(false) => 0,
                        Err(p) => {
                            self.last_detail = format!("PANIC {}", p);
                            -1
                        }
                    }
                } else {
                    unreachable!()
                }
            }
            ("struct", "Restart") => {
                // "persist + restore": the control goes through vls-persist's model and serde
                if let Sys::Struct { ctl, now: n } = &mut self.sys {
                    *n = now;
                    let m: vls_persist::model::VelocityControl = ctl.clone().into();
                    let text = serde_json::to_string(&m).expect("serialize control");
                    let back: vls_persist::model::VelocityControl =
                        serde_json::from_str(&text).expect("deserialize control");
                    *ctl = back.into();
                    if self.case.kind != "intervals" {
                        // a control of a real interval type: what Node::new_full does with a
                        // restored control - the (unchanged) policy's spec is applied to it
                        ctl.update_spec(&self.case.spec(&self.case.pay));
                    }
                    1
                } else {
                    unreachable!()
                }
            }
            ("approver", "AddKeysend") | ("approver", "AddInvoice") => {
                let inv = if r.op == "AddInvoice" { Some(self.invoice(amt, now, 0)) } else { None };
                let hash = PaymentHash(self.fresh_hash());
                if let Sys::Approver { app, clock, .. } = &self.sys {
                    clock.set(Duration::from_secs(now));
                    let res = catch(|| match &inv {
                        Some(i) => app.approve_invoice(i),
                        None => app.approve_keysend(hash, amt),
                    });
                    match res {
                        Ok(true) => 1,
                        Ok(false) => 0,
                        Err(p) => {
                            self.last_detail = format!("PANIC {}", p);
                            -1
                        }
                    }
                } else {
                    unreachable!()
                }
            }
            ("approver", "Restart") => {
                // the documented way: get_state() is persisted, load_from_state() restores
                if let Sys::Approver { app, clock, spec } = &mut self.sys {
                    clock.set(Duration::from_secs(now));
                    let state = app.control().get_state();
                    let text = serde_json::to_string(&state).expect("serialize state");
                    let back: (u64, Vec<u64>) = serde_json::from_str(&text).expect("deserialize state");
                    let c = VelocityControl::load_from_state(*spec, back);
                    *app = VelocityApprover::new(clock.clone(), c, NegativeApprover());
                    1
                } else {
                    unreachable!()
                }
            }
            ("node", "AddInvoice") | ("node", "ProposeInvoice") => {
                let inv = self.invoice(amt, now, r.h);
                let direct = r.op == "AddInvoice";
                if let Sys::Node { fx } = &self.sys {
                    fx.clock.set(Duration::from_secs(now));
                    // Propose*: the protocol handler's path - Approve::handle_proposed_invoice
                    // (has_payment shortcut, an approver that approves, then Node::add_invoice)
                    let res = catch(|| {
                        if direct {
                            fx.node.add_invoice(inv)
                        } else {
                            PositiveApprover().handle_proposed_invoice(&fx.node, inv)
                        }
                    });
                    match res {
                        Ok(Ok(true)) => 1,
                        Ok(Ok(false)) => 0,
                        Ok(Err(st)) => {
                            self.last_detail = format!("{:?}", st);
                            -1
                        }
                        Err(p) => {
                            self.last_detail = format!("PANIC {}", p);
                            -1
                        }
                    }
                } else {
                    unreachable!()
                }
            }
            ("node", "AddKeysend") | ("node", "ProposeKeysend") => {
                let hash = PaymentHash(self.pre_for(false, r.h));
                let payee = self.payee;
                let direct = r.op == "AddKeysend";
                if let Sys::Node { fx } = &self.sys {
                    fx.clock.set(Duration::from_secs(now));
                    let res = catch(|| {
                        if direct {
                            fx.node.add_keysend(payee, hash, amt)
                        } else {
                            PositiveApprover().handle_proposed_keysend(&fx.node, payee, hash, amt)
                        }
                    });
                    match res {
                        Ok(Ok(true)) => 1,
                        Ok(Ok(false)) => 0,
                        Ok(Err(st)) => {
                            self.last_detail = format!("{:?}", st);
                            -1
                        }
                        Err(p) => {
                            self.last_detail = format!("PANIC {}", p);
                            -1
                        }
                    }
                } else {
                    unreachable!()
                }
            }
            ("node", "Onchain") => {
                // a wallet transaction whose whole input value is non-beneficial (= fee)
                let tx = Transaction {
                    version: Version::TWO,
                    lock_time: LockTime::ZERO,
                    input: vec![TxIn {
                        previous_output: OutPoint { txid: Txid::all_zeros(), vout: 0 },
                        script_sig: ScriptBuf::new(),
                        sequence: Sequence::ZERO,
                        witness: Witness::default(),
                    }],
                    output: vec![],
                };
                let txo = TxOut { value: Amount::from_sat(amt / 1000), script_pubkey: ScriptBuf::new() };
                if let Sys::Node { fx } = &self.sys {
                    fx.clock.set(Duration::from_secs(now));
                    let res = catch(|| {
                        fx.node.check_onchain_tx(&tx, &[], &[txo.clone()], &[None], &[DerivationPath::master()])
                    });
                    match res {
                        Ok(Ok(())) => 1,
                        Ok(Err(ve)) => {
                            let msg = format!("{}", ve);
                            self.last_detail = msg.clone();
                            if msg.contains("fee velocity would be exceeded") {
                                0
                            } else {
                                -1
                            }
                        }
                        Err(p) => {
                            self.last_detail = format!("PANIC {}", p);
                            -1
                        }
                    }
                } else {
                    unreachable!()
                }
            }
            ("node", "Restart") => {
                let restored = if let Sys::Node { fx } = &self.sys {
                    fx.clock.set(Duration::from_secs(now));
                    fx.restart_copy()
                } else {
                    unreachable!()
                };
                match restored {
                    Ok(nfx) => {
                        self.sys = Sys::Node { fx: nfx };
                        1
                    }
                    Err(e) => {
                        self.last_detail = e;
                        -1
                    }
                }
            }
            (l, o) => panic!("request {} not defined at level {}", o, l),
        }
    }

    /// the controls in memory and in the store
    fn snap(&self) -> Snap {
        let now = self.now_real();
        match &self.sys {
            Sys::Struct { ctl, .. } => {
                Snap { now, pay: ctl.clone(), fee: ctl.clone(), dpay: ctl.clone(), dfee: ctl.clone(), inv: vec![], dinv: vec![] }
            }
            Sys::Approver { app, .. } => {
                let c = app.control();
                Snap { now, pay: c.clone(), fee: c.clone(), dpay: c.clone(), dfee: c, inv: vec![], dinv: vec![] }
            }
            Sys::Node { fx } => {
                let named = self.named_hashes();
                let (pay, fee, inv) = {
                    let st = fx.node.get_state();
                    let inv = named
                        .iter()
                        .filter_map(|h| st.invoices.get(h).map(|p| (*h, p.clone())))
                        .collect();
                    (st.velocity_control.clone(), st.fee_velocity_control.clone(), inv)
                };
                let nodes = fx.store.get_nodes().expect("get_nodes");
                let entry = &nodes.first().expect("stored node").1;
                let dinv = named
                    .iter()
                    .filter_map(|h| entry.state.invoices.get(h).map(|p| (*h, p.clone())))
                    .collect();
                Snap {
                    now,
                    pay,
                    fee,
                    dpay: entry.state.velocity_control.clone(),
                    dfee: entry.state.fee_velocity_control.clone(),
                    inv,
                    dinv,
                }
            }
        }
    }

    /// registered amount per named payment (model units), -1: not registered
    fn inv_json(&self, inv: &Vec<(PaymentHash, PaymentState)>) -> Vec<i64> {
        self.named_hashes()
            .iter()
            .map(|h| match inv.iter().find(|(k, _)| k == h) {
                Some((_, p)) => dec_amt(p.amount_msat, self.case.unit),
                None => -1,
            })
            .collect()
    }

    /// projection onto the variables of Velocity.tla (model units)
    fn project(&self, s: &Snap) -> Value {
        let c = &self.case;
        let now = c.dec_time(s.now);
        match &self.sys {
            Sys::Node { .. } => json!({"now": now, "pay": c.ctl_json(&s.pay), "fee": c.ctl_json(&s.fee),
                                       "dpay": c.ctl_json(&s.dpay), "dfee": c.ctl_json(&s.dfee),
                                       "inv": self.inv_json(&s.inv), "dinv": self.inv_json(&s.dinv)}),
            _ => json!({"now": now, "pay": c.ctl_json(&s.pay), "fee": c.fresh_json(&c.fee),
                        "dpay": c.ctl_json(&s.dpay), "dfee": c.fresh_json(&c.fee),
                        "inv": Vec::<i64>::new(), "dinv": Vec::<i64>::new()}),
        }
    }

    /// put the real system into a previously observed state (exploration only).  At node level
    /// only the `invoices` entries of the NAMED payment hashes are restored (memory and store);
    /// entries of fresh hashes are never looked up again.
    fn restore(&mut self, s: &Snap) {
        match &mut self.sys {
            Sys::Struct { ctl, now } => {
                *ctl = s.pay.clone();
                *now = s.now;
            }
            Sys::Approver { app, clock, .. } => {
                app.set_control(s.pay.clone());
                clock.set(Duration::from_secs(s.now));
            }
            Sys::Node { fx } => {
                let id = fx.node.get_id();
                let mut st = fx.node.get_state();
                st.invoices.clear();
                st.issued_invoices.clear();
                st.payments.clear();
                for (h, p) in s.dinv.iter() {
                    st.invoices.insert(*h, p.clone());
                }
                st.velocity_control = s.dpay.clone();
                st.fee_velocity_control = s.dfee.clone();
                fx.store.update_node(&id, &*st).expect("update_node");
                st.invoices.clear();
                for (h, p) in s.inv.iter() {
                    st.invoices.insert(*h, p.clone());
                    st.payments.entry(*h).or_insert_with(RoutedPayment::new);
                }
                st.velocity_control = s.pay.clone();
                st.fee_velocity_control = s.fee.clone();
                drop(st);
                fx.clock.set(Duration::from_secs(s.now));
            }
        }
    }
}

/// Exploration key: the state up to a translation of all times by a common multiple of the
/// bucket lengths and up to the lazy rotation of the buckets (a bucket is named by its start
/// second relative to that base; expired and empty buckets are left out).
fn state_key(case: &Case, proj: &Value) -> String {
    let now = proj["now"].as_i64().unwrap();
    let g = lcm(case.pay.b, case.fee.b) as i64;
    let base = now - now.rem_euclid(g);
    let mut parts = vec![format!("{}", now - base)];
    for (name, p) in [("pay", &case.pay), ("fee", &case.fee), ("dpay", &case.pay), ("dfee", &case.fee)] {
        let start = proj[name]["start"].as_i64().unwrap();
        let b = p.b as i64;
        let cur = now - now.rem_euclid(b);
        let mut ent = vec![];
        for (i, v) in proj[name]["b"].as_array().unwrap().iter().enumerate() {
            let v = v.as_i64().unwrap();
            let bs = start - (i as i64) * b;
            if v != 0 && (cur - bs) < (p.k as i64) * b {
                ent.push(format!("{}:{}", bs - base, v));
            }
        }
        parts.push(ent.join(","));
    }
    parts.push(format!("{}", proj["inv"]));
    parts.push(format!("{}", proj["dinv"]));
    parts.join("|")
}

/// exploration bound: a state is not expanded when a bucket holds more than the case's `cap`
/// (for a near-u64::MAX limit: a small value above cap - small amounts would pile up for ever;
/// for a small limit: any value above cap, which only a broken implementation produces)
fn within_cap(case: &Case, proj: &Value) -> bool {
    for (name, p) in [("pay", &case.pay), ("fee", &case.fee), ("dpay", &case.pay), ("dfee", &case.fee)] {
        let top_limit = p.l > TOP / 2;
        for v in proj[name]["b"].as_array().unwrap() {
            let v = v.as_i64().unwrap();
            let is_top = v >= (TOP / 2) as i64;
            if v > case.cap as i64 && !(top_limit && is_top) {
                return false;
            }
        }
    }
    true
}

fn lcm(a: u64, b: u64) -> u64 {
    let (mut x, mut y) = (a, b);
    while y != 0 {
        let t = x % y;
        x = y;
        y = t;
    }
    a / x * b
}

struct Row {
    pre: Value,
    expanded: bool,
    edges: Vec<(i64, usize, i64)>,
}

fn explore_case(case: &Case, max_states: usize) -> (Vec<Row>, Vec<Value>, f64) {
    let t0 = std::time::Instant::now();
    let mut w = World::new(case);
    let s0 = w.snap();
    let p0 = w.project(&s0);
    let mut seen: HashMap<String, usize> = HashMap::new();
    let mut snaps: Vec<Snap> = vec![s0];
    let mut rows: Vec<Row> = vec![Row { pre: p0.clone(), expanded: false, edges: vec![] }];
    let mut details = vec![];
    seen.insert(state_key(case, &p0), 0);
    let mut queue: VecDeque<usize> = VecDeque::new();
    queue.push_back(0);
    while let Some(i) = queue.pop_front() {
        let pre = snaps[i].clone();
        if !within_cap(case, &rows[i].pre) {
            continue;
        }
        let mut edges = vec![];
        for (ri, r) in case.reqs.iter().enumerate() {
            w.restore(&pre);
            let ok = w.apply(r);
            let post = w.snap();
            let pp = w.project(&post);
            if ok < 0 {
                details.push(json!({"case": case.id, "node": i, "req": {"op": r.op, "dt": r.dt, "a": r.a, "h": r.h},
                                    "detail": w.last_detail}));
            }
            let key = state_key(case, &pp);
            let to = match seen.get(&key) {
                Some(j) => *j as i64,
                None if rows.len() < max_states => {
                    let j = rows.len();
                    seen.insert(key, j);
                    snaps.push(post);
                    rows.push(Row { pre: pp, expanded: false, edges: vec![] });
                    queue.push_back(j);
                    j as i64
                }
                None => -1,
            };
            edges.push((to, ri + 1, ok));
        }
        rows[i].expanded = true;
        rows[i].edges = edges;
    }
    (rows, details, t0.elapsed().as_secs_f64())
}

fn explore() {
    let cases = load_cases(&arg("cases").unwrap());
    let out = arg("out").unwrap();
    let threads = arg_u64("threads", 8) as usize;
    let max_states = arg_u64("max-states", 20_000) as usize;
    let n = cases.len();
    let cases = Arc::new(cases);
    let next = Arc::new(std::sync::Mutex::new(0usize));
    let results: Arc<std::sync::Mutex<Vec<Option<(Vec<Row>, Vec<Value>, f64)>>>> =
        Arc::new(std::sync::Mutex::new((0..n).map(|_| None).collect()));
    let mut handles = vec![];
    for _ in 0..threads.min(n).max(1) {
        let cases = cases.clone();
        let next = next.clone();
        let results = results.clone();
        handles.push(std::thread::spawn(move || loop {
            let i = {
                let mut g = next.lock().unwrap();
                let i = *g;
                *g += 1;
                i
            };
            if i >= cases.len() {
                break;
            }
            let r = explore_case(&cases[i], max_states);
            results.lock().unwrap()[i] = Some(r);
        }));
    }
    for h in handles {
        h.join().expect("explorer thread");
    }
    let mut o = NdJson::create(&out);
    let mut od = NdJson::create(&arg_or("details", &format!("{}.details", out)));
    let mut offset = 0i64;
    let mut per_case = vec![];
    let mut truncated = false;
    let mut tot_edges = 0u64;
    let mut results = results.lock().unwrap();
    for (ci, slot) in results.iter_mut().enumerate() {
        let (rows, details, secs) = slot.take().expect("case result");
        let mut nedges = 0u64;
        let mut counts = [0u64; 3];
        for (i, row) in rows.iter().enumerate() {
            let e: Vec<Value> = row
                .edges
                .iter()
                .map(|(to, ri, ok)| {
                    counts[(*ok + 1) as usize] += 1;
                    if *to < 0 {
                        truncated = true;
                    }
                    json!([if *to >= 0 { *to + offset } else { -1 }, ri, ok])
                })
                .collect();
            nedges += e.len() as u64;
            o.put(&json!({"id": offset + i as i64, "c": ci + 1, "root": if i == 0 { 1 } else { 0 },
                          "x": row.expanded, "pre": row.pre, "e": e}));
        }
        for d in details.iter() {
            od.put(d);
        }
        per_case.push(json!({"id": cases[ci].id, "states": rows.len(), "edges": nedges, "approved": counts[2],
                             "refused": counts[1], "errors": counts[0], "wall_s": (secs * 10.0).round() / 10.0}));
        offset += rows.len() as i64;
        tot_edges += nedges;
    }
    o.finish();
    od.finish();
    println!("{}", json!({"states": offset, "edges": tot_edges, "truncated": truncated, "cases": per_case}));
}

/// replay request sequences from a fresh signer, full fidelity (no snapshot / restore)
fn run_seqs() {
    let cases = load_cases(&arg("cases").unwrap());
    let seqs = std::fs::read_to_string(arg("seqs").unwrap()).unwrap();
    let mut o = NdJson::create(&arg("out").unwrap());
    let mut nseq = 0u64;
    for line in seqs.lines() {
        if line.trim().is_empty() {
            continue;
        }
        let v: Value = serde_json::from_str(line).unwrap();
        let ci = v["c"].as_u64().unwrap() as usize;
        let case = &cases[ci - 1];
        let mut w = World::new(case);
        let mut cur = w.project(&w.snap());
        for (i, rv) in v["reqs"].as_array().unwrap().iter().enumerate() {
            let r = req_of(rv);
            let ok = w.apply(&r);
            let post = w.project(&w.snap());
            o.put(&json!({"seq": nseq, "step": i, "c": ci, "pre": cur, "req": rv, "ok": ok, "post": post,
                          "detail": w.last_detail}));
            cur = post;
        }
        nseq += 1;
    }
    let n = o.lines;
    o.finish();
    println!("{}", json!({"sequences": nseq, "steps": n}));
}

fn main() {
    quiet_panics();
    let cmd = std::env::args().nth(1).unwrap_or_default();
    match cmd.as_str() {
        "explore" => explore(),
        "run" => run_seqs(),
        _ => {
            eprintln!("usage: velocity explore|run ...");
            std::process::exit(2);
        }
    }
}
