//! Key-version-value store explorer (legs B and C for C16).
//!
//!   kvv explore-pair  --alphabet A.json --maxver N --out DIR [--threads 8]
//!        exhaustive breadth-first exploration of the REAL MemoryKVVStore and RedbKVVStore driven
//!        in lockstep: every request of the alphabet is applied to every discovered pair of
//!        concrete states; one ndjson row per state with its outgoing edges
//!        [to, request index, response index (memory), response index (redb)].
//!        ("Reopen" closes and reopens the redb database; "Crash" copies the database file while the
//!        store is open and continues on the copy: a reopen point without clean shutdown.)
//!   kvv explore-cloud --alphabet A.json --maxver N --maxw W --out DIR [--threads 8]
//!        the same for CloudKVVStore<MemoryKVVStore>; edges [to, request index, response index].
//!   kvv run --alphabet A.json --seqs seqs.ndjson --out FILE
//!        replays request sequences ({"kind": "pair"|"cloud", "reqs": [...]}) from the initial
//!        state and records one step per request (TLC-simulated behaviours, replay files).
//!
//! No property logic here: only requests, responses and observations through the public
//! KVVStore API (get_prefix(""), get, get_version) are recorded; TLC judges them.
//!
//! Restoring a concrete state: the stores cannot be cloned, so a state is re-created by
//! re-executing its request path on a fresh store.  (Shortcut for the disk store when its
//! observation shows cache == table: fresh store + one put_batch of the dump, verified by
//! observing again.)  Probes that may disturb a cloud store (enter / prepare, calls outside a
//! transaction panic and poison its mutex) are made on throw-away copies built the same way.
use std::collections::{HashMap, VecDeque};
use std::sync::{Arc, Condvar, Mutex};

use lightning_signer::persist::Error;
use serde_json::{json, Value};
use vls_persist::kvv::cloud::CloudKVVStore;
use vls_persist::kvv::memory::MemoryKVVStore;
use vls_persist::kvv::redb::RedbKVVStore;
use vls_persist::kvv::{KVVStore, KVV};
use vls_verif_harness::*;

const MEM_SIGNER_ID: [u8; 16] = [0x53; 16];
const POOL_MAX: usize = 1000;
const POOL_PER_STATE: usize = 400;

type Entry = (String, i64, String);

fn show_value(x: &[u8]) -> String {
    if x == MEM_SIGNER_ID {
        "S".to_string()
    } else {
        String::from_utf8_lossy(x).to_string()
    }
}

fn entries_json(es: &[Entry]) -> Value {
    Value::Array(es.iter().map(|(k, v, x)| json!([k, v, x])).collect())
}

/// response: [code, entries]   code = ok | vm | err:<kind> | panic
fn resp_json(code: &str, es: &[Entry]) -> Value {
    json!([code, entries_json(es)])
}

fn err_code(e: &Error) -> String {
    match e {
        Error::VersionMismatch => "vm".to_string(),
        Error::Unavailable(_) => "err:unavailable".to_string(),
        Error::NotFound(_) => "err:notfound".to_string(),
        Error::AlreadyExists(_) => "err:exists".to_string(),
        Error::Internal(_) => "err:internal".to_string(),
        Error::SerdeError(_) => "err:serde".to_string(),
    }
}

fn kvv_of(e: &Value) -> KVV {
    KVV(
        e["k"].as_str().unwrap().to_string(),
        (e["v"].as_u64().unwrap(), e["x"].as_str().unwrap().as_bytes().to_vec()),
    )
}

/// one KVVStore call (panics are data)
fn apply_store<S: KVVStore>(s: &S, r: &Value) -> Value {
    let op = r["op"].as_str().unwrap();
    let key = r["k"].as_str().unwrap_or("");
    let unit = |x: Result<(), Error>| match x {
        Ok(()) => resp_json("ok", &[]),
        Err(e) => resp_json(&err_code(&e), &[]),
    };
    let res = catch(|| match op {
        "Put" => unit(s.put(key, r["x"].as_str().unwrap().as_bytes().to_vec())),
        "Delete" => unit(s.delete(key)),
        "PutV" => unit(s.put_with_version(
            key,
            r["v"].as_u64().unwrap(),
            r["x"].as_str().unwrap().as_bytes().to_vec(),
        )),
        "Batch" => unit(s.put_batch(r["es"].as_array().unwrap().iter().map(kvv_of).collect())),
        "Get" => match s.get(key) {
            Ok(Some((v, x))) => resp_json("ok", &[(key.to_string(), v as i64, show_value(&x))]),
            Ok(None) => resp_json("ok", &[]),
            Err(e) => resp_json(&err_code(&e), &[]),
        },
        "GetVersion" => match s.get_version(key) {
            Ok(Some(v)) => resp_json("ok", &[(key.to_string(), v as i64, "?".to_string())]),
            Ok(None) => resp_json("ok", &[]),
            Err(e) => resp_json(&err_code(&e), &[]),
        },
        "GetPrefix" => match s.get_prefix(r["p"].as_str().unwrap()) {
            Ok(it) => {
                let es: Vec<Entry> = it.map(|kvv| (kvv.0, kvv.1 .0 as i64, show_value(&kvv.1 .1))).collect();
                resp_json("ok", &es)
            }
            Err(e) => resp_json(&err_code(&e), &[]),
        },
        "Enter" => unit(s.enter()),
        "Prepare" => {
            let m = s.prepare();
            let es: Vec<Entry> =
                m.into_inner().into_iter().map(|(k, (v, x))| (k, v as i64, show_value(&x))).collect();
            resp_json("ok", &es)
        }
        "Commit" => unit(s.commit()),
        _ => resp_json("err:harness-unknown-op", &[]),
    });
    match res {
        Ok(v) => v,
        Err(_) => resp_json("panic", &[]),
    }
}

/// observation of a memory / disk store: the full dump and get_version of every key
fn observe_store<S: KVVStore>(s: &S, keys: &[String]) -> Value {
    let t = catch(|| match s.get_prefix("") {
        Ok(it) => it.map(|kvv| (kvv.0, kvv.1 .0 as i64, show_value(&kvv.1 .1))).collect::<Vec<Entry>>(),
        Err(e) => vec![("!".to_string() + &err_code(&e), -2, String::new())],
    })
    .unwrap_or_else(|_| vec![("!panic".to_string(), -2, String::new())]);
    let mut c = vec![];
    for k in keys {
        let v = catch(|| match s.get_version(k) {
            Ok(Some(v)) => v as i64,
            Ok(None) => -1,
            Err(_) => -2,
        })
        .unwrap_or(-3);
        c.push(json!([k, v]));
    }
    json!({"t": entries_json(&t), "c": c})
}

fn max_version(obs_t: &Value) -> i64 {
    obs_t.as_array().unwrap().iter().map(|e| e[1].as_i64().unwrap()).max().unwrap_or(-1)
}

// ---------------------------------------------------------------------------------------------
// disk store instance: a private directory (tmpfs when available), reopen = drop + open again

/// all database directories of this process live under <tmpfs or temp dir>/vkvv-<pid>/
fn scratch_base() -> std::path::PathBuf {
    let shm = std::path::Path::new("/dev/shm");
    if shm.is_dir() {
        shm.to_path_buf()
    } else {
        std::env::temp_dir()
    }
}

fn scratch_root() -> std::path::PathBuf {
    let p = scratch_base().join(format!("vkvv-{}", std::process::id()));
    std::fs::create_dir_all(&p).expect("scratch root");
    p
}

/// remove what killed runs left behind (directories of processes that no longer exist)
fn cleanup_stale() {
    if let Ok(rd) = std::fs::read_dir(scratch_base()) {
        for e in rd.flatten() {
            let name = e.file_name().to_string_lossy().to_string();
            if let Some(pid) = name.strip_prefix("vkvv-") {
                let alive = pid.parse::<u32>().map(|p| std::path::Path::new(&format!("/proc/{}", p)).exists());
                if alive != Ok(true) {
                    let _ = std::fs::remove_dir_all(e.path());
                }
            }
        }
    }
}

fn cleanup_own() {
    let _ = std::fs::remove_dir_all(scratch_base().join(format!("vkvv-{}", std::process::id())));
}

struct RedbInst {
    dir: tempfile::TempDir,
    store: Option<RedbKVVStore>,
}

impl RedbInst {
    fn new() -> RedbInst {
        let dir = tempfile::Builder::new().prefix("db-").tempdir_in(scratch_root()).expect("tempdir");
        let store = Some(RedbKVVStore::new(dir.path()));
        RedbInst { dir, store }
    }
    fn s(&self) -> &RedbKVVStore {
        self.store.as_ref().unwrap()
    }
    fn reopen(&mut self) -> Value {
        self.store = None; // closes the database file
        let p = self.dir.path().to_path_buf();
        match catch(|| RedbKVVStore::new(&p)) {
            Ok(s) => {
                self.store = Some(s);
                resp_json("ok", &[])
            }
            Err(_) => {
                // keep something usable so that the observation can be taken
                self.store = Some(RedbKVVStore::new(self.dir.path()));
                resp_json("panic", &[])
            }
        }
    }
    /// crash point: the database file is copied as it is on disk while the store is still open
    /// (no clean shutdown), and the store continues on the copy
    fn crash_reopen(&mut self) -> Value {
        let nd = tempfile::Builder::new().prefix("db-").tempdir_in(scratch_root()).expect("tempdir");
        let copied = std::fs::copy(self.dir.path().join("redb"), nd.path().join("redb")).is_ok();
        self.store = None;
        if copied {
            self.dir = nd;
        }
        let p = self.dir.path().to_path_buf();
        match catch(|| RedbKVVStore::new(&p)) {
            Ok(s) if copied => {
                self.store = Some(s);
                resp_json("ok", &[])
            }
            Ok(s) => {
                self.store = Some(s);
                resp_json("err:harness-copy", &[])
            }
            Err(_) => {
                let fresh = tempfile::Builder::new().prefix("db-").tempdir_in(scratch_root()).expect("tempdir");
                self.store = Some(RedbKVVStore::new(fresh.path()));
                self.dir = fresh;
                resp_json("panic", &[])
            }
        }
    }
    fn apply(&mut self, r: &Value) -> Value {
        if r["op"] == "Reopen" {
            self.reopen()
        } else if r["op"] == "Crash" {
            self.crash_reopen()
        } else {
            apply_store(self.s(), r)
        }
    }
}

fn mem_apply(s: &MemoryKVVStore, r: &Value) -> Value {
    if r["op"] == "Reopen" || r["op"] == "Crash" {
        resp_json("ok", &[])
    } else {
        apply_store(s, r)
    }
}

fn mem_by_path(alphabet: &[Value], path: &[u32]) -> MemoryKVVStore {
    let s = MemoryKVVStore::new(MEM_SIGNER_ID);
    for ri in path {
        mem_apply(&s, &alphabet[*ri as usize]);
    }
    s
}

fn redb_by_path(alphabet: &[Value], path: &[u32]) -> RedbInst {
    let mut s = RedbInst::new();
    for ri in path {
        s.apply(&alphabet[*ri as usize]);
    }
    s
}

/// the disk store in the state whose observation is `obs` (reached by `path`)
fn redb_restore(alphabet: &[Value], path: &[u32], obs: &Value, keys: &[String]) -> RedbInst {
    let t = obs["t"].as_array().unwrap();
    let clean = obs["c"].as_array().unwrap().iter().all(|kv| {
        let want = t.iter().find(|e| e[0] == kv[0]).map(|e| e[1].as_i64().unwrap()).unwrap_or(-1);
        kv[1].as_i64().unwrap() == want
    }) && t.iter().all(|e| e[1].as_i64().unwrap() >= 0 && e[2] != "S");
    if clean && path.len() > 1 {
        let s = RedbInst::new();
        let kvvs: Vec<KVV> = t
            .iter()
            .map(|e| {
                KVV(
                    e[0].as_str().unwrap().to_string(),
                    (e[1].as_u64().unwrap(), e[2].as_str().unwrap().as_bytes().to_vec()),
                )
            })
            .collect();
        let ok = catch(|| s.s().put_batch(kvvs).is_ok()).unwrap_or(false);
        if ok && &observe_store(s.s(), keys) == obs {
            return s;
        }
    }
    redb_by_path(alphabet, path)
}

// ---------------------------------------------------------------------------------------------
// cloud store

type Cloud = CloudKVVStore<MemoryKVVStore>;

fn cloud_by_path(alphabet: &[Value], path: &[u32]) -> Cloud {
    let s = CloudKVVStore::new(MemoryKVVStore::new(MEM_SIGNER_ID));
    for ri in path {
        apply_store(&s, &alphabet[*ri as usize]);
    }
    s
}

/// observation of the cloud store reached by `path`: local dump, whether enter() is accepted
/// (on a copy), get(k) of every key, prepare() (on a copy)
fn observe_cloud(main: &Cloud, alphabet: &[Value], path: &[u32], keys: &[String]) -> Value {
    let loc = catch(|| match main.get_prefix("") {
        Ok(it) => it.map(|kvv| (kvv.0, kvv.1 .0 as i64, show_value(&kvv.1 .1))).collect::<Vec<Entry>>(),
        Err(e) => vec![("!".to_string() + &err_code(&e), -2, String::new())],
    })
    .unwrap_or_else(|_| vec![("!panic".to_string(), -2, String::new())]);
    let ent = {
        let c = cloud_by_path(alphabet, path);
        apply_store(&c, &json!({"op": "Enter"}))[0] == "ok"
    };
    let mut view_ok = false;
    let mut view: Vec<Entry> = vec![];
    let mut prep = json!({"ok": false, "e": []});
    if !ent {
        // open or dead: get() is read-only in the first case and changes nothing in the second
        view_ok = true;
        for k in keys {
            match catch(|| main.get(k)) {
                Ok(Ok(Some((v, x)))) => view.push((k.clone(), v as i64, show_value(&x))),
                Ok(Ok(None)) => {}
                _ => {
                    view_ok = false;
                    view.clear();
                    break;
                }
            }
        }
        if view_ok {
            let c = cloud_by_path(alphabet, path);
            let r = apply_store(&c, &json!({"op": "Prepare"}));
            prep = json!({"ok": r[0] == "ok", "e": r[1]});
        }
    }
    json!({"loc": entries_json(&loc), "ent": ent, "view": {"ok": view_ok, "e": entries_json(&view)}, "prep": prep})
}

// ---------------------------------------------------------------------------------------------
// exploration

struct Shared {
    /// disk-store instances left over by executed edges, by digest of their observation: the
    /// expansion of the state they are in takes them instead of building a fresh database
    pool: HashMap<String, Vec<RedbInst>>,
    pooled: usize,
    queue: VecDeque<(u64, Arc<NodeData>)>,
    seen: HashMap<String, u64>,
    active: usize,
    states: u64,
    resps: HashMap<String, u64>,
    resp_list: Vec<Value>,
}

struct NodeData {
    path: Vec<u32>,
    par: (i64, u64),
    obs: Value,
}

fn intern(shared: &Mutex<Shared>, r: &Value) -> u64 {
    let k = r.to_string();
    let mut g = shared.lock().unwrap();
    if let Some(i) = g.resps.get(&k) {
        return *i;
    }
    g.resp_list.push(r.clone());
    let i = g.resp_list.len() as u64; // 1-based for TLA+
    g.resps.insert(k, i);
    i
}

fn load_alphabet() -> (Vec<String>, Vec<Value>) {
    let a: Value = serde_json::from_str(&std::fs::read_to_string(arg("alphabet").unwrap()).unwrap()).unwrap();
    let keys = a["keys"].as_array().unwrap().iter().map(|k| k.as_str().unwrap().to_string()).collect();
    (keys, a["reqs"].as_array().unwrap().clone())
}

fn explore(kind: &'static str) {
    let (keys, alphabet) = load_alphabet();
    let maxver = arg_u64("maxver", 2) as i64;
    let maxw = arg_u64("maxw", 1) as i64;
    let threads = arg_u64("threads", 8) as usize;
    // a faulty store can have far more reachable states than a correct one: beyond the cap new
    // states are not numbered (edge target -1) and the run is reported as truncated
    let max_states = arg_u64("max-states", 100_000);
    let out = arg("out").unwrap();
    std::fs::create_dir_all(&out).unwrap();
    let keys = Arc::new(keys);
    let alphabet = Arc::new(alphabet);

    let shared = Arc::new((
        Mutex::new(Shared {
            pool: HashMap::new(),
            pooled: 0,
            queue: VecDeque::new(),
            seen: HashMap::new(),
            active: 0,
            states: 0,
            resps: HashMap::new(),
            resp_list: vec![],
        }),
        Condvar::new(),
    ));
    {
        let obs = if kind == "pair" {
            let m = MemoryKVVStore::new(MEM_SIGNER_ID);
            let r = RedbInst::new();
            json!({"m": observe_store(&m, &keys), "r": observe_store(r.s(), &keys)})
        } else {
            let c = cloud_by_path(&alphabet, &[]);
            observe_cloud(&c, &alphabet, &[], &keys)
        };
        let mut g = shared.0.lock().unwrap();
        g.seen.insert(digest(&obs), 0);
        g.queue.push_back((0, Arc::new(NodeData { path: vec![], par: (-1, 0), obs })));
        g.states = 1;
    }
    let mut handles = vec![];
    for w in 0..threads {
        let shared = shared.clone();
        let alphabet = alphabet.clone();
        let keys = keys.clone();
        let out = out.clone();
        handles.push(std::thread::spawn(move || {
            let mut o = NdJson::create(&format!("{}/edges-{}.ndjson", out, w));
            let mut nedges = 0u64;
            let mut rebuilds = 0u64;
            loop {
                let item = {
                    let (m, cv) = (&shared.0, &shared.1);
                    let mut g = m.lock().unwrap();
                    loop {
                        if let Some(s) = g.queue.pop_front() {
                            g.active += 1;
                            break Some(s);
                        }
                        if g.active == 0 {
                            cv.notify_all();
                            break None;
                        }
                        g = cv.wait(g).unwrap();
                    }
                };
                let (id, nd) = match item {
                    Some(s) => s,
                    None => break,
                };
                let expand = if kind == "pair" {
                    // (states in which the two stores no longer give the same observation are recorded
                    // but not expanded: from there the lockstep product only multiplies states)
                    max_version(&nd.obs["m"]["t"]) <= maxver
                        && max_version(&nd.obs["r"]["t"]) <= maxver
                        && nd.obs["m"] == nd.obs["r"]
                } else {
                    let user_max = |es: &Value| {
                        es.as_array()
                            .unwrap()
                            .iter()
                            .filter(|e| e[0] != "_WRITER")
                            .map(|e| e[1].as_i64().unwrap())
                            .max()
                            .unwrap_or(-1)
                    };
                    let w = nd.obs["loc"]
                        .as_array()
                        .unwrap()
                        .iter()
                        .find(|e| e[0] == "_WRITER")
                        .map(|e| e[1].as_i64().unwrap())
                        .unwrap_or(-1);
                    user_max(&nd.obs["loc"]) <= maxver && user_max(&nd.obs["view"]["e"]) <= maxver && w < maxw
                };
                let mut edges: Vec<Value> = vec![];
                if expand {
                    // instances believed to be in this node's state (None = must be rebuilt)
                    let mut mem: Option<MemoryKVVStore> = None;
                    let mut redb: Option<RedbInst> = None;
                    let rkey = if kind == "pair" { digest(&nd.obs["r"]) } else { String::new() };
                    for (ri, r) in alphabet.iter().enumerate() {
                        let mut path = nd.path.clone();
                        path.push(ri as u32);
                        let (post, resp_ids): (Value, Vec<u64>) = if kind == "pair" {
                            let m = mem.take().unwrap_or_else(|| mem_by_path(&alphabet, &nd.path));
                            let mut rd = redb.take().unwrap_or_else(|| {
                                let pooled = {
                                    let mut g = shared.0.lock().unwrap();
                                    let x = g.pool.get_mut(&rkey).and_then(|v| v.pop());
                                    if x.is_some() {
                                        g.pooled -= 1;
                                    }
                                    x
                                };
                                pooled.unwrap_or_else(|| {
                                    rebuilds += 1;
                                    redb_restore(&alphabet, &nd.path, &nd.obs["r"], &keys)
                                })
                            });
                            let rm = mem_apply(&m, r);
                            let rr = rd.apply(r);
                            let om = observe_store(&m, &keys);
                            let or = observe_store(rd.s(), &keys);
                            // an instance whose observation is unchanged is still in the node's state
                            if om == nd.obs["m"] {
                                mem = Some(m);
                            }
                            if or == nd.obs["r"] {
                                redb = Some(rd);
                            } else if max_version(&or["t"]) <= maxver {
                                // in the state of another node that will be expanded: leave it for that node
                                let k = digest(&or);
                                let mut g = shared.0.lock().unwrap();
                                if g.pooled < POOL_MAX {
                                    let v = g.pool.entry(k).or_default();
                                    if v.len() < POOL_PER_STATE {
                                        v.push(rd);
                                        g.pooled += 1;
                                    }
                                }
                            }
                            (json!({"m": om, "r": or}), vec![intern(&shared.0, &rm), intern(&shared.0, &rr)])
                        } else {
                            let c = cloud_by_path(&alphabet, &nd.path);
                            let rc = apply_store(&c, r);
                            let oc = observe_cloud(&c, &alphabet, &path, &keys);
                            (oc, vec![intern(&shared.0, &rc)])
                        };
                        let key = digest(&post);
                        let to: i64 = {
                            let mut g = shared.0.lock().unwrap();
                            match g.seen.get(&key) {
                                Some(i) => *i as i64,
                                None if g.states >= max_states => -1,
                                None => {
                                    let i = g.states;
                                    g.seen.insert(key, i);
                                    g.states += 1;
                                    g.queue.push_back((
                                        i,
                                        Arc::new(NodeData { path, par: (id as i64, ri as u64 + 1), obs: post }),
                                    ));
                                    shared.1.notify_one();
                                    i as i64
                                }
                            }
                        };
                        let mut e = vec![json!(to), json!(ri + 1)];
                        e.extend(resp_ids.into_iter().map(|x| json!(x)));
                        edges.push(Value::Array(e));
                    }
                }
                nedges += edges.len() as u64;
                let mut row = json!({"id": id, "x": expand, "par": [nd.par.0, nd.par.1], "d": nd.path.len(), "e": edges});
                if kind == "pair" {
                    row["m"] = nd.obs["m"].clone();
                    row["r"] = nd.obs["r"].clone();
                } else {
                    row["o"] = nd.obs.clone();
                }
                o.put(&row);
                let mut g = shared.0.lock().unwrap();
                g.active -= 1;
                if g.queue.is_empty() && g.active == 0 {
                    shared.1.notify_all();
                }
            }
            o.finish();
            (nedges, rebuilds)
        }));
    }
    let mut edges = 0;
    let mut rebuilds = 0;
    for h in handles {
        let (e, rb) = h.join().unwrap();
        edges += e;
        rebuilds += rb;
    }
    let mut g = shared.0.lock().unwrap();
    g.pool.clear();
    std::fs::write(format!("{}/resps.json", out), serde_json::to_string(&g.resp_list).unwrap()).unwrap();
    println!(
        "{}",
        json!({"states": g.states, "edges": edges, "responses": g.resp_list.len(), "redb_rebuilds": rebuilds,
               "truncated": g.states >= max_states})
    );
}

/// replay request sequences from the initial state; one record per step
fn run_seqs() {
    let (keys, _) = load_alphabet();
    let seqs = std::fs::read_to_string(arg("seqs").unwrap()).unwrap();
    let mut o = NdJson::create(&arg("out").unwrap());
    let mut nseq = 0;
    for line in seqs.lines() {
        if line.trim().is_empty() {
            continue;
        }
        let s: Value = serde_json::from_str(line).unwrap();
        let reqs = s["reqs"].as_array().unwrap().clone();
        if s["kind"] == "pair" {
            let m = MemoryKVVStore::new(MEM_SIGNER_ID);
            let mut rd = RedbInst::new();
            let mut pm = observe_store(&m, &keys);
            let mut pr = observe_store(rd.s(), &keys);
            for (i, r) in reqs.iter().enumerate() {
                let rm = mem_apply(&m, r);
                let rr = rd.apply(r);
                let om = observe_store(&m, &keys);
                let or = observe_store(rd.s(), &keys);
                o.put(&json!({"kind": "pair", "seq": nseq, "step": i, "req": r,
                              "m": {"resp": rm, "pre": pm, "post": om},
                              "r": {"resp": rr, "pre": pr, "post": or}}));
                pm = om;
                pr = or;
            }
        } else {
            // the prefix is the path: the request list itself serves as the alphabet
            let c = cloud_by_path(&reqs, &[]);
            let mut pre = observe_cloud(&c, &reqs, &[], &keys);
            let mut path: Vec<u32> = vec![];
            for (i, r) in reqs.iter().enumerate() {
                let rc = apply_store(&c, r);
                path.push(i as u32);
                let post = observe_cloud(&c, &reqs, &path, &keys);
                o.put(&json!({"kind": "cloud", "seq": nseq, "step": i, "req": r,
                              "c": {"resp": rc, "pre": pre, "post": post}}));
                pre = post;
            }
        }
        nseq += 1;
    }
    let n = o.lines;
    o.finish();
    println!("{}", json!({"sequences": nseq, "steps": n}));
}

fn main() {
    quiet_panics();
    cleanup_stale();
    let cmd = std::env::args().nth(1).unwrap_or_default();
    match cmd.as_str() {
        "explore-pair" => explore("pair"),
        "explore-cloud" => explore("cloud"),
        "run" => run_seqs(),
        _ => {
            eprintln!("usage: kvv explore-pair|explore-cloud|run ...");
            std::process::exit(2);
        }
    }
    cleanup_own();
}
