//! Channel enforcement-state explorer (legs B and C for C01, C02, C03, C10, C11).
//!
//!   chan explore --alphabet alphabet.json --n 3 --out DIR [--phase ready|stub] [--threads 16]
//!        exhaustive breadth-first exploration of the REAL implementation's state graph:
//!        every request of the alphabet is applied to every discovered state; one ndjson
//!        record per state with its outgoing edges.  No property logic here: TLC judges.
//!   chan run --seqs seqs.ndjson --out FILE
//!        replays request sequences (TLC-generated behaviours or a replay file) from the
//!        initial state and records one edge per step.
use std::collections::{HashMap, VecDeque};
use std::sync::{Arc, Condvar, Mutex};

use serde_json::{json, Value};
use vls_verif_harness::chanlib::*;
use vls_verif_harness::*;

struct Shared {
    queue: VecDeque<(u64, Arc<Snap>)>,
    seen: HashMap<String, u64>,
    active: usize,
    restart_cache: HashMap<String, Value>,
    states: u64,
}

fn explore() {
    let alphabet: Vec<Value> =
        serde_json::from_str(&std::fs::read_to_string(arg("alphabet").unwrap()).unwrap()).unwrap();
    let nmax = arg_u64("n", 3);
    let phase = arg_or("phase", "ready");
    let threads = arg_u64("threads", 16) as usize;
    let out = arg("out").unwrap();
    // deep-index run: the counterparty side starts after `base` honest cycles
    let base = arg_u64("base", 0);
    BASE.store(base, std::sync::atomic::Ordering::Relaxed);
    let max_states = arg_u64("max-states", 2_000_000);
    std::fs::create_dir_all(&out).unwrap();

    let shared = Arc::new((
        Mutex::new(Shared {
            queue: VecDeque::new(),
            seen: HashMap::new(),
            active: 0,
            restart_cache: HashMap::new(),
            states: 0,
        }),
        Condvar::new(),
    ));
    {
        let ctx = Ctx::new(&phase, nmax);
        let s0 = ctx.snap();
        let d = comp_digests(&s0, ctx.fx.network, &ctx.fx);
        let key = state_key(&d, s0.phase);
        let init = json!({"init": project(&s0, nmax), "key": key});
        std::fs::write(format!("{}/init.json", out), serde_json::to_string(&init).unwrap()).unwrap();
        let mut g = shared.0.lock().unwrap();
        g.seen.insert(key, 0);
        g.queue.push_back((0, Arc::new(s0)));
        g.states = 1;
    }
    let alphabet = Arc::new(alphabet);
    let mut handles = vec![];
    for w in 0..threads {
        let shared = shared.clone();
        let alphabet = alphabet.clone();
        let phase = phase.clone();
        let out = out.clone();
        handles.push(std::thread::spawn(move || {
            let mut ctx = Ctx::new(&phase, nmax);
            let mut o = NdJson::create(&format!("{}/edges-{}.ndjson", out, w));
            let mut od = NdJson::create(&format!("{}/details-{}.ndjson", out, w));
            let mut nedges = 0u64;
            loop {
                let item = {
                    let (m, cv) = (&shared.0, &shared.1);
                    let mut g = m.lock().unwrap();
                    loop {
                        if let Some(s) = g.queue.pop_front() {
                            g.active += 1;
                            break Some(s);
                        }
                        if g.active == 0 {
                            cv.notify_all();
                            break None;
                        }
                        g = cv.wait(g).unwrap();
                    }
                };
                let (pre_id, pre) = match item {
                    Some(s) => s,
                    None => break,
                };
                let mut edges: Vec<Value> = vec![];
                let mut details: Vec<Value> = vec![];
                let dpre = comp_digests(&pre, ctx.fx.network, &ctx.fx);
                let kpre = state_key(&dpre, pre.phase);
                let apre = project(&pre, nmax);
                let expand = apre["nh"].as_u64().unwrap() <= nmax && apre["nc"].as_u64().unwrap() <= base + nmax;
                // is the running signer in this state equal to one restored from its store?
                ctx.restore(&pre);
                let r0 = restart_view(&ctx).0["equal"] == true;
                if expand {
                    for (ri, r) in alphabet.iter().enumerate() {
                        ctx.restore(&pre);
                        let (resp, post, restart) = if r["op"] == "Restart" {
                            let (view, snap) = restart_view(&ctx);
                            match snap {
                                Some(b) => (json!({"ok": true, "sec": -1, "pt": -1, "flag": -1, "err": ""}), b, Some(view)),
                                None => (json!({"ok": false, "sec": -1, "pt": -1, "flag": -1, "err": view["diff"][0]}), ctx.snap(), Some(view)),
                            }
                        } else {
                            let resp = ctx.apply(r);
                            if resp["err"].as_str().unwrap_or("").starts_with("PANIC") {
                                // a panic under the channel lock poisons the mutex: the signer object
                                // is discarded (as a crashed process would be) and the request counts
                                // as refused with the state as it was
                                ctx = Ctx::new(&phase, nmax);
                                ctx.restore(&pre);
                            }
                            (resp, ctx.snap(), None)
                        };
                        let dpost = comp_digests(&post, ctx.fx.network, &ctx.fx);
                        let kpost = state_key(&dpost, post.phase);
                        let mut changed = vec![];
                        if dpre.0 != dpost.0 {
                            changed.push("estate");
                        }
                        if dpre.1 != dpost.1 {
                            changed.push("node");
                        }
                        if dpre.2 != dpost.2 {
                            changed.push("store");
                        }
                        // restart equivalence of the post-state, once per distinct (memory, store) pair
                        let mut restart = restart;
                        if restart.is_none() && (resp["ok"] == true || !changed.is_empty()) {
                            let ck = digest(&json!([dpost.0, dpost.1, dpost.3]));
                            let cached = shared.0.lock().unwrap().restart_cache.get(&ck).cloned();
                            restart = Some(match cached {
                                Some(v) => v,
                                None => {
                                    let (v, _) = restart_view(&ctx);
                                    shared.0.lock().unwrap().restart_cache.insert(ck, v.clone());
                                    v
                                }
                            });
                        }
                        let apost = project(&post, nmax);
                        let to: i64 = {
                            let mut g = shared.0.lock().unwrap();
                            match g.seen.get(&kpost) {
                                Some(i) => *i as i64,
                                None if g.states < max_states => {
                                    let i = g.states;
                                    g.seen.insert(kpost.clone(), i);
                                    g.states += 1;
                                    g.queue.push_back((i, Arc::new(post)));
                                    shared.1.notify_one();
                                    i as i64
                                }
                                None => -1,
                            }
                        };
                        let mask = changed.iter().fold(0, |m, c| m | match *c { "estate" => 1, "node" => 2, _ => 4 });
                        let rs = restart.unwrap_or(json!({"restored": true, "equal": true, "diff": [], "skipped": true}));
                        let req_ok = resp["ok"] == true;
                        let re_ok = rs["equal"] == true;
                        if (!req_ok && mask != 0) || !re_ok || resp["err"].as_str().unwrap_or("").starts_with("PANIC") {
                            details.push(json!({"node": pre_id, "ri": ri + 1, "req": r, "resp": resp, "changed": changed,
                                                "restart": rs, "post": apost}));
                        }
                        edges.push(json!([to, ri + 1, if req_ok { 1 } else { 0 }, resp["sec"], resp["pt"], resp["flag"],
                                          mask, if re_ok { 1 } else { 0 }]));
                    }
                }
                o.put(&json!({"id": pre_id, "pre": apre, "x": expand, "r0": if r0 { 1 } else { 0 }, "e": edges}));
                for d in details.iter() {
                    od.put(d);
                }
                nedges += edges.len() as u64;
                let mut g = shared.0.lock().unwrap();
                g.active -= 1;
                if g.queue.is_empty() && g.active == 0 {
                    shared.1.notify_all();
                }
            }
            o.finish();
            od.finish();
            nedges
        }));
    }
    let mut edges = 0;
    for h in handles {
        edges += h.join().unwrap();
    }
    let g = shared.0.lock().unwrap();
    println!("{}", json!({"states": g.states, "edges": edges, "truncated": g.states >= max_states}));
}

/// replay sequences of requests from the initial state; one record per step
fn run_seqs() {
    let nmax = arg_u64("n", 3);
    let phase = arg_or("phase", "ready");
    let seqs = std::fs::read_to_string(arg("seqs").unwrap()).unwrap();
    let mut o = NdJson::create(&arg("out").unwrap());
    let mut ctx = Ctx::new(&phase, nmax);
    let s0 = ctx.snap();
    let mut nseq = 0;
    for line in seqs.lines() {
        if line.trim().is_empty() {
            continue;
        }
        let seq: Vec<Value> = serde_json::from_str(line).unwrap();
        ctx.restore(&s0);
        let mut cur = ctx.snap();
        for (i, r) in seq.iter().enumerate() {
            let dpre = comp_digests(&cur, ctx.fx.network, &ctx.fx);
            let apre = project(&cur, nmax);
            let (resp, post, restart) = if r["op"] == "Restart" {
                let (view, snap) = restart_view(&ctx);
                match snap {
                    Some(b) => {
                        ctx.restore(&b);
                        (json!({"ok": true, "sec": -1, "pt": -1, "flag": -1, "err": ""}), b, view)
                    }
                    None => (json!({"ok": false, "sec": -1, "pt": -1, "flag": -1, "err": view["diff"][0]}), ctx.snap(), view),
                }
            } else {
                let resp = ctx.apply(r);
                if resp["err"].as_str().unwrap_or("").starts_with("PANIC") {
                    ctx = Ctx::new(&phase, nmax);
                    ctx.restore(&cur);
                }
                let (view, _) = restart_view(&ctx);
                (resp, ctx.snap(), view)
            };
            let dpost = comp_digests(&post, ctx.fx.network, &ctx.fx);
            let mut changed = vec![];
            if dpre.0 != dpost.0 {
                changed.push("estate");
            }
            if dpre.1 != dpost.1 {
                changed.push("node");
            }
            if dpre.2 != dpost.2 {
                changed.push("store");
            }
            o.put(&json!({"seq": nseq, "step": i, "kpre": state_key(&dpre, cur.phase), "kpost": state_key(&dpost, post.phase),
                          "pre": apre, "req": r, "resp": resp, "post": project(&post, nmax),
                          "changed": changed, "restart": restart}));
            cur = post;
        }
        nseq += 1;
    }
    let n = o.lines;
    o.finish();
    println!("{}", json!({"sequences": nseq, "steps": n}));
}

fn main() {
    quiet_panics();
    let cmd = std::env::args().nth(1).unwrap_or_default();
    match cmd.as_str() {
        "explore" => explore(),
        "run" => run_seqs(),
        _ => {
            eprintln!("usage: chan explore|run ...");
            std::process::exit(2);
        }
    }
}
