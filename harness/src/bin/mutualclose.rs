//! C07 - mutual close validation: driver of the REAL crates (leg B).
//!
//!   mutualclose run --cases cases.json --out DIR [--threads 8]
//!
//! `cases.json` is printed by TLC from spec/MutualCloseCases.tla: abstract channel states
//! with the concrete commitment contents to bring about, and for every state the close
//! requests with their concrete satoshi amounts (base-10^4 limb arrays, least significant
//! limb first).  For every state a real node + channel is built and driven THROUGH THE
//! PUBLIC API (setup_channel, validate_holder_commitment_tx_phase2 with real counterparty
//! signatures, activate / revoke, sign_counterparty_commitment_tx_phase2,
//! validate_counterparty_revocation, add/set_allowlist); then every request is issued to
//! sign_mutual_close_tx / sign_mutual_close_tx_phase2.  One ndjson record per case carries
//! the CONCRETE values used (commitments read back from the real enforcement state), the
//! real verdict, which transaction the returned signature verifies against, and
//! `channel_closed` read back from the running signer and from one restored from a copy
//! of its store.  No property logic here: TLC (spec/ImplMutualClose.tla) judges the log.
use std::collections::BTreeMap;
use std::sync::atomic::{AtomicUsize, Ordering};
use std::sync::Arc;

use bitcoin::absolute::LockTime;
use bitcoin::bip32::{ChildNumber, DerivationPath, Xpriv, Xpub};
use bitcoin::hashes::Hash;
use bitcoin::key::CompressedPublicKey;
use bitcoin::secp256k1::ecdsa::Signature;
use bitcoin::secp256k1::{Message, PublicKey, Secp256k1, SecretKey};
use bitcoin::sighash::{EcdsaSighashType, SighashCache};
use bitcoin::transaction::Version;
use bitcoin::{
    Address, Amount, Network, OutPoint, ScriptBuf, Sequence, Transaction, TxIn, TxOut, Txid, Witness,
};
use lightning::ln::chan_utils::make_funding_redeemscript;
use lightning::sign::ChannelSigner;
use lightning::types::payment::PaymentHash;
use lightning_signer::channel::{ChannelId, CommitmentType};
use lightning_signer::policy::simple_validator::SimplePolicy;
use lightning_signer::tx::tx::HTLCInfo2;
use lightning_signer::util::status::Status;
use lightning_signer::util::test_utils::{
    channel_commitment, counterparty_sign_holder_commitment, TestChannelContext,
};
use lightning_signer::util::velocity::VelocityControlSpec;
use serde_json::{json, Value};
use vls_verif_harness::*;

const NET: Network = Network::Regtest;
const PUSH_MSAT: u64 = 2_000_000_000;

// ---------------------------------------------------------------------------------------------
// numbers: base-10^4 limb arrays <-> u64

fn limbs_to_u64(v: &Value) -> u64 {
    let mut acc: u128 = 0;
    let mut mul: u128 = 1;
    for l in v.as_array().expect("limb array") {
        acc += (l.as_u64().expect("limb") as u128) * mul;
        mul *= 10_000;
    }
    assert!(acc <= u64::MAX as u128, "case value does not fit u64");
    acc as u64
}

fn u64_to_limbs(mut x: u64) -> Value {
    let mut v = vec![];
    while x > 0 {
        v.push(json!(x % 10_000));
        x /= 10_000;
    }
    Value::Array(v)
}

// ---------------------------------------------------------------------------------------------
// scripts and paths of the case matrix (ids as in MutualClose.tla)

fn pk_from(byte: u8) -> CompressedPublicKey {
    let secp = Secp256k1::new();
    CompressedPublicKey(PublicKey::from_secret_key(&secp, &SecretKey::from_slice(&[byte; 32]).unwrap()))
}

fn ext_xpub() -> Xpub {
    let secp = Secp256k1::new();
    Xpub::from_priv(&secp, &Xpriv::new_master(NET, &[0x61u8; 32]).unwrap())
}

fn path_of(hint: &str) -> DerivationPath {
    let n = |i: u32| ChildNumber::from_normal_idx(i).unwrap();
    match hint {
        "m" => DerivationPath::master(),
        "p7" => vec![n(7)].into(),
        "p8" => vec![n(8)].into(),
        "p5" => vec![n(5)].into(),
        "bad2" => vec![n(7), n(1)].into(),
        "h7" => vec![ChildNumber::from_hardened_idx(7).unwrap()].into(),
        _ => panic!("unknown path hint {}", hint),
    }
}

struct Scripts {
    by_id: BTreeMap<&'static str, (ScriptBuf, &'static str, &'static str)>, // id -> (script, cls, path)
    s1_entry: String,
    x_entry: String,
}

impl Scripts {
    /// the wallet scripts are derived here from the account xpub with rust-bitcoin's BIP32,
    /// independently of Node::can_spend
    fn new(fx: &NodeFx) -> Scripts {
        let secp = Secp256k1::new();
        let acct = fx.node.get_account_extended_pubkey();
        let w7 = CompressedPublicKey(acct.derive_pub(&secp, &path_of("p7")).unwrap().public_key);
        let x5 = CompressedPublicKey(ext_xpub().derive_pub(&secp, &path_of("p5")).unwrap().public_key);
        let s1 = Address::p2wpkh(&pk_from(0x51), NET);
        let mut by_id = BTreeMap::new();
        by_id.insert("W7n", (Address::p2wpkh(&w7, NET).script_pubkey(), "wallet", "p7"));
        by_id.insert("W7w", (Address::p2shwpkh(&w7, NET).script_pubkey(), "wallet", "p7"));
        by_id.insert("W7t", (Address::p2tr(&secp, w7.0.into(), None, NET).script_pubkey(), "wallet", "p7"));
        by_id.insert("S1", (s1.script_pubkey(), "S1", "m"));
        by_id.insert("X5", (Address::p2wpkh(&x5, NET).script_pubkey(), "X", "p5"));
        by_id.insert("F", (Address::p2wpkh(&pk_from(0x71), NET).script_pubkey(), "foreign", "m"));
        by_id.insert(
            "Fs",
            (Address::p2wsh(&ScriptBuf::from(vec![0x51u8, 0x52, 0x53]), NET).script_pubkey(), "foreign", "m"),
        );
        by_id.insert("C1", (Address::p2wpkh(&pk_from(0x81), NET).script_pubkey(), "foreign", "m"));
        Scripts { by_id, s1_entry: format!("address:{}", s1), x_entry: format!("xpub:{}", ext_xpub()) }
    }
    fn get(&self, id: &str) -> Option<ScriptBuf> {
        if id == "none" {
            None
        } else {
            Some(self.by_id.get(id).unwrap_or_else(|| panic!("unknown script {}", id)).0.clone())
        }
    }
    fn describe(&self, id: &str) -> Value {
        if id == "none" {
            return json!({"id": "none", "len": 0, "cls": "none", "path": "m"});
        }
        let (s, cls, path) = &self.by_id[id];
        json!({"id": id, "len": s.len(), "cls": cls, "path": path})
    }
    fn allow_entries(&self, names: &[String]) -> Vec<String> {
        names
            .iter()
            .map(|n| match n.as_str() {
                "S1" => self.s1_entry.clone(),
                "X" => self.x_entry.clone(),
                _ => panic!("unknown allowlist entry {}", n),
            })
            .collect()
    }
}

// ---------------------------------------------------------------------------------------------
// a channel state reached through the public API

struct Built {
    /// allowlist entry names configured so far (the harness's own bookkeeping)
    allow_now: std::sync::Mutex<Vec<String>>,
    fx: NodeFx,
    id: ChannelId,
    scripts: Scripts,
    outpoint: OutPoint,
    chv: u64,
}

fn htlc() -> HTLCInfo2 {
    HTLCInfo2 { value_sat: 10_000, payment_hash: PaymentHash([7u8; 32]), cltv_expiry: 500 }
}

fn content_of(v: &Value) -> (u64, u64, usize) {
    (limbs_to_u64(&v["h"]), limbs_to_u64(&v["c"]), v["n"].as_u64().unwrap() as usize)
}

fn policy_of(st: &Value) -> SimplePolicy {
    let mut p = default_policy(NET);
    p.epsilon_sat = st["eps"].as_u64().unwrap();
    p.min_feerate_per_kw = st["minr"].as_u64().unwrap() as u32;
    p.max_feerate_per_kw = st["maxr"].as_u64().unwrap() as u32;
    p.max_channel_size_sat = u64::MAX;
    p.fee_velocity_control = VelocityControlSpec::UNLIMITED;
    p
}

fn st_err(what: &str, st: Status) -> String {
    format!("{}: {:?}: {}", what, st.code(), st.message())
}

/// holder side: validate commitment n (real counterparty signatures), then make it current
fn holder_commit(b: &Built, cc: &TestChannelContext, n: u64, c: (u64, u64, usize)) -> Result<(), String> {
    let node_ctx = b.fx.node_ctx();
    let received: Vec<HTLCInfo2> = (0..c.2).map(|_| htlc()).collect();
    let mut tctx = channel_commitment(&node_ctx, cc, n, 0, c.0, c.1, vec![], received.clone());
    let (cs, hs) = counterparty_sign_holder_commitment(&node_ctx, cc, &mut tctx);
    b.fx.node
        .with_channel(&b.id, |chan| {
            chan.validate_holder_commitment_tx_phase2(n, 0, c.0, c.1, vec![], received.clone(), &cs, &hs)
        })
        .map_err(|e| st_err("validate_holder_commitment", e))?;
    if n == 0 {
        b.fx.node
            .with_channel(&b.id, |chan| chan.activate_initial_commitment())
            .map_err(|e| st_err("activate_initial_commitment", e))?;
    } else {
        b.fx.node
            .with_channel(&b.id, |chan| chan.revoke_previous_holder_commitment(n))
            .map_err(|e| st_err("revoke_previous_holder_commitment", e))?;
    }
    Ok(())
}

/// counterparty side: sign its commitment n; for n > 0 it then revokes n - 1 (unless `revoke` is false)
fn cp_commit(b: &Built, n: u64, c: (u64, u64, usize)) -> Result<(), String> {
    cp_commit_opt(b, n, c, true)
}

fn cp_commit_opt(b: &Built, n: u64, c: (u64, u64, usize), revoke: bool) -> Result<(), String> {
    let pt = tree_point(&TREE_A, n);
    // an HTLC the holder receives is offered by the counterparty
    let offered: Vec<HTLCInfo2> = (0..c.2).map(|_| htlc()).collect();
    b.fx.node
        .with_channel(&b.id, |chan| {
            chan.sign_counterparty_commitment_tx_phase2(&pt, n, 0, c.0, c.1, offered.clone(), vec![])
        })
        .map_err(|e| st_err("sign_counterparty_commitment", e))?;
    if n > 0 && revoke {
        let sk = tree_secret(&TREE_A, n - 1);
        b.fx.node
            .with_channel(&b.id, |chan| chan.validate_counterparty_revocation(n - 1, &sk))
            .map_err(|e| st_err("validate_counterparty_revocation", e))?;
    }
    Ok(())
}

fn build_state(st: &Value) -> Result<Built, String> {
    let fx = NodeFx::new(NET, Some(policy_of(st)));
    let scripts = Scripts::new(&fx);
    let upfront = st["upfront"].as_str().unwrap();
    if upfront == "S1" {
        fx.node.add_allowlist(&[scripts.s1_entry.clone()]).map_err(|e| st_err("add_allowlist", e))?;
    }
    let id = new_stub(&fx, 1);
    let chv = limbs_to_u64(&st["chv"]);
    let mut setup = test_setup(chv, PUSH_MSAT, CommitmentType::StaticRemoteKey, 2);
    setup.is_outbound = st["out"].as_bool().unwrap();
    setup.holder_shutdown_script = scripts.get(upfront);
    let outpoint = setup.funding_outpoint;
    let shutdown_path = if upfront == "W7n" { path_of("p7") } else { path_of("m") };
    let node_ctx = fx.node_ctx();
    let counterparty_keys =
        lightning_signer::util::test_utils::make_test_counterparty_keys(&node_ctx, &id, chv);
    fx.node
        .setup_channel(id.clone(), None, setup.clone(), &shutdown_path)
        .map_err(|e| st_err("setup_channel", e))?;
    let cc = TestChannelContext { channel_id: id.clone(), setup, counterparty_keys };
    let allow_now = std::sync::Mutex::new(if upfront == "S1" { vec!["S1".to_string()] } else { vec![] });
    let b = Built { allow_now, fx, id, scripts, outpoint, chv };

    let hist = st["hist"].as_str().unwrap();
    let c0 = content_of(&st["c0"]);
    let ch = content_of(&st["ch"]);
    let ccn = content_of(&st["cc"]);
    match hist {
        "fresh" => {}
        "noC" => holder_commit(&b, &cc, 0, c0)?,
        "noH" => cp_commit(&b, 0, c0)?,
        "init" => {
            holder_commit(&b, &cc, 0, ch)?;
            cp_commit(&b, 0, ccn)?;
        }
        "upd" => {
            holder_commit(&b, &cc, 0, c0)?;
            cp_commit(&b, 0, c0)?;
            holder_commit(&b, &cc, 1, ch)?;
            cp_commit(&b, 1, ccn)?;
        }
        "updp" => {
            holder_commit(&b, &cc, 0, c0)?;
            cp_commit(&b, 0, c0)?;
            holder_commit(&b, &cc, 1, ch)?;
            cp_commit_opt(&b, 1, ccn, false)?;
        }
        _ => return Err(format!("unknown hist {}", hist)),
    }
    // the state actually reached must be the one the case matrix intends
    {
        let (hc, ccv, _) = observed_commitments(&b);
        let want = |c: (u64, u64, usize)| json!({"p": true, "h": u64_to_limbs(c.0), "c": u64_to_limbs(c.1), "n": c.2});
        let none = json!({"p": false, "h": [], "c": [], "n": 0});
        let (wh, wc) = match hist {
            "fresh" => (none.clone(), none.clone()),
            "noC" => (want(c0), none.clone()),
            "noH" => (none.clone(), want(c0)),
            _ => (want(ch), want(ccn)),
        };
        if hc != wh || ccv != wc {
            return Err(format!("state mismatch: holder {} vs {}, counterparty {} vs {}", hc, wh, ccv, wc));
        }
    }
    if st["pre"] == "closed" {
        let g = &st["good"];
        let names: Vec<String> =
            g["allow"].as_array().unwrap().iter().map(|x| x.as_str().unwrap().to_string()).collect();
        b.fx.node.set_allowlist(&b.scripts.allow_entries(&names)).map_err(|e| st_err("set_allowlist", e))?;
        *b.allow_now.lock().unwrap() = names.clone();
        let (vh, vc) = (limbs_to_u64(&g["vh"]), limbs_to_u64(&g["vc"]));
        let hs = b.scripts.get(g["hs"].as_str().unwrap());
        let cs = b.scripts.get(g["cs"].as_str().unwrap());
        let hint = path_of(g["hint"].as_str().unwrap());
        b.fx.node
            .with_channel(&b.id, |chan| chan.sign_mutual_close_tx_phase2(vh, vc, &hs, &cs, &hint))
            .map_err(|e| st_err("pre-close", e))?;
    }
    Ok(b)
}

/// the two current commitments, read back from the real enforcement state
fn observed_commitments(b: &Built) -> (Value, Value, bool) {
    let none = json!({"p": false, "h": [], "c": [], "n": 0});
    let slot = b.fx.node.get_channel(&b.id).unwrap();
    let g = slot.lock().unwrap();
    match &*g {
        lightning_signer::channel::ChannelSlot::Ready(c) => {
            let es = &c.enforcement_state;
            let hc = match &es.current_holder_commit_info {
                None => none.clone(),
                Some(i) => json!({"p": true, "h": u64_to_limbs(i.to_broadcaster_value_sat),
                                  "c": u64_to_limbs(i.to_countersigner_value_sat),
                                  "n": i.offered_htlcs.len() + i.received_htlcs.len()}),
            };
            let cc = match &es.current_counterparty_commit_info {
                None => none.clone(),
                Some(i) => json!({"p": true, "h": u64_to_limbs(i.to_countersigner_value_sat),
                                  "c": u64_to_limbs(i.to_broadcaster_value_sat),
                                  "n": i.offered_htlcs.len() + i.received_htlcs.len()}),
            };
            (hc, cc, es.channel_closed)
        }
        _ => (none.clone(), none, false),
    }
}

fn state_digest(b: &Built) -> String {
    let slot = b.fx.node.get_channel(&b.id).unwrap();
    let es = {
        let g = slot.lock().unwrap();
        match &*g {
            lightning_signer::channel::ChannelSlot::Ready(c) => serde_json::to_value(&c.enforcement_state).unwrap(),
            _ => json!(null),
        }
    };
    let store: Vec<Value> = dump_store(&b.fx.store.0)
        .iter()
        .filter(|(k, _, _)| !k.contains("allowlist"))
        .map(|(k, _v, x)| json!([k, String::from_utf8_lossy(x).to_string()]))
        .collect();
    digest(&json!([es, store]))
}

// ---------------------------------------------------------------------------------------------
// closing transactions, assembled here with plain rust-bitcoin (BIP69 output order)

fn closing_tx(outpoint: OutPoint, mut outs: Vec<TxOut>, sort: bool) -> Transaction {
    if sort {
        outs.sort_by(|a, b| a.value.cmp(&b.value).then_with(|| a.script_pubkey.as_bytes().cmp(b.script_pubkey.as_bytes())));
    }
    Transaction {
        version: Version::TWO,
        lock_time: LockTime::ZERO,
        input: vec![TxIn {
            previous_output: outpoint,
            script_sig: ScriptBuf::new(),
            sequence: Sequence::MAX,
            witness: Witness::new(),
        }],
        output: outs,
    }
}

fn verifies(tx: &Transaction, sig: &Signature, redeem: &ScriptBuf, value: u64, key: &PublicKey) -> bool {
    if tx.input.is_empty() {
        return false;
    }
    let h = match SighashCache::new(tx).p2wsh_signature_hash(0, redeem, Amount::from_sat(value), EcdsaSighashType::All) {
        Ok(h) => h,
        Err(_) => return false,
    };
    let secp = Secp256k1::verification_only();
    secp.verify_ecdsa(&Message::from_digest(h.to_byte_array()), sig, key).is_ok()
}

fn tag_of(msg: &str) -> &'static str {
    let table: [(&str, &str); 16] = [
        ("bad opath len", "opath_len"),
        ("invalid number of outputs", "outputs"),
        ("commit_info missing", "no_commitment"),
        ("missing holder_script", "missing_script"),
        ("missing counterparty_script", "missing_script"),
        ("doesn't match upfront", "upfront"),
        ("pending htlcs", "htlcs"),
        ("consumed overflow", "overflow"),
        ("fee underflow", "fee_underflow"),
        ("feerate below minimum", "fee_low"),
        ("feerate above maximum", "fee_high"),
        ("to_counterparty_value", "value"),
        ("to_holder_value", "value"),
        ("can_spend error", "can_spend_err"),
        ("not to wallet or in allowlist", "dest"),
        ("recomposed tx mismatch", "recomposed"),
    ];
    for (pat, tag) in table.iter() {
        if msg.contains(pat) {
            return tag;
        }
    }
    "other"
}

/// run one close request; returns the log record
fn run_case(b: &Built, sid: u64, idx: usize, c: &Value) -> Value {
    let entry = c[1].as_str().unwrap();
    let allow: Vec<String> = c[2].as_array().unwrap().iter().map(|x| x.as_str().unwrap().to_string()).collect();
    let (vh, vc) = (limbs_to_u64(&c[3]), limbs_to_u64(&c[4]));
    let (hs_id, cs_id, hint) = (c[5].as_str().unwrap(), c[6].as_str().unwrap(), c[7].as_str().unwrap());
    let (order, hintpos, form) = (c[8].as_str().unwrap(), c[9].as_str().unwrap(), c[10].as_str().unwrap());
    let sc = &b.scripts;

    // the allowlist at signing time, configured through the public API: two cases out of three the entries
    // that differ from the previous configuration are removed / added, otherwise the list is replaced
    {
        let mut cur = b.allow_now.lock().unwrap();
        let missing: Vec<String> = allow.iter().filter(|x| !cur.contains(*x)).cloned().collect();
        let extra: Vec<String> = cur.iter().filter(|x| !allow.contains(*x)).cloned().collect();
        if idx % 3 == 0 {
            b.fx.node.set_allowlist(&sc.allow_entries(&allow)).expect("set_allowlist");
        } else {
            if !extra.is_empty() {
                b.fx.node.remove_allowlist(&sc.allow_entries(&extra)).expect("remove_allowlist");
            }
            if !missing.is_empty() {
                b.fx.node.add_allowlist(&sc.allow_entries(&missing)).expect("add_allowlist");
            }
        }
        *cur = allow.clone();
    }
    let allow_real = b.fx.node.allowlist().unwrap_or_default();

    let (hc, cc, closed0) = observed_commitments(b);
    let d0 = state_digest(b);
    let pol = b.fx.policy.as_ref().unwrap();
    let setup_upfront = {
        let slot = b.fx.node.get_channel(&b.id).unwrap();
        let g = slot.lock().unwrap();
        match &*g {
            lightning_signer::channel::ChannelSlot::Ready(ch) => ch.setup.clone(),
            _ => panic!("channel not ready"),
        }
    };
    let upfront_id = match &setup_upfront.holder_shutdown_script {
        None => "none".to_string(),
        Some(s) => sc.by_id.iter().find(|(_, v)| v.0 == *s).map(|(k, _)| k.to_string()).unwrap_or("?".into()),
    };
    let w = json!({"out": setup_upfront.is_outbound, "chv": u64_to_limbs(setup_upfront.channel_value_sat),
                   "upfront": upfront_id,
                   "eps": u64_to_limbs(pol.epsilon_sat), "minr": u64_to_limbs(pol.min_feerate_per_kw as u64),
                   "maxr": u64_to_limbs(pol.max_feerate_per_kw as u64),
                   "hc": hc, "cc": cc, "allow": allow, "allow_real": allow_real});

    let (funding_key, redeem) = {
        let slot = b.fx.node.get_channel(&b.id).unwrap();
        let g = slot.lock().unwrap();
        match &*g {
            lightning_signer::channel::ChannelSlot::Ready(ch) => {
                let k = ch.keys.pubkeys().funding_pubkey;
                (k, make_funding_redeemscript(&k, &ch.setup.counterparty_points.funding_pubkey))
            }
            _ => panic!("channel not ready"),
        }
    };

    let hs = sc.get(hs_id);
    let cs = sc.get(cs_id);
    let hpath = path_of(hint);
    // outputs with a value, roles as intended by the case
    let mut outs: Vec<(TxOut, &str)> = vec![];
    if vh > 0 {
        if let Some(s) = &hs {
            outs.push((TxOut { value: Amount::from_sat(vh), script_pubkey: s.clone() }, "h"));
        }
    }
    if vc > 0 {
        if let Some(s) = &cs {
            outs.push((TxOut { value: Amount::from_sat(vc), script_pubkey: s.clone() }, "c"));
        }
    }
    let canon_possible = (vh == 0 || hs.is_some()) && (vc == 0 || cs.is_some());

    let (q, res, given, canon): (Value, Result<Result<Signature, Status>, String>, Option<Transaction>, Option<Transaction>) =
        if entry == "p2" {
            let q = json!({"entry": "p2", "a": {"vh": u64_to_limbs(vh), "vc": u64_to_limbs(vc),
                           "sh": sc.describe(hs_id), "sc": sc.describe(cs_id), "hint": hint}});
            let canon = if canon_possible {
                Some(closing_tx(b.outpoint, outs.iter().map(|o| o.0.clone()).collect(), true))
            } else {
                None
            };
            let res = catch(|| {
                b.fx.node.with_channel(&b.id, |chan| chan.sign_mutual_close_tx_phase2(vh, vc, &hs, &cs, &hpath))
            });
            (q, res, None, canon)
        } else {
            // canonical order, then the requested deviations
            outs.sort_by(|a, b| {
                a.0.value.cmp(&b.0.value).then_with(|| a.0.script_pubkey.as_bytes().cmp(b.0.script_pubkey.as_bytes()))
            });
            if order == "swap" {
                outs.reverse();
            }
            if form == "out3" {
                outs.push((TxOut { value: Amount::from_sat(1000), script_pubkey: sc.get("F").unwrap() }, "x"));
            }
            if form == "noout" {
                outs.clear();
            }
            let mut tx = closing_tx(b.outpoint, outs.iter().map(|o| o.0.clone()).collect(), false);
            match form {
                "txid" => tx.input[0].previous_output.txid = Txid::from_slice(&[9u8; 32]).unwrap(),
                "vout" => tx.input[0].previous_output.vout += 1,
                "version" => tx.version = Version::ONE,
                "locktime" => tx.lock_time = LockTime::from_consensus(1),
                "sequence" => tx.input[0].sequence = Sequence(0xffff_fffd),
                "in2" => tx.input.push(TxIn {
                    previous_output: OutPoint { txid: Txid::from_slice(&[9u8; 32]).unwrap(), vout: 0 },
                    script_sig: ScriptBuf::new(),
                    sequence: Sequence::MAX,
                    witness: Witness::new(),
                }),
                _ => {}
            }
            let mut paths: Vec<DerivationPath> = vec![];
            let mut hints: Vec<&str> = vec![];
            for (_, role) in outs.iter() {
                let with = match *role {
                    "h" => hintpos == "h" || hintpos == "both",
                    "c" => hintpos == "c" || hintpos == "both",
                    _ => false,
                };
                hints.push(if with { hint } else { "m" });
                paths.push(if with { hpath.clone() } else { path_of("m") });
            }
            if form == "pathshort" {
                paths.pop();
            }
            let canon = closing_tx(b.outpoint, tx.output.clone(), true);
            let descr: Vec<Value> = outs
                .iter()
                .zip(hints.iter())
                .map(|((o, role), h)| {
                    let id = match *role {
                        "h" => hs_id,
                        "c" => cs_id,
                        _ => "F",
                    };
                    json!({"v": u64_to_limbs(o.value.to_sat()), "s": sc.describe(id), "hint": h})
                })
                .collect();
            let q = json!({"entry": "p1", "outs": descr, "npaths": paths.len(), "canon": tx == canon,
                           "order": order, "form": form});
            let res = catch(|| b.fx.node.with_channel(&b.id, |chan| chan.sign_mutual_close_tx(&tx, &paths)));
            (q, res, Some(tx), Some(canon))
        };

    let (ok, tag, err, sig) = match &res {
        Ok(Ok(sig)) => (true, "ok", String::new(), Some(*sig)),
        Ok(Err(st)) => (false, tag_of(st.message()), format!("{:?}: {}", st.code(), st.message()), None),
        Err(p) => (false, "panic", format!("PANIC: {}", p), None),
    };
    // a panic inside the channel lock poisons the slot: the caller rebuilds the state
    let poisoned = res.is_err();
    let mut sigt = "-";
    let (mut closed, mut closedr, mut changed) = (closed0, closed0, false);
    if !poisoned {
        if let Some(sig) = &sig {
            sigt = "none";
            if let Some(g) = &given {
                if Some(g) != canon.as_ref() && verifies(g, sig, &redeem, b.chv, &funding_key) {
                    sigt = "given";
                }
            }
            if let Some(cn) = &canon {
                if verifies(cn, sig, &redeem, b.chv, &funding_key) {
                    sigt = "canon";
                }
            }
        }
        closed = observed_commitments(b).2;
        changed = state_digest(b) != d0;
        closedr = closed;
        if ok || changed {
            closedr = match b.fx.restart_copy() {
                Ok(fx2) => fx2
                    .node
                    .with_channel(&b.id, |chan| Ok(chan.enforcement_state.channel_closed))
                    .unwrap_or(false),
                Err(_) => false,
            };
        }
    }
    json!({"i": idx, "sid": sid, "w": w, "q": q,
           "obs": {"ok": ok, "tag": tag, "sig": sigt, "closed0": closed0, "closed": closed, "closedr": closedr,
                   "changed": changed, "err": err.chars().take(160).collect::<String>()},
           "abs": c[11], "rebuild": poisoned || ok || changed})
}

fn run() {
    let cases: Value =
        serde_json::from_str(&std::fs::read_to_string(arg("cases").unwrap()).unwrap()).unwrap();
    let out = arg("out").unwrap();
    let threads = arg_u64("threads", 8) as usize;
    std::fs::create_dir_all(&out).unwrap();
    let states: Vec<Value> = cases["states"].as_array().unwrap().clone();
    // requests grouped by state, in file order
    let mut by_state: BTreeMap<u64, Vec<(usize, Value)>> = BTreeMap::new();
    for (i, c) in cases["cases"].as_array().unwrap().iter().enumerate() {
        by_state.entry(c[0].as_u64().unwrap()).or_default().push((i + 1, c.clone()));
    }
    let work: Vec<(Value, Vec<(usize, Value)>)> = states
        .iter()
        .filter_map(|s| by_state.remove(&s["sid"].as_u64().unwrap()).map(|v| (s.clone(), v)))
        .collect();
    // split big states into chunks so that the threads stay busy
    let mut items: Vec<(Value, Vec<(usize, Value)>)> = vec![];
    for (s, v) in work {
        for ch in v.chunks(400) {
            items.push((s.clone(), ch.to_vec()));
        }
    }
    let items = Arc::new(items);
    let next = Arc::new(AtomicUsize::new(0));
    let mut handles = vec![];
    for t in 0..threads {
        let items = items.clone();
        let next = next.clone();
        let out = out.clone();
        handles.push(std::thread::spawn(move || {
            let mut o = NdJson::create(&format!("{}/log-{}.ndjson", out, t));
            let mut builds = 0u64;
            let mut failures: Vec<Value> = vec![];
            loop {
                let k = next.fetch_add(1, Ordering::SeqCst);
                if k >= items.len() {
                    break;
                }
                let (st, reqs) = &items[k];
                let sid = st["sid"].as_u64().unwrap();
                let mut built: Option<Built> = None;
                for (idx, c) in reqs.iter() {
                    if built.is_none() {
                        builds += 1;
                        match catch(|| build_state(st)) {
                            Ok(Ok(b)) => built = Some(b),
                            Ok(Err(e)) => {
                                failures.push(json!({"sid": sid, "abs": st["abs"], "error": e}));
                                break;
                            }
                            Err(p) => {
                                failures.push(json!({"sid": sid, "abs": st["abs"], "error": format!("PANIC: {}", p)}));
                                break;
                            }
                        }
                    }
                    let rec = run_case(built.as_ref().unwrap(), sid, *idx, c);
                    if rec["rebuild"] == true {
                        built = None;
                    }
                    o.put(&rec);
                }
            }
            let n = o.lines;
            o.finish();
            (n, builds, failures)
        }));
    }
    let (mut n, mut builds, mut failures) = (0, 0, vec![]);
    for h in handles {
        let (a, b, f) = h.join().unwrap();
        n += a;
        builds += b;
        failures.extend(f);
    }
    println!("{}", json!({"cases": n, "state_builds": builds, "build_failures": failures}));
}

fn main() {
    quiet_panics();
    let cmd = std::env::args().nth(1).unwrap_or_default();
    match cmd.as_str() {
        "run" => run(),
        _ => {
            eprintln!("usage: mutualclose run --cases FILE --out DIR [--threads N]");
            std::process::exit(2);
        }
    }
}
