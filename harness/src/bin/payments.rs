//! Payment-ledger explorer (Payments.tla, C06): one real node with several funded channels.
//!
//!   payments explore --alphabet FILE --out DIR [--fee U] [--pct P] [--threads 16] [--max-states N]
//!        exhaustive breadth-first exploration of the REAL implementation's state graph over the
//!        request alphabet TLC generated from the specification.  A state is re-created by
//!        re-executing its request path on a fresh node (real restarts included); while one state
//!        is expanded, each request's effect is undone by restoring the public state fields, the
//!        store and the clock captured before it.  One ndjson row per state with compact edges
//!        <<to, request index, ok, flag>>.  No property logic here: TLC judges.
//!        The alphabet (like a sequence / case of the other modes) may name the policy's payment velocity
//!        limit ("vlim", units per hourly window; absent / 0 = the default unlimited policy): the node is built
//!        with it, so that add_invoice / add_keysend decline approvals (Ok(false)) once the window is full.
//!   payments conc --cases FILE --out FILE [--fee U] [--pct P]
//!        concurrency leg: for each case (prefix, a, b) the sequential outcomes a;b and b;a and one
//!        concurrent run per (held request, lock acquisition it is held before); see `conc`.
//!   payments run --seqs FILE --out FILE [--fee U] [--pct P]
//!        replays request sequences (TLC-simulated behaviours, replay files) on a fresh node per
//!        sequence and records one step record per request.
use std::collections::{BTreeMap, HashMap, VecDeque};
use std::sync::{Arc, Condvar, Mutex};
use std::time::Duration;

use bitcoin::hashes::sha256::Hash as Sha256Hash;
use bitcoin::hashes::Hash;
use bitcoin::secp256k1::{PublicKey, Secp256k1, SecretKey};
use bitcoin::Network;
use lightning::types::payment::{PaymentHash, PaymentPreimage, PaymentSecret};
use lightning_signer::channel::{ChannelId, CommitmentType};
use lightning_signer::invoice::Invoice;
use lightning_signer::lightning_invoice::{Currency, InvoiceBuilder};
use lightning_signer::persist::Persist;
use lightning_signer::policy::validator::EnforcementState;
use lightning_signer::tx::tx::{CommitmentInfo2, HTLCInfo2};
use lightning_signer::util::status::Status;
use lightning_signer::util::velocity::{VelocityControl, VelocityControlIntervalType, VelocityControlSpec};
use lightning_signer::util::test_utils::{
    channel_commitment, counterparty_sign_holder_commitment, TestChannelContext,
};
use serde_json::{json, Map, Value};
use vls_protocol_signer::approver::{Approve, NegativeApprover, PositiveApprover};
use vls_verif_harness::*;

/// one abstract amount unit, in satoshi
const UNIT: u64 = 10_000;
const CHANNEL_VALUE: u64 = 3_000_000;
const PUSH_MSAT: u64 = 1_000_000_000;
const TO_HOLDER0: u64 = 1_999_000; // channel value - push - 1000 sat fee
const TO_CP0: u64 = 1_000_000;
const CLTV_OUT: u32 = 500;
const CLTV_IN: u32 = 600;
const ENFORCE_EXCESS0: u64 = 5 * UNIT;
const LATE_SECS: u64 = NOW_SECS + 3 * 24 * 3600;

#[derive(Clone)]
struct Cfg {
    chans: Vec<String>,
    hashes: Vec<String>,
    fee_units: u64,
    pct: u64,
    /// concurrency leg only: policy.enforce_balance = true, with some initial excess_amount
    enforce: bool,
    /// policy.global_velocity_control: units per hourly window (0 = unlimited, the default policy); named by
    /// the specification's configuration ("vlim" of the alphabet / sequence / case)
    vlim: u64,
}

fn hash_byte(h: &str) -> u8 {
    // "h1" -> 11, "h2" -> 12, ...
    10 + h[1..].parse::<u8>().expect("hash name")
}
fn preimage(h: &str) -> PaymentPreimage {
    PaymentPreimage([hash_byte(h); 32])
}
fn payment_hash(h: &str) -> PaymentHash {
    PaymentHash(Sha256Hash::hash(&preimage(h).0).to_byte_array())
}
fn hash_name(cfg: &Cfg, p: &PaymentHash) -> Option<String> {
    cfg.hashes.iter().find(|h| payment_hash(h) == *p).cloned()
}

/// the concrete HTLC lists (offered by the holder, received by the holder) of an abstract content
fn concretize(c: &Value) -> (Vec<HTLCInfo2>, Vec<HTLCInfo2>) {
    let mut off = vec![];
    let mut rcv = vec![];
    let l = c.as_array().expect("content");
    for (i, x) in l.iter().enumerate() {
        let a = x["a"].as_u64().unwrap();
        let h = payment_hash(x["h"].as_str().unwrap());
        // identical parts of one payment are told apart by their expiry
        let k = l[..i].iter().filter(|y| *y == x).count() as u32;
        if x["d"] == "o" {
            off.push(HTLCInfo2 { value_sat: a * UNIT, payment_hash: h, cltv_expiry: CLTV_OUT + k });
        } else {
            rcv.push(HTLCInfo2 { value_sat: a * UNIT, payment_hash: h, cltv_expiry: CLTV_IN + k });
        }
    }
    (off, rcv)
}

fn values(off: &[HTLCInfo2], rcv: &[HTLCInfo2]) -> (u64, u64) {
    (
        TO_HOLDER0 - off.iter().map(|h| h.value_sat).sum::<u64>(),
        TO_CP0 - rcv.iter().map(|h| h.value_sat).sum::<u64>(),
    )
}

struct World {
    fx: NodeFx,
    cfg: Cfg,
    ccs: Vec<TestChannelContext>,
}

fn policy_of(cfg: &Cfg) -> lightning_signer::policy::simple_validator::SimplePolicy {
    let mut p = default_policy(Network::Regtest);
    if cfg.fee_units > 0 {
        p.max_routing_fee_msat = cfg.fee_units * UNIT * 1000;
    }
    p.max_feerate_percentage = cfg.pct as u8;
    p.enforce_balance = cfg.enforce;
    if cfg.vlim > 0 {
        p.global_velocity_control =
            VelocityControlSpec { limit_msat: cfg.vlim * UNIT * 1000, interval_type: VelocityControlIntervalType::Hourly };
    }
    p
}

/// what a velocity control holds in its window as it counts at `now` (buckets are rotated lazily, at the
/// next insert), in units; projection only
fn window_units(vc: &VelocityControl, now: u64) -> i64 {
    let now = now.max(vc.start_sec);
    let nshift = (((now - vc.start_sec) / vc.bucket_interval as u64) as usize).min(vc.buckets.len());
    let msat: u64 = vc.buckets[..vc.buckets.len() - nshift].iter().sum();
    if msat % (UNIT * 1000) == 0 { (msat / (UNIT * 1000)) as i64 } else { -2 }
}

impl World {
    /// a node with one funded channel per name, commitment 0 exchanged on both sides (no HTLCs)
    fn new(cfg: &Cfg) -> World {
        let fx = NodeFx::new(Network::Regtest, Some(policy_of(cfg)));
        let mut ccs = vec![];
        for i in 0..cfg.chans.len() {
            let id = new_stub(&fx, 1 + i as u64);
            let cc = ready_channel(
                &fx,
                &id,
                test_setup(CHANNEL_VALUE, PUSH_MSAT, CommitmentType::StaticRemoteKey, 0x20 + i as u8),
            );
            let nctx = fx.node_ctx();
            let mut t = channel_commitment(&nctx, &cc, 0, 0, TO_HOLDER0, TO_CP0, vec![], vec![]);
            let (cs, hs) = counterparty_sign_holder_commitment(&nctx, &cc, &mut t);
            fx.node
                .with_channel(&cc.channel_id, |c| {
                    c.validate_holder_commitment_tx_phase2(0, 0, TO_HOLDER0, TO_CP0, vec![], vec![], &cs, &hs)?;
                    c.activate_initial_commitment()?;
                    c.sign_counterparty_commitment_tx_phase2(&tree_point(&TREE_A, 0), 0, 0, TO_HOLDER0, TO_CP0, vec![], vec![])?;
                    Ok(())
                })
                .expect("bring channel to commitment 1");
            ccs.push(cc);
        }
        if cfg.enforce {
            // slack in the balance register, so that the deltas of the explored updates can be told apart
            fx.node.get_state().excess_amount = ENFORCE_EXCESS0;
        }
        World { fx, cfg: cfg.clone(), ccs }
    }

    fn chan(&self, name: &str) -> &TestChannelContext {
        let i = self.cfg.chans.iter().position(|c| c == name).expect("channel name");
        &self.ccs[i]
    }

    fn estate(&self, id: &ChannelId) -> EnforcementState {
        self.fx.node.with_channel(id, |c| Ok(c.enforcement_state.clone())).expect("channel")
    }

    /// an invoice stamped relative to the clock: 10 s ago, or (expired) 30 days ago with the default expiry of 1 h
    fn make_invoice(&self, h: &str, a: u64, expired: bool) -> Invoice {
        let x = hash_byte(h);
        let private_key = SecretKey::from_slice(&[42; 32]).unwrap();
        let ts = self.fx.clock_now().as_secs() - if expired { 30 * 24 * 3600 } else { 10 };
        let b = InvoiceBuilder::new(Currency::Regtest)
            .description("test".into())
            .payment_hash(Sha256Hash::hash(&preimage(h).0))
            .payment_secret(PaymentSecret([x; 32]))
            .duration_since_epoch(Duration::from_secs(ts))
            .min_final_cltv_expiry_delta(144);
        let sign = |hash: &bitcoin::secp256k1::Message| Secp256k1::new().sign_ecdsa_recoverable(hash, &private_key);
        // a = 0: an AMOUNTLESS invoice (the payer chooses the amount)
        Invoice::Bolt11(if a == 0 {
            b.build_signed(sign).unwrap()
        } else {
            b.amount_milli_satoshis(a * UNIT * 1000).build_signed(sign).unwrap()
        })
    }

    fn sign_cp(&self, cc: &TestChannelContext, n: u64, off: Vec<HTLCInfo2>, rcv: Vec<HTLCInfo2>) -> Result<Value, Status> {
        let (to_h, to_c) = values(&off, &rcv);
        let pt = tree_point(&TREE_A, n);
        self.fx.node.with_channel(&cc.channel_id, |chan| {
            // HTLCs from the counterparty's point of view: it offers what the holder receives
            chan.sign_counterparty_commitment_tx_phase2(&pt, n, 0, to_h, to_c, rcv.clone(), off.clone())
        })?;
        Ok(json!({}))
    }

    fn validate_holder(&self, cc: &TestChannelContext, n: u64, off: Vec<HTLCInfo2>, rcv: Vec<HTLCInfo2>) -> Result<Value, Status> {
        let (to_h, to_c) = values(&off, &rcv);
        let nctx = self.fx.node_ctx();
        let mut t = channel_commitment(&nctx, cc, n, 0, to_h, to_c, off.clone(), rcv.clone());
        let (cs, hs) = counterparty_sign_holder_commitment(&nctx, cc, &mut t);
        self.fx.node.with_channel(&cc.channel_id, |chan| {
            chan.validate_holder_commitment_tx_phase2(n, 0, to_h, to_c, off.clone(), rcv.clone(), &cs, &hs)
        })?;
        Ok(json!({}))
    }

    /// one request on the real node (never "Restart": the caller switches worlds)
    fn apply(&self, r: &Value) -> Value {
        let op = r["op"].as_str().unwrap();
        let node = &self.fx.node;
        let res: Result<Result<Value, Status>, String> = catch(|| match op {
            // concurrency leg: the commitment number was fixed at the start state (`resolve`), the
            // counterparty revocation was supplied before the race (`settle`)
            "SignCp" if r.get("n").is_some() => {
                let cc = self.chan(r["ch"].as_str().unwrap());
                let (off, rcv) = concretize(&r["c"]);
                self.sign_cp(cc, r["n"].as_u64().unwrap(), off, rcv)
            }
            "ValidateHolder" if r.get("n").is_some() => {
                let cc = self.chan(r["ch"].as_str().unwrap());
                let (off, rcv) = concretize(&r["c"]);
                self.validate_holder(cc, r["n"].as_u64().unwrap(), off, rcv)
            }
            "Revoke" if r.get("n").is_some() => {
                let cc = self.chan(r["ch"].as_str().unwrap());
                let n = r["n"].as_u64().unwrap();
                node.with_channel(&cc.channel_id, |chan| chan.revoke_previous_holder_commitment(n)).map(|_| json!({}))
            }
            "SignCp" => {
                let cc = self.chan(r["ch"].as_str().unwrap());
                let (off, rcv) = concretize(&r["c"]);
                let es = self.estate(&cc.channel_id);
                let n = es.next_counterparty_commit_num;
                // the counterparty first revokes the commitment before its current one (it has done so
                // by the time it asks for a new one); until then the current one may be re-signed
                let revoked = n >= 2 && es.next_counterparty_revoke_num + 2 == n;
                if revoked {
                    let sk = tree_secret(&TREE_A, n - 2);
                    node.with_channel(&cc.channel_id, |chan| chan.validate_counterparty_revocation(n - 2, &sk))
                        .map_err(|e| Status::internal(format!("harness: revocation refused: {}", e.message())))?;
                }
                let r = self.sign_cp(cc, n, off, rcv);
                if r.is_err() && revoked {
                    // the request as a whole was refused: take the revocation back as well (it does
                    // not touch the ledger), so that the current commitment stays re-signable
                    let id = node.get_id();
                    node.with_channel(&cc.channel_id, |chan| {
                        chan.enforcement_state = es.clone();
                        self.fx.store.update_channel(&id, chan).map_err(|_| Status::internal("harness: persist"))
                    })?;
                }
                r
            }
            "SignCpRetry" => {
                let cc = self.chan(r["ch"].as_str().unwrap());
                let es = self.estate(&cc.channel_id);
                let info = es.current_counterparty_commit_info.clone().expect("current counterparty commitment");
                let n = es.next_counterparty_commit_num - 1;
                // counterparty commitment: its received HTLCs are the ones the holder offers
                self.sign_cp(cc, n, info.received_htlcs.clone(), info.offered_htlcs.clone())
            }
            "ValidateHolder" => {
                let cc = self.chan(r["ch"].as_str().unwrap());
                let (off, rcv) = concretize(&r["c"]);
                let n = self.estate(&cc.channel_id).next_holder_commit_num;
                self.validate_holder(cc, n, off, rcv)
            }
            "ValidateHolderRetry" => {
                let cc = self.chan(r["ch"].as_str().unwrap());
                let es = self.estate(&cc.channel_id);
                let info = es.current_holder_commit_info.clone().expect("current holder commitment");
                self.validate_holder(cc, es.next_holder_commit_num - 1, info.offered_htlcs.clone(), info.received_htlcs.clone())
            }
            "Revoke" => {
                let cc = self.chan(r["ch"].as_str().unwrap());
                let n = self.estate(&cc.channel_id).next_holder_commit_num;
                node.with_channel(&cc.channel_id, |chan| chan.revoke_previous_holder_commitment(n)).map(|_| json!({}))
            }
            // approvals go through vls-protocol-signer's approver (has_payment shortcut, approve, add)
            "AddInvoice" => PositiveApprover()
                .handle_proposed_invoice(node, self.make_invoice(r["h"].as_str().unwrap(), r["a"].as_u64().unwrap(), false))
                .map(|b| json!({"flag": if b { 1 } else { 0 }})),
            "DeclineInvoice" => NegativeApprover()
                .handle_proposed_invoice(node, self.make_invoice(r["h"].as_str().unwrap(), r["a"].as_u64().unwrap(), false))
                .map(|b| json!({"flag": if b { 1 } else { 0 }})),
            // an invoice that is past its expiry when it is proposed (the approver itself would approve it)
            "ExpiredInvoice" => PositiveApprover()
                .handle_proposed_invoice(node, self.make_invoice(r["h"].as_str().unwrap(), r["a"].as_u64().unwrap(), true))
                .map(|b| json!({"flag": if b { 1 } else { 0 }})),
            // the receive path: the node signs an invoice of its own and remembers it as issued
            "IssueInvoice" => {
                let h = r["h"].as_str().unwrap();
                let ts = self.fx.clock_now().as_secs() - 10;
                let raw = InvoiceBuilder::new(Currency::Regtest)
                    .description("issued".into())
                    .payment_hash(Sha256Hash::hash(&preimage(h).0))
                    .payment_secret(PaymentSecret([hash_byte(h); 32]))
                    .duration_since_epoch(Duration::from_secs(ts))
                    .min_final_cltv_expiry_delta(144)
                    .amount_milli_satoshis(r["a"].as_u64().unwrap() * UNIT * 1000)
                    .build_raw()
                    .map_err(|_| Status::invalid_argument("harness: build_raw"))?;
                node.sign_bolt11_invoice(raw).map(|_| json!({}))
            }
            "AddKeysend" => {
                let payee = PublicKey::from_slice(&peer_id()).unwrap();
                PositiveApprover()
                    .handle_proposed_keysend(node, payee, payment_hash(r["h"].as_str().unwrap()), r["a"].as_u64().unwrap() * UNIT * 1000)
                    .map(|b| json!({"flag": if b { 1 } else { 0 }}))
            }
            "Fulfill" => {
                let p = preimage(r["h"].as_str().unwrap());
                // the preimage is reported through the channel named by "via" (default: the first one)
                let via = r.get("via").and_then(|c| c.as_str()).map(|c| self.chan(c).channel_id.clone())
                    .unwrap_or_else(|| self.ccs[0].channel_id.clone());
                node.with_channel(&via, |chan| {
                    chan.htlcs_fulfilled(vec![p]);
                    Ok(())
                })
                .map(|_| json!({}))
            }
            "Tick" => {
                self.fx.clock.set(Duration::from_secs(LATE_SECS));
                Ok(json!({}))
            }
            "Heartbeat" => {
                let _ = node.get_heartbeat();
                Ok(json!({}))
            }
            _ => Err(Status::invalid_argument("harness: unknown op")),
        });
        match res {
            Ok(Ok(v)) => json!({"ok": true, "flag": v.get("flag").and_then(|x| x.as_i64()).unwrap_or(-1), "err": ""}),
            Ok(Err(st)) => json!({"ok": false, "flag": -1,
                                   "err": format!("{:?}: {}", st.code(), st.message().chars().take(100).collect::<String>())}),
            Err(p) => json!({"ok": false, "flag": -1, "err": format!("PANIC: {}", p.chars().take(100).collect::<String>())}),
        }
    }

    /// fix the commitment number a channel request will carry, as seen in the current state
    fn resolve(&self, r: &Value) -> Value {
        let mut r = r.clone();
        if let Some(ch) = r.get("ch").and_then(|c| c.as_str()) {
            let es = self.estate(&self.chan(ch).channel_id);
            match r["op"].as_str().unwrap() {
                "SignCp" => r["n"] = json!(es.next_counterparty_commit_num),
                "ValidateHolder" | "Revoke" => r["n"] = json!(es.next_holder_commit_num),
                _ => {}
            }
        }
        r
    }

    /// every counterparty revokes the commitment before its current one (outstanding after a SignCp)
    fn settle(&self) {
        for cc in &self.ccs {
            let es = self.estate(&cc.channel_id);
            let n = es.next_counterparty_commit_num;
            if n >= 2 && es.next_counterparty_revoke_num + 2 == n {
                let sk = tree_secret(&TREE_A, n - 2);
                self.fx.node.with_channel(&cc.channel_id, |chan| chan.validate_counterparty_revocation(n - 2, &sk)).expect("settle");
            }
        }
    }

    /// "crash + restart": a second signer restored from a copy of the store
    fn restart(&self) -> Result<World, String> {
        let fx = self.fx.restart_copy()?;
        Ok(World { fx, cfg: self.cfg.clone(), ccs: self.ccs.iter().map(clone_cc).collect() })
    }

    // ---- projection onto Payments.tla's variables
    fn content_json(&self, info: Option<&CommitmentInfo2>, counterparty: bool) -> Value {
        match info {
            None => json!({"some": false, "htlcs": []}),
            Some(i) => {
                let (off, rcv) = if counterparty { (&i.received_htlcs, &i.offered_htlcs) } else { (&i.offered_htlcs, &i.received_htlcs) };
                let mut v: Vec<(String, String, i64)> = vec![];
                for (d, l) in [("o", off), ("r", rcv)] {
                    for h in l.iter() {
                        let name = hash_name(&self.cfg, &h.payment_hash).unwrap_or("?".into());
                        let a = if h.value_sat % UNIT == 0 { (h.value_sat / UNIT) as i64 } else { -2 };
                        v.push((d.to_string(), name, a));
                    }
                }
                v.sort();
                json!({"some": true, "htlcs": v.iter().map(|(d, h, a)| json!({"d": d, "h": h, "a": a})).collect::<Vec<_>>()})
            }
        }
    }

    fn project(&self) -> Value {
        let now = self.fx.clock_now().as_secs();
        let mut inv = Map::new();
        let mut iss = Map::new();
        let mut pay = Map::new();
        let mut extra = 0;
        // the payment velocity window (only under a finite limit: an unlimited control is not part of the model)
        let vel = if self.cfg.vlim > 0 { window_units(&self.fx.node.get_state().velocity_control, now) } else { 0 };
        let units = |sat: u64| -> i64 { if sat % UNIT == 0 { (sat / UNIT) as i64 } else { -2 } };
        {
            let st = self.fx.node.get_state();
            for h in &self.cfg.hashes {
                let ph = payment_hash(h);
                inv.insert(h.clone(), match st.invoices.get(&ph) {
                    None => json!({"amt": -1, "ks": false, "old": false}),
                    Some(p) => json!({
                        "amt": if p.amount_msat % (UNIT * 1000) == 0 { (p.amount_msat / (UNIT * 1000)) as i64 } else { -2 },
                        "ks": format!("{}", p.payment_type) == "keysend",
                        "old": now.saturating_sub(p.duration_since_epoch.as_secs()) > 2 * 24 * 3600}),
                });
                iss.insert(h.clone(), issued_json(st.issued_invoices.get(&ph), now));
                let zero: BTreeMap<String, i64> = self.cfg.chans.iter().map(|c| (c.clone(), 0)).collect();
                pay.insert(h.clone(), match st.payments.get(&ph) {
                    None => json!({"has": false, "in": zero, "out": zero, "pre": false}),
                    Some(p) => {
                        let side = |m: &lightning_signer::prelude::OrderedMap<ChannelId, u64>| -> BTreeMap<String, i64> {
                            let mut o = zero.clone();
                            for (i, cc) in self.ccs.iter().enumerate() {
                                if let Some(v) = m.get(&cc.channel_id) {
                                    o.insert(self.cfg.chans[i].clone(), units(*v));
                                }
                            }
                            o
                        };
                        json!({"has": true, "in": side(&p.incoming), "out": side(&p.outgoing), "pre": p.preimage.is_some()})
                    }
                });
            }
            extra += st.invoices.keys().filter(|k| hash_name(&self.cfg, k).is_none()).count();
            extra += st.payments.keys().filter(|k| hash_name(&self.cfg, k).is_none()).count();
            extra += st.issued_invoices.keys().filter(|k| hash_name(&self.cfg, k).is_none()).count();
        }
        // what a restart would find: the preimages of the persisted node entry
        let mut ppre = Map::new();
        let mut piss = Map::new();
        let nodes = self.fx.store.get_nodes().expect("get_nodes");
        let pvel = if self.cfg.vlim > 0 {
            nodes.iter().map(|(_, e)| window_units(&e.state.velocity_control, now)).next().unwrap_or(0)
        } else {
            0
        };
        for h in &self.cfg.hashes {
            let e = nodes.iter().find_map(|(_, e)| e.state.issued_invoices.get(&payment_hash(h)));
            piss.insert(h.clone(), issued_json(e, now));
            let known = nodes.iter().any(|(_, e)| e.state.payments.get(&payment_hash(h)).map(|p| p.preimage.is_some()).unwrap_or(false));
            ppre.insert(h.clone(), json!(known));
        }
        let mut ch = Map::new();
        for (i, cc) in self.ccs.iter().enumerate() {
            let es = self.estate(&cc.channel_id);
            ch.insert(self.cfg.chans[i].clone(), json!({
                "curH": self.content_json(es.current_holder_commit_info.as_ref(), false),
                "nextH": self.content_json(es.next_holder_commit_info.as_ref().map(|x| &x.0), false),
                "curC": self.content_json(es.current_counterparty_commit_info.as_ref(), true)}));
        }
        let mut o = json!({"inv": inv, "iss": iss, "piss": piss, "pay": pay, "ppre": ppre, "ch": ch, "time": if now >= LATE_SECS { 1 } else { 0 },
                            "vel": vel, "pvel": pvel});
        if extra > 0 {
            o["extra"] = json!(extra);
        }
        o
    }

    /// the node's balance bookkeeping that enforce_balance uses (outside Payments.tla's variables)
    fn bookkeeping(&self) -> Value {
        json!({"excess": self.fx.node.get_state().excess_amount})
    }

    /// identity of a state: projection + the concrete ledger and commitment contents (commitment
    /// numbers, points and revocation secrets are left out: the ledger does not depend on them)
    fn key(&self, proj: &Value) -> String {
        let mut ns = node_state_json(&self.fx.node.get_state(), self.fx.network);
        // (an unlimited velocity control only accumulates; a limited one is part of the state)
        for k in ["vc", "fvc", "dbid", "allow"] {
            if k == "vc" && self.cfg.vlim > 0 {
                continue;
            }
            ns.as_object_mut().unwrap().remove(k);
        }
        let mut cs = vec![];
        for cc in &self.ccs {
            let es = self.estate(&cc.channel_id);
            cs.push(json!([serde_json::to_value(&es.current_holder_commit_info).unwrap(),
                           serde_json::to_value(es.next_holder_commit_info.as_ref().map(|x| &x.0)).unwrap(),
                           serde_json::to_value(&es.current_counterparty_commit_info).unwrap(),
                           es.channel_closed]));
        }
        digest(&json!([proj, ns, cs]))
    }

    fn snap(&self) -> WSnap {
        WSnap {
            es: self.ccs.iter().map(|cc| self.estate(&cc.channel_id)).collect(),
            node: node_snap(&self.fx.node.get_state()),
            store: dump_store(&self.fx.store.0),
            now: self.fx.clock_now(),
        }
    }

    fn restore(&self, s: &WSnap) {
        for (cc, es) in self.ccs.iter().zip(s.es.iter()) {
            self.fx
                .node
                .with_channel(&cc.channel_id, |c| {
                    c.enforcement_state = es.clone();
                    Ok(())
                })
                .expect("restore estate");
        }
        {
            let mut st = self.fx.node.get_state();
            node_restore(&mut st, &s.node);
        }
        load_store(&self.fx.store.0, &s.store);
        self.fx.clock.set(s.now);
    }
}

fn issued_json(p: Option<&lightning_signer::node::PaymentState>, now: u64) -> Value {
    match p {
        None => json!({"amt": 0, "old": false}),
        Some(p) => json!({
            "amt": if p.amount_msat % (UNIT * 1000) == 0 { (p.amount_msat / (UNIT * 1000)) as i64 } else { -2 },
            "old": now.saturating_sub(p.duration_since_epoch.as_secs()) > 2 * 24 * 3600}),
    }
}

fn clone_cc(cc: &TestChannelContext) -> TestChannelContext {
    TestChannelContext { channel_id: cc.channel_id.clone(), setup: cc.setup.clone(), counterparty_keys: cc.counterparty_keys.clone() }
}

struct WSnap {
    es: Vec<EnforcementState>,
    node: NodeSnap,
    store: Vec<(String, u64, Vec<u8>)>,
    now: Duration,
}

/// re-create a state by re-executing its request path on a fresh node
fn build(cfg: &Cfg, path: &[Value]) -> World {
    let mut w = World::new(cfg);
    for r in path {
        if r["op"] == "Restart" {
            if let Ok(w2) = w.restart() {
                w = w2;
            }
        } else {
            w.apply(r);
        }
    }
    w
}

fn err_kind(e: &str) -> String {
    // "FailedPrecondition: policy failure: validate_payments: unbalanced payments on channel ..."
    let e = e.replace("policy failure: ", "");
    e.split(|c| c == '[' || c == '0').next().unwrap_or("").chars().take(70).collect::<String>().trim().to_string()
}

struct Shared {
    queue: VecDeque<(u64, String, Vec<Value>)>,
    seen: HashMap<String, u64>,
    active: usize,
    states: u64,
    nondet: u64,
    errs: BTreeMap<String, u64>,
}

fn read_cfg(alpha: &Value) -> Cfg {
    let strs = |v: &Value| -> Vec<String> {
        let mut l: Vec<String> = v.as_array().unwrap().iter().map(|x| x.as_str().unwrap().to_string()).collect();
        l.sort();
        l
    };
    Cfg { chans: strs(&alpha["chans"]), hashes: strs(&alpha["hashes"]), fee_units: arg_u64("fee", 0), pct: arg_u64("pct", 10),
          enforce: arg_u64("enforce", 0) == 1, vlim: alpha.get("vlim").and_then(|v| v.as_u64()).unwrap_or(0) }
}

fn explore() {
    let alpha: Value = serde_json::from_str(&std::fs::read_to_string(arg("alphabet").unwrap()).unwrap()).unwrap();
    let cfg = read_cfg(&alpha);
    let alphabet: Vec<Value> = alpha["reqs"].as_array().unwrap().clone();
    let out = arg("out").unwrap();
    let threads = arg_u64("threads", 16) as usize;
    let max_states = arg_u64("max-states", 400_000);
    std::fs::create_dir_all(&out).unwrap();
    let shared = Arc::new((
        Mutex::new(Shared { queue: VecDeque::new(), seen: HashMap::new(), active: 0, states: 0, nondet: 0, errs: BTreeMap::new() }),
        Condvar::new(),
    ));
    {
        let w = build(&cfg, &[]);
        let p = w.project();
        let k = w.key(&p);
        let mut g = shared.0.lock().unwrap();
        g.seen.insert(k.clone(), 0);
        g.queue.push_back((0, k, vec![]));
        g.states = 1;
    }
    let alphabet = Arc::new(alphabet);
    let mut handles = vec![];
    for wi in 0..threads {
        let shared = shared.clone();
        let alphabet = alphabet.clone();
        let out = out.clone();
        let cfg = cfg.clone();
        handles.push(std::thread::spawn(move || {
            let mut o = NdJson::create(&format!("{}/edges-{}.ndjson", out, wi));
            let mut od = NdJson::create(&format!("{}/details-{}.ndjson", out, wi));
            let mut nedges = 0u64;
            loop {
                let item = {
                    let (m, cv) = (&shared.0, &shared.1);
                    let mut g = m.lock().unwrap();
                    loop {
                        if let Some(s) = g.queue.pop_front() {
                            g.active += 1;
                            break Some(s);
                        }
                        if g.active == 0 {
                            cv.notify_all();
                            break None;
                        }
                        g = cv.wait(g).unwrap();
                    }
                };
                let (pre_id, pre_key, path) = match item {
                    Some(s) => s,
                    None => break,
                };
                let w = build(&cfg, &path);
                let apre = w.project();
                if w.key(&apre) != pre_key {
                    // the path did not lead back to the state it was discovered in
                    shared.0.lock().unwrap().nondet += 1;
                    od.put(&json!({"node": pre_id, "nondeterministic": true, "path": path}));
                }
                let snap = w.snap();
                let mut edges = vec![];
                let mut errs: Vec<String> = vec![];
                for (ri, r) in alphabet.iter().enumerate() {
                    w.restore(&snap);
                    let (resp, apost, kpost) = if r["op"] == "Restart" {
                        match w.restart() {
                            Ok(w2) => {
                                let p = w2.project();
                                let k = w2.key(&p);
                                (json!({"ok": true, "flag": -1, "err": ""}), p, k)
                            }
                            Err(e) => (json!({"ok": false, "flag": -1, "err": format!("RESTART: {}", e)}), apre.clone(), pre_key.clone()),
                        }
                    } else {
                        let resp = w.apply(r);
                        let p = w.project();
                        let k = w.key(&p);
                        (resp, p, k)
                    };
                    let ok = resp["ok"] == true;
                    let e = resp["err"].as_str().unwrap_or("").to_string();
                    if !ok {
                        errs.push(err_kind(&e));
                    }
                    if e.starts_with("PANIC") || e.starts_with("RESTART") || e.contains("harness:") || (!ok && apost != apre) {
                        od.put(&json!({"node": pre_id, "ri": ri + 1, "path": path, "req": r, "resp": resp, "pre": apre, "post": apost}));
                    }
                    let mut npath = path.clone();
                    npath.push(r.clone());
                    let to: i64 = {
                        let mut g = shared.0.lock().unwrap();
                        match g.seen.get(&kpost) {
                            Some(i) => *i as i64,
                            None if g.states < max_states => {
                                let i = g.states;
                                g.seen.insert(kpost.clone(), i);
                                g.states += 1;
                                g.queue.push_back((i, kpost, npath));
                                shared.1.notify_one();
                                i as i64
                            }
                            None => -1,
                        }
                    };
                    edges.push(json!([to, ri + 1, if ok { 1 } else { 0 }, resp["flag"]]));
                }
                nedges += edges.len() as u64;
                o.put(&json!({"id": pre_id, "pre": apre, "x": true, "e": edges}));
                let mut g = shared.0.lock().unwrap();
                for e in errs {
                    *g.errs.entry(e).or_insert(0) += 1;
                }
                g.active -= 1;
                if g.queue.is_empty() && g.active == 0 {
                    shared.1.notify_all();
                }
            }
            o.finish();
            od.finish();
            nedges
        }));
    }
    let mut edges = 0;
    for h in handles {
        edges += h.join().unwrap();
    }
    let g = shared.0.lock().unwrap();
    println!("{}", json!({"states": g.states, "edges": edges, "truncated": g.states >= max_states, "nondeterministic": g.nondet,
                          "refusals": g.errs}));
}

/// replay request sequences, each on a fresh node; one record per step
fn run_seqs() {
    let text = std::fs::read_to_string(arg("seqs").unwrap()).unwrap();
    let mut o = NdJson::create(&arg("out").unwrap());
    let mut nseq = 0;
    for line in text.lines() {
        if line.trim().is_empty() {
            continue;
        }
        // {"chans": [...], "hashes": [...], "reqs": [...], "vlim": n (optional)}
        let item: Value = serde_json::from_str(line).unwrap();
        let cfg = read_cfg(&item);
        let mut w = World::new(&cfg);
        let mut pre = w.project();
        for (i, r) in item["reqs"].as_array().unwrap().iter().enumerate() {
            let resp = if r["op"] == "Restart" {
                match w.restart() {
                    Ok(w2) => {
                        w = w2;
                        json!({"ok": true, "flag": -1, "err": ""})
                    }
                    Err(e) => json!({"ok": false, "flag": -1, "err": format!("RESTART: {}", e)}),
                }
            } else {
                w.apply(r)
            };
            let post = w.project();
            o.put(&json!({"seq": nseq, "step": i, "pre": pre, "req": r, "resp": resp, "post": post}));
            pre = post;
        }
        nseq += 1;
    }
    let n = o.lines;
    o.finish();
    println!("{}", json!({"sequences": nseq, "steps": n}));
}

/// Concurrency leg: pairs of requests on one real node under imposed schedules (one thread held
/// before each of its lock acquisitions in turn), with the sequential outcomes a;b and b;a of the
/// implementation itself as baselines.  TLC (ConcPayments.tla) judges.
fn conc() {
    use vls_verif_harness::sched::{count_acquisitions, run_pair_held};
    let text = std::fs::read_to_string(arg("cases").unwrap()).unwrap();
    let out = arg("out").unwrap();
    let mut o = NdJson::create(&out);
    let mut oc = NdJson::create(&format!("{}.cases", out));
    let strip = |v: &Value| json!({"ok": v["ok"], "flag": v["flag"]});
    let mut runs = 0u64;
    let mut ncases = 0u64;
    for line in text.lines() {
        if line.trim().is_empty() {
            continue;
        }
        // {"id": n, "chans": [...], "hashes": [...], "prefix": [...], "a": req, "b": req, "vlim": n (optional)}
        let case: Value = serde_json::from_str(line).unwrap();
        let ci = case["id"].as_u64().unwrap();
        let cfg = read_cfg(&case);
        let prefix: Vec<Value> = case["prefix"].as_array().unwrap().clone();
        let start = |record: Option<&mut Vec<Value>>| -> World {
            let mut w = World::new(&cfg);
            let mut rec = record;
            for r in &prefix {
                let pre = if rec.is_some() { w.project() } else { Value::Null };
                let resp = if r["op"] == "Restart" {
                    match w.restart() {
                        Ok(w2) => {
                            w = w2;
                            json!({"ok": true, "flag": -1})
                        }
                        Err(_) => json!({"ok": false, "flag": -1}),
                    }
                } else {
                    w.apply(r)
                };
                if let Some(v) = rec.as_mut() {
                    v.push(json!({"pre": pre, "req": r, "resp": strip(&resp), "post": w.project()}));
                }
            }
            w.settle();
            w
        };
        let mut steps = vec![];
        let w0 = start(Some(&mut steps));
        let pre = w0.project();
        let reqs = [w0.resolve(&case["a"]), w0.resolve(&case["b"])];
        oc.put(&json!({"case": ci, "steps": steps}));
        let mut nacq = [0usize; 2];
        for i in 0..2 {
            let w = start(None);
            nacq[i] = count_acquisitions(|| {
                w.apply(&reqs[i]);
            });
        }
        let mut seqs = vec![];
        for order in [[0usize, 1usize], [1, 0]] {
            let w = start(None);
            let r1 = w.apply(&reqs[order[0]]);
            let r2 = w.apply(&reqs[order[1]]);
            let (ra, rb) = if order[0] == 0 { (r1, r2) } else { (r2, r1) };
            seqs.push(json!({"ra": strip(&ra), "rb": strip(&rb), "post": w.project(), "postx": w.bookkeeping()}));
        }
        for held in 0..2usize {
            for k in 0..=nacq[held] {
                let w = Arc::new(start(None));
                let w2 = w.clone();
                let rq = reqs.clone();
                let oc2 = run_pair_held(Arc::new(move |i: usize| w2.apply(&rq[i])), held, k);
                if oc2.stuck {
                    o.put(&json!({"case": ci, "held": held, "k": k, "stuck": true, "pre": pre, "a": reqs[0], "b": reqs[1],
                                  "ra": {"ok": false, "flag": -1}, "rb": {"ok": false, "flag": -1}, "post": pre,
                                  "postx": {"excess": -1}, "enforce": cfg.enforce, "other_ran_through": false,
                                  "sab": seqs[0], "sba": seqs[1]}));
                    o.finish();
                    oc.finish();
                    println!("{}", json!({"runs": runs, "cases": ncases, "stuck": true}));
                    std::process::exit(0);
                }
                o.put(&json!({"case": ci, "held": held, "k": k, "stuck": false, "other_ran_through": oc2.other_ran_through,
                              "pre": pre, "a": reqs[0], "b": reqs[1],
                              "ra": strip(oc2.results[0].as_ref().unwrap()), "rb": strip(oc2.results[1].as_ref().unwrap()),
                              "post": w.project(), "postx": w.bookkeeping(), "enforce": cfg.enforce,
                              "sab": seqs[0], "sba": seqs[1]}));
                runs += 1;
            }
        }
        ncases += 1;
    }
    o.finish();
    oc.finish();
    println!("{}", json!({"runs": runs, "cases": ncases, "stuck": false}));
}

fn main() {
    quiet_panics();
    match std::env::args().nth(1).unwrap_or_default().as_str() {
        "explore" => explore(),
        "run" => run_seqs(),
        "conc" => conc(),
        _ => {
            eprintln!("usage: payments explore|run|conc ...");
            std::process::exit(2);
        }
    }
}
