//! ndjson output + small helpers
use serde_json::Value;
use std::collections::hash_map::DefaultHasher;
use std::fs::File;
use std::hash::{Hash, Hasher};
use std::io::{BufWriter, Write};

pub struct NdJson {
    w: BufWriter<File>,
    pub lines: u64,
}

impl NdJson {
    pub fn create(path: &str) -> NdJson {
        NdJson { w: BufWriter::new(File::create(path).expect("create output")), lines: 0 }
    }
    pub fn put(&mut self, v: &Value) {
        serde_json::to_writer(&mut self.w, v).unwrap();
        self.w.write_all(b"\n").unwrap();
        self.lines += 1;
    }
    pub fn finish(mut self) {
        self.w.flush().unwrap();
    }
}

/// 64-bit digest of a JSON value rendered canonically (serde_json maps are BTreeMaps
/// unless preserve_order is on, which it is not in this workspace)
pub fn digest(v: &Value) -> String {
    let s = serde_json::to_string(v).unwrap();
    let mut h = DefaultHasher::new();
    s.hash(&mut h);
    let a = h.finish();
    let mut h2 = DefaultHasher::new();
    (s.len(), &s, 0x9e3779b97f4a7c15u64).hash(&mut h2);
    format!("{:016x}{:016x}", a, h2.finish())
}

/// command-line: --key value pairs
pub fn arg(name: &str) -> Option<String> {
    let args: Vec<String> = std::env::args().collect();
    let key = format!("--{}", name);
    for i in 0..args.len() {
        if args[i] == key && i + 1 < args.len() {
            return Some(args[i + 1].clone());
        }
    }
    None
}

pub fn arg_or(name: &str, default: &str) -> String {
    arg(name).unwrap_or_else(|| default.to_string())
}

pub fn arg_u64(name: &str, default: u64) -> u64 {
    arg(name).map(|s| s.parse().expect("numeric argument")).unwrap_or(default)
}

/// Run `f`, turning a panic inside the code under test into data.
pub fn catch<T>(f: impl FnOnce() -> T) -> Result<T, String> {
    let r = std::panic::catch_unwind(std::panic::AssertUnwindSafe(f));
    r.map_err(|e| {
        if let Some(s) = e.downcast_ref::<&str>() {
            s.to_string()
        } else if let Some(s) = e.downcast_ref::<String>() {
            s.clone()
        } else {
            "panic".to_string()
        }
    })
}

pub fn quiet_panics() {
    std::panic::set_hook(Box::new(|_| {}));
}
