"""Key-version-value stores (C16): legs A, B, C.  Orchestration only: TLC decides, the harness records."""
import json
import os
import re
import time

import vlib
from vlib import SPEC, log

# behaviour switches of KVV.tla, i.e. what the model says the code does at HEAD
SWITCHES = json.load(open(os.path.join(SPEC, "kvv_switches.json")))
if os.environ.get("VERIF_KVV_SWITCHES"):
    # self-test of the binding against a private, patched copy of the repository (see VERIF_HARNESS_DIR)
    SWITCHES = json.loads(os.environ["VERIF_KVV_SWITCHES"])
SWITCHES = {k: v for k, v in SWITCHES.items() if not k.startswith("_")}
MAX_CLASSES = 8     # how many distinct violation classes one graph is searched for


def _tla_bool(b):
    return "TRUE" if b else "FALSE"


def _env_switches():
    return {"KVV_BATCH_SEQUENTIAL": "true" if SWITCHES["batchSequential"] else "false",
            "KVV_CLOUD_CHECKS_STAGED": "true" if SWITCHES["cloudChecksStaged"] else "false"}


def _tla_set(xs):
    return "{" + ", ".join('"%s"' % x for x in sorted(xs)) + "}"


def trace_history(trace):
    """request history of a TLC counterexample (MC_KVV / ImplKVV / ImplKVVCloud): list of
    {req, resp codes, new classes}"""
    seq = []
    if not trace:
        return seq
    for step in trace["counterexample"]["state"]:
        last = step[1].get("last", {})
        if "req" in last:
            seq.append({"req": last["req"], "resp": {k: last[k] for k in ("m", "r", "c") if k in last},
                        "new": sorted(last.get("new", []))})
    return seq


def final_classes(trace):
    st = trace["counterexample"]["state"][-1][1]
    return sorted(st["g"]["flags"])


# --------------------------------------------------------------------------------------------
# leg A

def leg_a(kind, nkeys, maxver, maxw, workers=8, timeout=1500):
    """TLC on the model itself.  Classes of violation the model exhibits are collected one by one
    (each run ignores the classes already found) until a run completes."""
    d = os.path.join(vlib.WORK, "kvv-a-%s" % kind)
    os.makedirs(d, exist_ok=True)
    found = []
    runs = []
    while True:
        cfg = os.path.join(d, "MC_KVV_%s.cfg" % kind)
        vlib.write_cfg(cfg, "SPECIFICATION Spec\nCONSTANTS\n  Kind = \"%s\"\n  NKeys = %d\n  MaxVer = %d\n  MaxW = %d\n"
                            "  BatchSequential = %s\n  CloudChecksStaged = %s\n  Ignore = %s\n"
                            "CONSTRAINT Bound\nVIEW View\nINVARIANTS C16 TypeOK\nCHECK_DEADLOCK FALSE\n" % (
                                kind, nkeys, maxver, maxw, _tla_bool(SWITCHES["batchSequential"]),
                                _tla_bool(SWITCHES["cloudChecksStaged"]), _tla_set(c for c, _ in found)))
        r = vlib.tlc("MC_KVV", cfg, workers=workers, timeout=timeout, name="mc-kvv-" + kind)
        runs.append(r)
        if "C16" in r["violated"] and len(found) < MAX_CLASSES:
            hist = trace_history(r["trace"])
            for c in final_classes(r["trace"]):
                found.append((c, hist))
            continue
        break
    last = runs[-1]
    return {"classes": found, "states": last["states"], "distinct": last["distinct"], "depth": last["depth"],
            "violated": [v for v in last["violated"] if v != "C16" or len(found) >= MAX_CLASSES],
            "wall_s": sum(x["wall_s"] for x in runs), "runs": len(runs)}


# --------------------------------------------------------------------------------------------
# leg B

def alphabets(jobs):
    """jobs: list of (kind, nkeys, maxver, dest): one TLC run writes all alphabet files"""
    d = os.path.join(vlib.WORK, "kvv-alphabets")
    os.makedirs(d, exist_ok=True)
    jf = os.path.join(d, "jobs-%d.json" % os.getpid())
    json.dump([{"kind": k, "nkeys": n, "maxver": v, "out": o} for k, n, v, o in jobs], open(jf, "w"))
    vlib.tlc("KVVAlphabet", os.path.join(SPEC, "KVVAlphabet.cfg"), env={"KVV_JOBS": jf}, workers=1, timeout=300,
             name="kvv-alphabet")
    return [json.load(open(o)) for _, _, _, o in jobs]


def alphabet(kind, nkeys, maxver, dest):
    return alphabets([(kind, nkeys, maxver, dest)])[0]


def extract(binpath, kind, nkeys, maxver, maxw=1, threads=8, alpha_from=None, max_states=100000):
    """Leg B step 1: exhaustive exploration of the real stores' state graph."""
    d = vlib.workdir("kvv-b-%s-%d-%d" % (kind, nkeys, maxver))
    alpha = os.path.join(d, "alphabet.json")
    if alpha_from:
        os.replace(alpha_from, alpha)
        a = json.load(open(alpha))
    else:
        a = alphabet(kind, nkeys, maxver, alpha)
    t0 = time.time()
    stats = vlib.run_bin(binpath, ["explore-" + kind, "--alphabet", alpha, "--maxver", maxver, "--maxw", maxw,
                                   "--out", os.path.join(d, "ex"), "--threads", threads,
                                   "--max-states", max_states], timeout=3000)
    rows = []
    for fn in sorted(os.listdir(os.path.join(d, "ex"))):
        if fn.startswith("edges-"):
            with open(os.path.join(d, "ex", fn)) as f:
                rows += [json.loads(l) for l in f if l.strip()]
    rows.sort(key=lambda r: r["id"])
    if [r["id"] for r in rows] != list(range(len(rows))):
        raise vlib.ToolError("kvv explorer: state ids are not contiguous")
    nodes = os.path.join(d, "nodes.ndjson")
    with open(nodes, "w") as f:
        for r in rows:
            f.write(json.dumps(r) + "\n")
    res = {"dir": d, "kind": kind, "alphabet": alpha, "requests": a["reqs"], "nodes": nodes,
           "resps": os.path.join(d, "ex", "resps.json"), "stats": stats, "rows": rows,
           "wall_s": time.time() - t0, "nkeys": nkeys, "maxver": maxver, "maxw": maxw}
    log("[kvv] explored real %s stores keys=%d maxver=%d: %s in %.1fs" % (kind, nkeys, maxver, stats, res["wall_s"]))
    return res


def impl_tlc(ex, workers=8, timeout=3000):
    """Leg B step 2: TLC on the extracted graph: conformance report + monitors.  Violation classes
    are collected one by one (shortest history first) until a run completes."""
    d = ex["dir"]
    module = "ImplKVV" if ex["kind"] == "pair" else "ImplKVVCloud"
    cfg = os.path.join(d, "impl.cfg")
    vlib.write_cfg(cfg, "SPECIFICATION Spec\nVIEW View\nINVARIANTS C16\nCHECK_DEADLOCK FALSE\n")
    report = os.path.join(d, "report.json")
    ignore = os.path.join(d, "ignore.json")
    found = []
    runs = []
    # small graphs: one worker = breadth-first order = a shortest violating history at once
    small = ex["stats"]["edges"] <= 300000
    reported = False
    while True:
        json.dump([c for c, _ in found], open(ignore, "w"))
        env = {"KVV_NODES": ex["nodes"], "KVV_ALPHABET": ex["alphabet"], "KVV_RESPS": ex["resps"],
               "KVV_IGNORE": ignore, "KVV_REPORT": report, "KVV_DO_REPORT": "false" if reported else "true"}
        env.update(_env_switches())
        r = vlib.tlc(module, cfg, env=env, workers=1 if small else workers, timeout=timeout,
                     name="impl-kvv-" + ex["kind"], heap="12g")
        reported = True
        runs.append(r)
        if r["violated"] and len(found) < MAX_CLASSES:
            if not small:
                env["KVV_DO_REPORT"] = "false"
                r1 = vlib.tlc(module, cfg, env=env, workers=1, timeout=timeout, name="impl-kvv-" + ex["kind"],
                              heap="12g")
                runs.append(r1)
                if r1["violated"]:
                    r = r1
            hist = trace_history(r["trace"])
            for c in final_classes(r["trace"]):
                found.append((c, hist))
            continue
        break
    last = runs[-1]
    return {"classes": found, "report": json.load(open(report)), "states": last["states"],
            "distinct": last["distinct"], "depth": last["depth"], "complete": not last["violated"],
            "wall_s": sum(x["wall_s"] for x in runs), "runs": len(runs)}


# --------------------------------------------------------------------------------------------
# leg C

def simulate(kind, nkeys, maxver, num, depth, seed, dest_dir):
    """TLC simulation of the model: `num` behaviours of `depth` requests each (as request lists)."""
    cfg = os.path.join(dest_dir, "SimKVV_%s.cfg" % kind)
    vlib.write_cfg(cfg, "SPECIFICATION Spec\nCONSTANTS\n  Kind = \"%s\"\n  NKeys = %d\n  MaxVer = %d\n  Depth = %d\n"
                        "  BatchSequential = %s\n  CloudChecksStaged = %s\nINVARIANTS Emit\nCHECK_DEADLOCK FALSE\n" % (
                            kind, nkeys, maxver, depth, _tla_bool(SWITCHES["batchSequential"]),
                            _tla_bool(SWITCHES["cloudChecksStaged"])))
    r = vlib.tlc("SimKVV", cfg, workers=1,
                 extra=["-simulate", "num=%d" % num, "-depth", str(depth + 2), "-seed", str(seed)],
                 timeout=1800, name="sim-kvv-" + kind)
    seqs = []
    seen = set()
    for m in re.finditer(r'^<<"SIM", "(.*)">>$', r["out"], re.M):
        sq = json.loads(json.loads('"' + m.group(1) + '"'))
        k = json.dumps(sq, sort_keys=True)
        if k not in seen:
            seen.add(k)
            seqs.append({"kind": kind, "reqs": sq})
    return seqs, r


def run_sequences(binpath, seqs, out):
    """Replay request sequences through the real stores (one record per step)."""
    d = os.path.dirname(out)
    sf = os.path.join(d, "seqs.ndjson")
    with open(sf, "w") as f:
        for s in seqs:
            f.write(json.dumps(s) + "\n")
    alpha = os.path.join(d, "alphabet.json")
    if not os.path.exists(alpha):
        alphabet("cloud", 2, 1, alpha)       # only the key universe is used by `run`
    return vlib.run_bin(binpath, ["run", "--alphabet", alpha, "--seqs", sf, "--out", out])


def trace_tlc(steps_file, timeout=1800):
    """TLC validates recorded steps (conformance + monitors); classes collected one by one."""
    d = os.path.dirname(steps_file)
    cfg = os.path.join(d, "trace.cfg")
    vlib.write_cfg(cfg, "SPECIFICATION Spec\nINVARIANTS C16\nCHECK_DEADLOCK FALSE\n")
    report = os.path.join(d, "trace_report.json")
    ignore = os.path.join(d, "trace_ignore.json")
    found = []
    runs = []
    while True:
        json.dump([c for c, _ in found], open(ignore, "w"))
        env = {"KVV_STEPS": steps_file, "KVV_IGNORE": ignore, "KVV_REPORT": report}
        env.update(_env_switches())
        r = vlib.tlc("TraceKVV", cfg, env=env, workers=1, timeout=timeout, name="trace-kvv")
        runs.append(r)
        if r["violated"] and len(found) < MAX_CLASSES:
            st = r["trace"]["counterexample"]["state"][-1][1]
            where = {"seq": st["last"]["seq"], "step": st["last"]["step"]}
            for c in sorted(st["g"]["flags"]):
                found.append((c, where))
            continue
        break
    return {"classes": found, "report": json.load(open(report)), "wall_s": sum(x["wall_s"] for x in runs),
            "complete": not runs[-1]["violated"]}
