#!/usr/bin/env python3
"""Writes /verif/MANIFEST.json from the table below (one place to edit)."""
import json
import os

ROOT = os.path.dirname(os.path.dirname(os.path.abspath(__file__)))

TLC_BASE = "TLC 1.8 + CommunityModules (Json, IOUtils); rustc; the harness' projection of concrete state onto the " \
           "specification's variables; SHA-256/secp256k1 treated as injective; small-scope bounds stated in the evidence"

CHECKS = {
    "C01": dict(
        category="model_checking", design="DESIGN.md §4 C01, §9",
        text="Channel.tla (one action per entry point) is model-checked by TLC with the ghost invariant 'secret n disclosed "
             "=> n+1 accepted with verifying signatures' (leg A); the state graph of the REAL channel implementation is "
             "extracted exhaustively (every request of a TLC-generated alphabet applied to every reachable concrete state, "
             "restart included), every implementation edge is checked against Step, and TLC explores the product of that "
             "graph with the ghost monitor (leg B); TLC-simulated behaviours with larger commitment numbers are replayed "
             "through the implementation and validated as traces (leg C). Exhaustive within the bounds; the right level "
             "because the property quantifies over all request histories. Beyond the bound: HolderAbs.tla, an abstraction "
             "of the holder side with unbounded commitment numbers, has an inductive invariant PROVED with TLAPS (38 "
             "obligations) that implies C01 and C02, and TLC checks that Channel.tla refines it. Both the semantic "
             "(phase 2) and the raw-transaction (phase 1) validation entry points are requests of the model, and the "
             "protocol-handler leg drives the real handlers (protocol versions 4-6, transactional store) with the semantic "
             "and the raw messages (ValidateCommitmentTx[2], RevokeCommitmentTx, GetPerCommitmentPoint, "
             "SignCommitmentTx, SignLocalCommitmentTx2, SignMutualCloseTx[2], SignRemoteCommitmentTx[2]). The same "
             "side is also explored under the validator stack vlsd installs (OnchainValidatorFactory over the simple "
             "validator, funding confirmed and buried), and the signature kinds include the counterparty's valid "
             "signatures of another commitment number (replay).",
        technique="TLA+ spec + TLC model checking; implementation state-graph extraction validated edge-by-edge and "
                  "monitored by TLC; simulated behaviours replayed and trace-validated"),
    "C02": dict(
        category="model_checking", design="DESIGN.md §4 C02, §9",
        text="Same machinery as C01 with the ghost monitor 'signed-for-broadcast and disclosed sets are disjoint; nothing "
             "new is disclosed after the first holder signature', over all four signing entry points, mutual close, and "
             "both orders; the TLAPS-proved abstraction HolderAbs.tla covers C02 for unbounded numbers as well.",
        technique="TLA+ spec + TLC model checking; implementation state-graph extraction validated edge-by-edge and "
                  "monitored by TLC; simulated behaviours replayed and trace-validated"),
    "C03": dict(
        category="model_checking", design="DESIGN.md §4 C03, §9",
        text="Same machinery on the counterparty side (sign-counterparty-commitment / validate-revocation with right, wrong, "
             "stale, future and other-tree secrets; BOLT-3 compact secret store modelled slot by slot): ghost monitors for "
             "'all numbers below n-1 revoked when n is signed', 'at most two unrevoked signed numbers', 'accepted secret = "
             "secret of the signed point, consistent with derivable earlier secrets', 'one point/content per number'. The "
             "counter discipline (first two clauses) is also PROVED for unbounded numbers on the abstraction CpAbs.tla "
             "with TLAPS (27 obligations), which Channel.tla is checked by TLC to refine. Deep-index runs start the "
             "implementation exploration after 2^k-3 honest commitment cycles (ghost history of the prefix supplied by the "
             "specification) so that the compact secret store is exercised where the index has k trailing zero bits "
             "(quick k = 4, 8; thorough k = 3..10).",
        technique="TLA+ spec + TLC model checking; implementation state-graph extraction validated edge-by-edge and "
                  "monitored by TLC; simulated behaviours replayed and trace-validated"),
    "C10": dict(
        category="exploration", design="DESIGN.md §4 C10, §9",
        text="On every refused edge of the exhaustively extracted implementation state graphs (channel requests on the "
             "product of holder and counterparty alphabets and through the real protocol handlers over the transactional "
             "store; node-level requests incl. on-chain check+sign with channel funding; chain-tracker requests with "
             "compact / streamed / full-block proofs; node graphs with a tiny fee budget, a full table of approved "
             "invoices with the payment velocity control observed, and invoices issued by the node itself; the channel "
             "graph also under the on-chain validator stack) the harness records "
             "which of enforcement state / node state / tracker / store (exact key-version-value dump) changed; TLC "
             "evaluates the frame condition on all of them. Exploration level: exhaustive over (reachable state, refused "
             "request) pairs within the bounds, which is the quantifier of the property.",
        technique="TLC evaluates frame conditions on every refused edge of implementation state graphs extracted for the "
                  "TLA+ specifications"),
    "C11": dict(
        category="exploration", design="DESIGN.md §4 C11, §9",
        text="After every edge of the extracted implementation state graphs a second signer is restored from a copy of "
             "the store (Node::restore_nodes) and compared field by field with the running one; TLC charges an edge whose "
             "source state was restart-equal and whose target is not. Restart is also a request of the alphabets, so "
             "histories continue on restored signers. Components: channel graphs, protocol handlers over the transactional "
             "store (also: a crash between prepare and commit), node-level requests (incl. funding withdrawals), and the "
             "channel life-cycle graphs (blocks with funding / closing / sweeping transactions, reorgs, heartbeats) where "
             "the complete durable view incl. every tracker listener's watches is compared. The running signer's view is "
             "projected twice, through the store's own serde model and directly from its public fields (Debug), so that a "
             "field dropped in the persistence model itself is seen. Pairs of node-level requests are also run "
             "CONCURRENTLY under imposed schedules and the signer is restored once both have returned (ConcNode.tla "
             "NonDurable).",
        technique="TLC evaluates restart-equality observations on every edge of implementation state graphs extracted for "
                  "the TLA+ specifications"),
}

CHECKS["C20"] = dict(
    category="model_checking", design="DESIGN.md §4 C20, §9",
    text="Deadlock freedom: the lock program (sequence of acquire/release of named lock instances) of every request kind "
         "is RECORDED from the real code through the vls_verif traced mutex; Locks.tla runs every pair (thorough: triple) "
         "of programs under all interleavings with non-re-entrant locks; every deadlocked model state is replayed on real "
         "threads with a controller that holds each thread at the model's stop point, and only a deadlock that the real "
         "threads reproduce (watchdog) is reported. Atomicity: pairs of channel requests taken from TLC-simulated "
         "behaviours of Channel.tla (plus hand-picked racing pairs) run concurrently on the real signer with one thread "
         "held before each of its lock acquisitions in turn; ConcChannel.tla (TLC) checks that replies and final state "
         "equal a;b or b;a as executed sequentially by the implementation and as given by Channel!Step; the same for pairs "
         "of node-level requests (allowlist, invoices, keysends, new/setup/forget channel, on-chain check+sign, heartbeat; "
         "every pair) judged by ConcNode.tla, and for pairs of commitment requests on different channels sharing a payment "
         "hash judged by ConcPayments.tla. 51 request kinds recorded (commitment, sweeps, mutual close, invoice signing, "
         "persist_all, blocks with and without a transaction spending a channel's funding output, ...). A clock-race "
         "group lets time pass (one velocity bucket) while a request is preempted, on a node whose payment velocity "
         "budget is used up.",
    technique="lock programs recorded from the real code model-checked in TLA+ (all interleavings); model deadlocks "
              "replayed on real threads; concurrent runs under imposed schedules checked for linearizability by TLC",
    note="the recorded lock programs are schedule-independent for the recorded data situations; log level off; the traced "
         "mutex wrapper behaves like std::sync::Mutex; TLC; small scope (2-3 threads, one node, two channels)")

NOT_APPLICABLE = {
    "C19": "pure encode/decode fidelity of ~100 derive-generated message types: no state machine to specify; outside what "
           "a TLA+ model can decide (see DESIGN.md §4 C19)",
}


def main():
    # entries contributed by the component builders
    d = os.path.join(ROOT, "manifest_entries")
    if os.path.isdir(d):
        enabled = open(os.path.join(d, "ENABLED")).read().split()
        for fn in sorted(os.listdir(d)):
            if fn.endswith(".json") and fn[:-5] in enabled:
                CHECKS[fn[:-5]] = json.load(open(os.path.join(d, fn)))
    props = [json.loads(l)["id"] for l in open(os.path.join(ROOT, "properties.jsonl"))]
    checks = []
    for pid in props:
        if pid not in CHECKS:
            continue
        c = CHECKS[pid]
        checks.append({
            "property_id": pid,
            "quick_cmd": "./check %s --tier quick" % pid,
            "thorough_cmd": "./check %s --tier thorough" % pid,
            "evidence_file": "/verif/evidence/%s.json" % pid,
            "replay_cmd_template": "./check %s --replay {path}" % pid,
            "engine": "tlc+harness",
            "level_claimed": {"category": c["category"], "text": c["text"], "design_ref": c["design"]},
            "level_note": c.get("note", TLC_BASE),
            "technique": c["technique"],
        })
    na = [{"property_id": p, "reason": r} for p, r in NOT_APPLICABLE.items()]
    for pid in props:
        if pid not in CHECKS and pid not in NOT_APPLICABLE:
            na.append({"property_id": pid, "reason": "not claimed yet: the specification and binding for this property "
                                                      "are not finished in this revision"})
    hooks_file = os.path.join(ROOT, "hooks.json")
    hooks = json.load(open(hooks_file)) if os.path.exists(hooks_file) else {"source_commits": [], "add_only": True}
    m = {
        "version": 1,
        "setup_cmd": "cd /verif/harness && cp -f /repo/Cargo.lock Cargo.lock && cargo build --offline --bins 2>&1 | tail -3",
        "hooks": {
            "guard": "--cfg vls_verif",
            "enable": "RUSTFLAGS via /verif/harness/.cargo/config.toml: rustflags = [\"--cfg\", \"vls_verif\"] (only the "
                      "harness build sees the flag)",
            "baseline_off_cmd": "cd /repo && cargo test --workspace --no-fail-fast --offline",
            "source_commits": hooks.get("source_commits", []),
            "add_only": hooks.get("add_only", True),
        },
        "engines": [
            {"name": "tlc+harness", "path": "/verif/check",
             "serves_properties": [c["property_id"] for c in checks],
             "kind_free_text": "TLA+ specifications in /verif/spec checked by TLC; Rust harness (/verif/harness) drives the "
                               "real crates and records state graphs / traces that TLC validates against the specifications"}],
        "checks": checks,
        "not_applicable": na,
        "notes": "See DESIGN.md. known_findings.json lists fixed and known defects.",
    }
    with open(os.path.join(ROOT, "MANIFEST.json"), "w") as f:
        json.dump(m, f, indent=1)
    print("MANIFEST.json: %d checks, %d not claimed" % (len(checks), len(na)))


if __name__ == "__main__":
    main()
