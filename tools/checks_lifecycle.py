"""C15: channel state is discarded only when safely buried, and ids are never reused - decided by Lifecycle.tla.

 leg A  TLC model-checks Lifecycle.tla (MC_Lifecycle, small depth constants): all interleavings of new / setup /
        forget requests, heartbeats, block connections / disconnections (with real transaction dependencies),
        bury macros and restarts; invariants C15a / C15b over ghost variables computed from observations only,
        agreement of the monitor's is_done with the reference on the environment's chain; vacuity witnesses.
 leg B  the harness explores the REAL implementation's state graph (real Node, real ChainTracker with verifying
        TXOO proofs, real ChainMonitors, real transactions, the real MIN_DEPTH: Bury(98) mines 98 blocks) over the
        request alphabet TLC generated; ImplLifecycle.tla compares every edge with Lifecycle!Step (conformance,
        with D = 100, S = 106, W = 100) and explores graph x ghost monitor checking C15a / C15b.
 leg C  TLC-simulated longer behaviours (two channels with on-chain activity, several bury / unbury steps) are
        replayed through the implementation and validated by TraceLifecycle.tla.
 very deep burial (plans "deep*", model run "deep"): the alphabet TLC generates also holds Bury sizes around every
        depth constant the monitor knows (MIN_DEPTH = 100 and MAX_CLOSING_DEPTH = 2016: Bury(2015) mines 2015 real
        blocks, ~0.3 ms each): every event that does not suffice for discarding a channel - funding confirmed only,
        unilateral close only, close with only the main output / only the HTLC output swept, asked to forget or
        not - must keep the channel alive at those depths too (Lifecycle!RefDone knows MIN_DEPTH only)."""
import json
import os
import time

import lifecycle as lc
import vlib
from vlib import log

PROPERTIES = ["C15"]


def _private():
    """A mutation self-test (VERIF_HARNESS_DIR set) must not leave replays / evidence in the registered places."""
    if lc.PRIVATE:
        vlib.REPLAYS = os.path.join(vlib.WORK, "lifecycle", "private-replays")
        vlib.EVIDENCE = os.path.join(vlib.WORK, "lifecycle", "private-evidence")


FUK = ["F", "X", "M"]
UNI = ["F", "U", "S", "H", "L"]
ALL = ["F", "X", "M", "U", "V", "S", "H", "L"]
DEEP = ["F", "U", "S", "H"]


def _plans(tier):
    """(name, plan, maxshort, maxbury)"""
    if tier == "quick":
        return [("close", lc.plan(1, [1], FUK, "none", [98]), 3, 1),
                ("ids", lc.plan(2, [1], ["F", "M"], "dep", [98]), 2, 1),
                ("uni", lc.plan(1, [1], UNI, "dep", [98, 99], empty=False), 4, 1),
                # the same on a zero-fee-HTLC anchor channel (the monitor recognises the node's outputs of a
                # counterparty commitment by other scripts there)
                ("uni-anchors", lc.plan(1, [1], UNI, "dep", [99], empty=False, anchors=True), 4, 1),
                ("stub", lc.plan(1, [], [], "none", [105]), 2, 1),
                # very deep burial: one channel, single blocks F / U / S / H (never fully swept), one Bury per
                # path with 99 / 100 / 2015 / 2016 blocks (the top event gets D, D + 1, DX, DX + 1 confirmations)
                ("deep", lc.plan(1, [1], DEEP, "none", [], empty=False, around=[0, 1]), 4, 1),
                # one heartbeat prunes a buried channel and a stale stub together, in both id orders
                ("mixed", lc.plan(2, [1, 2], ["X"], "none", [106], empty=False), 2, 1),
                # crash points inside new / setup / forget requests (plain store)
                ("crash", lc.plan(1, [1], ["X"], "none", [106], empty=False, crash=True), 2, 1)]
    return [("close", lc.plan(2, [1], FUK, "none", [98, 99], empty=False), 3, 1),
            ("close-deep", lc.plan(1, [1], FUK, "dep", [98]), 3, 2),
            ("uni", lc.plan(1, [1], ["F", "U", "V", "S", "H", "L"], "dep", [98, 100]), 4, 1),
            ("uni-streamed", lc.plan(1, [1], UNI, "dep", [98, 99], mode="streamed", empty=False), 4, 1),
            ("uni-anchors", lc.plan(1, [1], UNI, "dep", [98, 100], anchors=True), 4, 1),
            ("two", lc.plan(2, [1, 2], ["F", "M"], "none", [98, 99], empty=False), 4, 1),
            ("stub", lc.plan(2, [], [], "none", [105]), 2, 1),
            ("stub-deep", lc.plan(1, [], [], "none", [105]), 3, 2),
            # very deep burial: partly and fully swept closes (with the second level), 98..101 / 2014..2017 and
            # MAX_CLOSING_DEPTH + MIN_DEPTH blocks; closes with two-transaction blocks and without holder outputs;
            # double-spend / mutual close / funding only
            ("deep", lc.plan(1, [1], UNI, "none", [], empty=False, around=[-1, 0, 1, 2, 100]), 5, 1),
            ("deep-pairs", lc.plan(1, [1], ["F", "U", "V", "S", "H", "L"], "dep", [], empty=False, around=[1]), 4, 1),
            ("deep-close", lc.plan(1, [1], FUK, "none", [], empty=False, around=[0, 1]), 3, 1),
            ("mixed", lc.plan(2, [1, 2], ["F", "M"], "dep", [106], empty=False), 2, 1),
            ("crash", lc.plan(1, [1], ["F", "M"], "dep", [98, 106], empty=False, crash=True), 2, 1),
            ("crash-two", lc.plan(2, [1], ["X"], "none", [106], empty=False, crash=True), 1, 1)]


def _model_consts(tier):
    quick = tier == "quick"
    return {"D": 3, "S": 3, "W": 4, "MaxD": 2, "Cd": [1],
            "Kinds": ["F", "X", "M", "U", "S", "H", "L"] if quick else ALL,
            "Pairs": "dep", "BurySizes": [2], "Rev": bool(lc.MON_SWITCHES["backwardInReverse"]), "Crash": False,
            "MaxH": 6 if quick else 9, "DX": 5, "Around": []}


def _model_consts_deep(tier):
    """Very deep burial in the model: one channel, single blocks, Bury sizes around D = 2 and DX = 4 (5 with the
    extra offset of the thorough tier) on top of chains of up to 5 blocks."""
    quick = tier == "quick"
    return {"D": 2, "S": 3, "W": 3, "MaxD": 1, "Cd": [1], "Kinds": ["F", "U", "S", "H", "L"], "Pairs": "none",
            # (a TLC configuration file has no negative literals: the thorough tier's offset -1 is given as the
            # explicit bury size DX - 2 instead; for D = 2 it would be the empty bury)
            "BurySizes": [] if quick else [2], "Rev": bool(lc.MON_SWITCHES["backwardInReverse"]), "Crash": False,
            "MaxH": 10 if quick else 12, "DX": 4, "Around": [0, 1] if quick else [0, 1, 2]}


TEXT = {"C15c": "a channel appeared with the id (or a lower id) of a channel the signer had forgotten after an "
                "interrupted, never answered forget request",
        "C15a": "a ready channel disappeared while the reference says it must be kept",
        "C15b": "a channel appeared with an id at or below a forgotten one",
        "C15r": "a signer restored from the store does not have the running signer's channels"}


def _violation(inv, reqs, where, plan, extra=None, detail=None, msg=""):
    key = lc.classify(inv, reqs, detail)
    what = ("%s%s on the real implementation (%s): %s" % (
        TEXT[inv], (" [%s %s]" % (detail or "", msg)) if (detail or msg) else "",
        where, " ; ".join(lc.req_str(r) for r in reqs)))
    rp = {"kind": "lifecycle-seq", "plan": plan, "requests": reqs, "invariant": inv, "expect": key}
    if extra:
        rp.update(extra)
    return {"key": key, "what": what, "replay": rp}


def run(pid, tier):
    t0 = time.time()
    _private()
    quick = tier == "quick"
    binpath = vlib.build("lifecycle")
    cov = {"legs": {}}
    violations = []
    divergences = []
    samples = []

    # ---- leg A: the model itself
    consts = _model_consts(tier)
    a = lc.leg_a("main", consts, ["C15a", "C15b", "TypeOK", "ModelAgrees", "BuryLemma"], ["Frame"], workers=8)
    cov["legs"]["A_model"] = {"constants": consts, "states": a["distinct"], "transitions": a["states"],
                              "depth": a["depth"], "violated": a["violated"], "wall_s": round(a["wall_s"], 1)}
    model_cex = None
    if a["violated"]:
        model_cex = {"violated": a["violated"], "requests": [lc.req_str(r) for r in lc.cex_requests(a["trace"])]}
        log("[%s] leg A: the MODEL violates %s - a hypothesis about the code: %s" % (pid, a["violated"], model_cex))
    elif a["distinct"] < 1000 or a["depth"] < 8:
        raise vlib.ToolError("leg A is vacuous: %d states, depth %d" % (a["distinct"], a["depth"]))
    a_states, a_trans = a["distinct"], a["states"]
    # very deep burial: every partly swept close buried by DX and more
    cd_ = _model_consts_deep(tier)
    ad = lc.leg_a("deep", cd_, ["C15a", "C15b", "TypeOK", "ModelAgrees", "BuryLemma"], ["Frame"], workers=4)
    cov["legs"]["A_model_deep"] = {"constants": cd_, "states": ad["distinct"], "transitions": ad["states"],
                                   "depth": ad["depth"], "violated": ad["violated"], "wall_s": round(ad["wall_s"], 1)}
    if ad["violated"] and not model_cex:
        model_cex = {"violated": ad["violated"], "requests": [lc.req_str(r) for r in lc.cex_requests(ad["trace"])]}
        log("[%s] leg A (deep): the MODEL violates %s: %s" % (pid, ad["violated"], model_cex))
    a_states += ad["distinct"]
    a_trans += ad["states"]
    if not quick:
        # two channels with on-chain activity
        c2 = dict(consts, Cd=[1, 2], Kinds=["F", "X", "M", "U", "S"], MaxH=7)
        a2 = lc.leg_a("two", c2, ["C15a", "C15b", "TypeOK", "ModelAgrees"], ["Frame"], workers=8)
        cov["legs"]["A_model_two_channels"] = {"constants": c2, "states": a2["distinct"], "transitions": a2["states"],
                                               "depth": a2["depth"], "violated": a2["violated"],
                                               "wall_s": round(a2["wall_s"], 1)}
        if a2["violated"] and not model_cex:
            model_cex = {"violated": a2["violated"],
                         "requests": [lc.req_str(r) for r in lc.cex_requests(a2["trace"])]}
        a_states += a2["distinct"]
        a_trans += a2["states"]
    # vacuity witnesses: each of these "never" properties must be violated by the model
    guards = ["NeverPrunedReady", "NeverKeptAtDm1"] if quick else \
        ["NeverPrunedReady", "NeverKeptAtDm1", "NeverPrunedStub", "NeverRefusedNew", "NeverTooDeep"]
    wit = {}
    for gname in guards:
        w = lc.leg_a("wit-" + gname, consts, [], [gname], workers=4, timeout=600)
        wit[gname] = [lc.req_str(r) for r in lc.cex_requests(w["trace"])] if w["violated"] else None
        if not w["violated"]:
            raise vlib.ToolError("leg A vacuity guard: %s is never falsified by the model" % gname)
    w = lc.leg_a("wit-NeverKeptBeyondDX", cd_, [], ["NeverKeptBeyondDX"], workers=4, timeout=600)
    if not w["violated"]:
        raise vlib.ToolError("leg A vacuity guard: NeverKeptBeyondDX is never falsified by the deep model")
    wit["NeverKeptBeyondDX"] = [lc.req_str(r) for r in lc.cex_requests(w["trace"])]
    cov["legs"]["A_model"]["witnesses"] = wit

    # ---- leg B: implementation state graphs
    tot_nodes = tot_edges = tot_product = tot_gen = 0
    truncated = []
    exercised = {"pruned_ready_edges": 0, "pruned_stub_edges": 0, "kept_forgotten_edges": 0, "kept_at_depth_Dm1": 0,
                 "refused_new": 0, "aborts": 0, "restart_unequal_states": 0, "restart_bad_states": 0,
                 "restore_fails_states": 0, "mixed_prune_edges": 0, "mixed_prune_stub_above_edges": 0,
                 "kept_beyond_DX_funding_only": 0, "kept_beyond_DX_close_unswept": 0,
                 "kept_beyond_DX_main_output_swept": 0, "kept_beyond_DX_not_asked": 0}
    for name, pl, maxshort, maxbury in _plans(tier):
        ex = lc.explore(binpath, name, pl, maxshort, maxbury, threads=8 if quick else 12,
                        max_states=25000 if quick else 120000)
        truncated += [name] if ex["truncated"] else []
        # one monitor at a time where several are expected to speak (TLC stops at the first violated invariant)
        runs = [lc.impl_tlc(ex, invariants=(i,), workers=1) for i in ("C15a", "C15b", "C15c", "C15r")] if pl.get("crash") \
            else [lc.impl_tlc(ex)]
        r = runs[0]
        r["wall_s"] = sum(x["wall_s"] for x in runs)
        all_violated = [i for x in runs for i in x["violated"]]
        rep = r["report"]
        if not rep["root_ok"]:
            raise vlib.ToolError("lifecycle harness: initial state is not the specification's initial state")
        leg = "B_impl_" + name
        cov["legs"][leg] = {
            "plan": {k: pl.get(k) for k in ("maxd", "cd", "kinds", "pairs", "bury", "around", "mode", "empty", "crash", "anchors")},
            "bury_sizes": sorted({r["k"] for r in ex["cases"]["requests"] if r["op"] == "Bury"}),
            "maxshort": maxshort, "maxbury": maxbury, "requests_in_alphabet": len(ex["cases"]["requests"]),
            "impl_states": rep["nodes"], "impl_edges": rep["edges"], "refused_edges": ex["stats"]["refused"],
            # removals the harness could not perform (compact-filter false positive): edges left unexplored
            "skipped_filter_fp": ex["stats"].get("skipped_filter_fp", 0),
            "aborts": rep["aborts"], "spec_divergences": rep["n_divergences"],
            "pruned_ready_edges": rep["pruned_ready_edges"], "pruned_stub_edges": rep["pruned_stub_edges"],
            "kept_forgotten_edges": rep["kept_forgotten_edges"], "kept_at_depth_D_minus_1": rep["kept_at_depth_Dm1"],
            "refused_new": rep["refused_new"], "restart_unequal_states": rep["restart_unequal_states"],
            "restart_judged_states": rep["nodes"], "restart_bad_states": rep["restart_bad_states"],
            "restore_fails_states": rep["restore_fails_states"], "mixed_prune_edges": rep["mixed_prune_edges"],
            "mixed_prune_stub_above_edges": rep["mixed_prune_stub_above_edges"],
            "kept_beyond_MAX_CLOSING_DEPTH": {k[len("kept_beyond_DX_"):]: rep[k] for k in exercised
                                              if k.startswith("kept_beyond_DX_")},
            "product_states": r["distinct"], "product_transitions": r["states"], "violated": all_violated,
            "wall_s": round(r["wall_s"] + ex["wall_s"], 1)}
        tot_nodes += rep["nodes"]
        tot_edges += rep["edges"]
        tot_product += r["distinct"]
        tot_gen += r["states"]
        for k in exercised:
            exercised[k] += rep.get(k, 0)
        for dv in rep["divergences"][:6]:
            det = ex["details"].get((dv["node"], dv["ri"]), {})
            divergences.append({"run": leg, "path": [lc.req_str(ex["cases"]["requests"][i - 1]) for i in dv["path"]],
                                "req": lc.req_str(dv["req"]), "rc": dv["rc"], "expected_rc": dv["expected_rc"],
                                "post": dv["post"], "expected": dv["expected"], "msg": det.get("msg", "")})
        for rr in runs:
            reqs = lc.cex_requests(rr["trace"]) if rr["violated"] else []
            for inv in rr["violated"]:
                detail, msg = None, ""
                if inv == "C15r":
                    row = ex["rows"][lc.cex_state(rr["trace"])["node"]]
                    detail, msg = lc.restart_detail(row["pre"], row["rs"]), row["rs"].get("msg", "")
                elif reqs and reqs[-1]["op"].endswith("Crash"):
                    msg = ex["details"].get((lc.cex_final(rr["trace"])["last"]["from"],
                                             lc.cex_final(rr["trace"])["last"]["ri"]), {}).get("msg", "")
                violations.append(_violation(inv, reqs, leg, pl, detail=detail, msg=msg))
        if not samples:
            for row in ex["rows"]:
                if len(row["p"]) >= 5 and any(c["ph"] == "ready" and c["fg"] for c in row["pre"]["chans"]):
                    samples.append({"request_path": [lc.req_str(ex["cases"]["requests"][i - 1]) for i in row["p"]],
                                    "state": row["pre"],
                                    "requests_applied": [lc.req_str(ex["cases"]["requests"][e[1] - 1]) +
                                                         " -> " + {1: "ok", 0: "refused", 2: "abort"}[e[2]]
                                                         for e in row["e"]]})
                    break
    if truncated and not violations:
        raise vlib.ToolError("lifecycle exploration exhausted its state budget in %s and found no violation: "
                             "the result is incomplete" % truncated)
    # vacuity of leg B: the situations the property talks about must have been exercised on the real code
    for k in ("pruned_ready_edges", "pruned_stub_edges", "kept_at_depth_Dm1", "refused_new", "mixed_prune_edges",
              "mixed_prune_stub_above_edges", "kept_beyond_DX_funding_only", "kept_beyond_DX_close_unswept",
              "kept_beyond_DX_main_output_swept", "kept_beyond_DX_not_asked"):
        if exercised[k] == 0 and not violations:
            raise vlib.ToolError("leg B never exercised %s" % k)

    # ---- leg C: model behaviours replayed through the implementation, validated by TLC
    nsim, depth, mb = (60, 30, 4) if quick else (500, 44, 6)
    d = lc.wd("c")
    pl = lc.plan(2, [1, 2], ALL, "dep", [98, 105])
    c = lc.cases(d, pl)
    seqs, sim = lc.simulate(d, pl, nsim, depth, mb, vlib.seed())
    steps_file = os.path.join(d, "steps.ndjson")
    rs = lc.run_sequences(binpath, c, seqs, steps_file)
    tr = lc.trace_tlc(steps_file, c)
    trep = tr["report"]
    if trep["broken"]:
        raise vlib.ToolError("lifecycle traces: %d steps do not start where the previous one ended" % trep["broken"])
    cov["legs"]["C_sim_replay"] = {"behaviours": rs.get("sequences", 0), "steps": trep["steps"], "depth": depth,
                                   "aborts": trep["aborts"], "refused": trep["refused"],
                                   "pruned_ready_steps": trep["pruned_ready_steps"], "max_height": trep["max_height"],
                                   "spec_divergences": trep["n_divergences"], "violated": tr["violated"]}
    for dv in trep["divergences"][:6]:
        divergences.append({"run": "C_sim_replay", "seq": dv["seq"], "step": dv["step"], "req": lc.req_str(dv["req"]),
                            "rc": dv["rc"], "expected_rc": dv["expected_rc"], "post": dv["post"],
                            "expected": dv["expected"]})
    if tr["violated"]:
        steps = [json.loads(x) for x in open(steps_file) if x.strip()]
        # the step at which the invariant first fails: TLC's counterexample ends in the state l = step + 1
        n = lc.cex_state(tr["trace"]).get("l", tr["distinct"]) - 1
        e = steps[max(0, min(n, len(steps)) - 1)]
        reqs = [s["req"] for s in steps if s["seq"] == e["seq"] and s["step"] <= e["step"]]
        for inv in tr["violated"]:
            detail = lc.restart_detail(e["post"], e["rs"]) if inv == "C15r" else None
            violations.append(_violation(inv, reqs, "C_sim_replay", pl, detail=detail, msg=e["rs"].get("msg", "")))
    if seqs:
        samples.append({"simulated_behaviour": [lc.req_str(r) for r in seqs[0]]})

    # ---- verdict
    code, unknown, known = vlib.verdict(pid, violations)
    ndiv = sum(v.get("spec_divergences", 0) for v in cov["legs"].values())
    if ndiv:
        log("[%s] NOTE: %d implementation edges are not edges of Lifecycle.tla (the specification needs updating; "
            "not a property violation): %s" % (pid, ndiv, json.dumps(divergences[:2])[:1500]))
    cov.update({
        "states": max(1, tot_product + a_states),
        "transitions": max(1, tot_gen + a_trans),
        "traces_validated_against_impl": tot_edges + trep["steps"],
        "impl_states_total": tot_nodes,
        "impl_edges_total": tot_edges,
        "exercised_on_real_code": exercised,
        "samples": samples or [{"note": "none"}],
        "exhaustive": True,
        "finding_classes": [v["key"] for v in violations],
        "spec_divergences": divergences[:30],
        "model_only_counterexample": model_cex if model_cex and not violations else None,
        "switches": lc.MON_SWITCHES,
        "explanation": "TLC (a) model-checks Lifecycle.tla with small depth constants, (b) walks the state graphs "
                       "extracted from the real crates (every request of the TLC-generated alphabet that the "
                       "environment can issue, applied to every reachable concrete state; burying mines the real "
                       "number of blocks) in product with the ghost monitor - a ready channel may only disappear "
                       "when forget_channel was answered for it and a double-spend / mutual close / fully swept "
                       "unilateral close has >= 100 confirmations on the chain the harness itself built (no other "
                       "event suffices at any depth: the 'deep' plans bury funding-only / close-only / partly swept "
                       "closes by MAX_CLOSING_DEPTH = 2016 real blocks and more); no "
                       "channel may appear with an id <= a forgotten one - and compares each edge with "
                       "Lifecycle!Step, (c) validates replayed simulated behaviours the same way",
    })
    vlib.write_evidence(pid, tier, "model_checking", cov,
                        ["bitcoin consensus: a block only spends unspent outputs, transactions appear after the "
                         "ones they spend (valid histories only); funding transactions are mined after setup_channel",
                         "the front end builds compact proofs from the signer's own watches (or streams the block) "
                         "and persists the tracker after every block, as the protocol handler does",
                         "forget_channel is addressed by the node-assigned id (dbid), as the protocol handler does; "
                         "channels are set up without a separate permanent id",
                         "small scope: <= 2 node-assigned ids, one unilateral-close shape (holder output + one HTLC "
                         "+ second level) and one without holder outputs, chains of <= 4 single blocks plus <= 2 "
                         "runs of 98 / 99 / 105 empty blocks exhaustively; longer in simulation; very deep burial: one "
                         "channel, one run of empty blocks per history with sizes around MIN_DEPTH and "
                         "MAX_CLOSING_DEPTH = 2016 (up to 2116 in the thorough tier)",
                         "'buried by the required number of blocks' = MIN_DEPTH = 100 confirmations counting the "
                         "block of the event (depth_of in monitor.rs)",
                         "while the monitor's backward pass has the C14 defects (monitor_switches.json) the "
                         "compact-proof runs do not disconnect blocks holding HTLC / second-level spends",
                         "TLC and the Json/IOUtils community modules; rust-bitcoin, LDK transaction builders, txoo"],
                        time.time() - t0, unknown + known)
    return code


def replay(pid, obj):
    """Re-run a recorded violating request sequence on the real implementation and let TLC judge."""
    _private()
    rp = obj["replay"]
    binpath = vlib.build("lifecycle")
    d = lc.wd("replay")
    c = lc.cases(d, rp["plan"])
    steps_file = os.path.join(d, "steps.ndjson")
    lc.run_sequences(binpath, c, [rp["requests"]], steps_file, mode=lc.hmode(rp["plan"]))
    tr = lc.trace_tlc(steps_file, c, name="replay")
    for x in open(steps_file):
        e = json.loads(x)
        ph = lambda p: ",".join("%d:%s%s" % (i + 1, ch["ph"], "(forget)" if ch["fg"] else "")
                                for i, ch in enumerate(p["chans"]))
        print("  %-22s -> %-7s h=%d mark=%d  channels %s  %s" % (
            lc.req_str(e["req"]), {1: "ok", 0: "refused", 2: "ABORT"}[e["rc"]], e["post"]["h"], e["post"]["mark"],
            ph(e["post"]), e["msg"]))
    if tr["violated"]:
        print("VIOLATION property=%s replay=%s" % (pid, "(reproduced: %s)" % ",".join(tr["violated"])))
        return 1
    print("not reproduced")
    return 0
