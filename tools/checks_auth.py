"""C17: externally stored state is authenticated against tampering, swapping and replay.

Decided by Auth.tla:
  leg A  TLC model-checks the tag framing model (MC_Auth.tla; small alphabet, version width 2)
  leg B  TLC generates the case matrix from the specification (AuthGen/AuthCases.tla, real width 8);
         the harness applies every case in every session state of the REAL code
         (vls-core ExternalPersistHelper / compute_shared_hmac; lightning-storage-server util.rs);
         TLC (ImplAuth.tla) compares every edge with Step and evaluates the monitors
  leg C  TLC-simulated sessions (SimAuth.tla) and seeded random sessions replayed through the real
         code, validated step by step by TLC (TraceAuth.tla)
A violation is reported only when the monitor fails on an acceptance observed from the real code."""
import json
import os
import time

import auth
import vlib
from vlib import log

PROPERTIES = ["C17"]
INVS = ["C17a", "C17b", "C17c"]


def _consts(mon, quick):
    if mon == "C17c":
        return {"letters": [0, 1], "W": 2, "maxkey": 1 if quick else 2, "maxval": 1, "maxrecs": 2, "maxn": 2}
    if mon == "C17a":
        return {"letters": [0, 1] if quick else [0, 1, 2], "W": 2, "maxkey": 2, "maxval": 2, "maxrecs": 1, "maxn": 2}
    return {"letters": [0, 1, 2], "W": 2, "maxkey": 2, "maxval": 2, "maxrecs": 2, "maxn": 2 if quick else 3}


def _cex(trace):
    try:
        st = trace["counterexample"]["action"][-1][2][1]
        return {"n": st["s"]["n"], "written": st["w"], "request": st["last"].get("r"),
                "keys": sorted(auth.key_str(k) for m in ("a", "b", "c") for k in st["g"][m])}
    except Exception:
        return None


def _violations_from(report, source, n_of):
    out = []
    for v in report["violations"]:
        ex = v["example"]
        key = auth.key_str(v["key"])
        n = n_of(ex)
        out.append({"key": key,
                    "what": "%s [%d such acceptances in %s; in a session that has drawn %d nonce(s)]" % (
                        auth.describe_req(ex["req"]), v["count"], source, n),
                    "replay": {"kind": "auth-seq", "requests": [auth.NEW_NONCE] * n + [ex["req"]],
                               "verdict": ex["verdict"]}})
    return out


def run(pid, tier):
    t0 = time.time()
    quick = tier == "quick"
    binpath = vlib.build("auth")
    framed = auth.SWITCHES["framed"]
    cov = {"legs": {}, "switches": auth.SWITCHES}
    violations = []
    divergences = []
    samples = []

    # ---- leg A: the model itself, one monitor at a time
    a_states = a_trans = 0
    hypotheses = []
    for mon in INVS:
        a = auth.leg_a(mon, _consts(mon, quick), framed, INVS, workers=8 if quick else 12)
        a_states += a["distinct"]
        a_trans += a["states"]
        cov["legs"]["A_model_%s" % mon] = {"constants": _consts(mon, quick), "framed": framed, "states": a["distinct"],
                                           "transitions": a["states"], "violated": a["violated"],
                                           "wall_s": round(a["wall_s"], 1)}
        if a["violated"]:
            cx = _cex(a["trace"])
            hypotheses.append({"mon": mon, "violated": a["violated"], "counterexample": cx})
            log("[C17] leg A: the MODEL (framed=%s) violates %s in mode %s (hypothesis about the code): %s" % (
                framed, a["violated"], mon, cx and cx["keys"]))
        if not framed:
            # design-level validation of the proposed repair: with length framing the invariants hold
            f = auth.leg_a(mon, _consts(mon, quick), True, INVS, workers=8 if quick else 12, tag="-framed")
            a_states += f["distinct"]
            a_trans += f["states"]
            cov["legs"]["A_model_%s_with_repair" % mon] = {"framed": True, "states": f["distinct"],
                                                           "transitions": f["states"], "violated": f["violated"],
                                                           "wall_s": round(f["wall_s"], 1)}
    # vacuity guard: acceptance and refusal are both reachable in the model
    for guard in ("NeverAccepts", "NeverRefuses"):
        v = auth.leg_a("C17b", _consts("C17b", True), framed, [guard], workers=2, tag="-" + guard, view=False)
        if guard not in v["violated"]:
            raise vlib.ToolError("vacuity guard: %s holds in MC_Auth (the model never %s)" % (
                guard, "accepts" if guard == "NeverAccepts" else "refuses"))
    cov["legs"]["A_vacuity"] = {"accepting_and_refusing_transitions_reachable": True}

    # ---- leg B: TLC-generated case matrix on the real implementation's session states
    d = vlib.workdir("auth-b")
    cases = os.path.join(d, "cases.ndjson")
    ncases, gen_s = auth.gen_cases(tier, cases)
    maxn = 2 if quick else 3
    st = auth.explore(binpath, cases, maxn, os.path.join(d, "ex"))
    nodes = os.path.join(d, "ex", "nodes.ndjson")
    b = auth.impl_tlc(nodes, cases, os.path.join(d, "report.json"), workers=4 if quick else 8)
    rep = b["report"]
    cov["legs"]["B_impl_matrix"] = {
        "cases_generated_by_tlc": ncases, "session_states": rep["nodes"], "impl_edges": rep["edges"],
        "accepted_edges": rep["accepted"], "refused_modifications": rep["refused_modifications"],
        "inapplicable": st.get("inapplicable", 0), "spec_divergences": rep["divergence_count"],
        "impl_stricter": len(rep["impl_stricter"]), "monitor_violations": rep["violation_count"],
        "violation_keys": {auth.key_str(v["key"]): v["count"] for v in rep["violations"]},
        "product_states": b["distinct"], "product_transitions": b["states"], "violated": b["violated"],
        "wall_s": round(gen_s + st["wall_s"] + b["wall_s"], 1)}
    divergences += [{"leg": "B", **x} for x in rep["divergences"]]
    violations += _violations_from(rep, "leg B (case matrix)", lambda ex: ex["n"])
    for x in rep["sample_legit"] + rep["sample_refused"] + [v["example"] for v in rep["violations"][:2]]:
        samples.append({"session_nonces_drawn": x["n"], "request": x["req"], "real_code_accepted": x["ok"],
                        "specification_expects_accept": x["expected_ok"], "monitor": x["verdict"]})

    # ---- leg C: simulated and random sessions through the real code, validated by TLC
    dc = vlib.workdir("auth-c")
    pool = os.path.join(dc, "pool.ndjson")
    npool, _ = auth.gen_cases("sim", pool)
    nsim, depth, nwalk = (30, 30, 20000) if quick else (200, 60, 150000)
    seqs, sim = auth.simulate(pool, nsim, depth, vlib.seed(), dc)
    rs = auth.run_sequences(binpath, seqs, os.path.join(dc, "steps_sim.ndjson"))
    rw = auth.walk(binpath, nwalk, os.path.join(dc, "steps_walk.ndjson"))
    steps_file = os.path.join(dc, "steps.ndjson")
    nsteps = auth.concat_steps([os.path.join(dc, "steps_sim.ndjson"), os.path.join(dc, "steps_walk.ndjson")],
                               steps_file)
    tr = auth.trace_tlc(steps_file)
    trep = tr["report"]
    cov["legs"]["C_sessions"] = {
        "pool_generated_by_tlc": npool, "simulated_behaviours": rs.get("sequences", 0),
        "simulated_steps": rs.get("steps", 0), "random_sessions": rw.get("sequences", 0),
        "random_steps": rw.get("steps", 0), "steps_validated": trep["steps"], "max_nonces_drawn": trep["max_n"],
        "accepted_steps": trep["accepted"], "refused_modifications": trep["refused_modifications"],
        "spec_divergences": trep["divergence_count"], "broken": len(trep["broken"]),
        "impl_stricter": len(trep["impl_stricter"]), "monitor_violations": trep["violation_count"],
        "violation_keys": {auth.key_str(v["key"]): v["count"] for v in trep["violations"]},
        "violated": tr["violated"], "wall_s": round(sim["wall_s"] + tr["wall_s"], 1)}
    if nsteps != trep["steps"] or trep["broken"]:
        raise vlib.ToolError("leg C: recorded steps are inconsistent (%d written, %d loaded, %d broken)" % (
            nsteps, trep["steps"], len(trep["broken"])))
    divergences += [{"leg": "C", **x} for x in trep["divergences"]]
    for x in trep["sample_refused"][:1]:
        samples.append({"session_nonces_drawn": x["n"], "request": x["req"], "real_code_accepted": x["ok"],
                        "specification_expects_accept": x["expected_ok"], "monitor": x["verdict"], "leg": "C"})
    have = {v["key"] for v in violations}
    violations += [v for v in _violations_from(trep, "leg C (sessions)", lambda ex: ex["n"]) if v["key"] not in have]

    code, unknown, known = vlib.verdict(pid, violations)
    ndiv = rep["divergence_count"] + trep["divergence_count"]
    if ndiv:
        log("[C17] NOTE: %d implementation edges/steps are not edges of Auth.tla with framed=%s (the specification "
            "switch spec/auth_switches.json needs updating; not a property violation)" % (ndiv, framed))
    model_only = [h for h in hypotheses if not violations]
    cov.update({
        "states": max(1, a_states + b["distinct"] + tr["distinct"]),
        "transitions": max(1, a_trans + b["states"] + tr["states"]),
        "traces_validated_against_impl": rep["edges"] + trep["steps"],
        "samples": samples or [{"note": "no accepted modified input"}],
        "exhaustive": True,
        "spec_divergence_count": ndiv,
        "spec_divergences": divergences[:40],
        "model_hypotheses": hypotheses,
        "model_only_counterexample": model_only or None,
        "explanation": "TLC (a) model-checks Auth.tla (tag pre-image framing; all record lists / records of a small "
                       "universe against all others), (b) generates the case matrix (every alternative parse of the "
                       "unframed bytes, every single-bit flip and structural edit, every context, modified tags) and "
                       "judges every acceptance decision the real code made on it in every session state, (c) "
                       "validates simulated and random sessions replayed through the real code",
    })
    vlib.write_evidence(pid, tier, "model_checking", cov,
                        ["HMAC-SHA256 is collision and second-pre-image resistant and unforgeable without the key: two "
                         "tags are equal iff computed with the same key over the same bytes (the specification models "
                         "the bytes fed to the HMAC engine)",
                         "fresh nonces are unpredictable 32-byte values (deterministic test entropy stands in for them)",
                         "lightning-storage-server util.rs is compiled without the `crypt` feature, as VLS links it",
                         "the comparison sites outside the two libraries (nodefront.rs, lssd put/get handlers, lss "
                         "client driver.rs) are mirrored by byte comparison in the harness",
                         "small scope: keys up to 3 bytes, values up to 9 bytes, up to 3 records in the matrix; random "
                         "sessions up to 12-byte keys, 40-byte values",
                         "TLC and the Json/IOUtils community modules"],
                        time.time() - t0, unknown + known)
    return code


def replay(pid, obj):
    """Re-run a recorded violating request sequence on the real implementation and let TLC judge."""
    rp = obj["replay"]
    binpath = vlib.build("auth")
    d = vlib.workdir("auth-replay")
    steps_file = os.path.join(d, "steps.ndjson")
    auth.run_sequences(binpath, [rp["requests"]], steps_file)
    tr = auth.trace_tlc(steps_file, name="trace-auth-replay")
    for x in open(steps_file):
        e = json.loads(x)
        print("  n=%d %s -> %s" % (e["pre"]["n"], json.dumps(e["req"], sort_keys=True), json.dumps(e["resp"], sort_keys=True)))
    keys = [auth.key_str(v["key"]) for v in tr["report"]["violations"]]
    if keys:
        print("  monitor: %s" % ", ".join(keys))
        print("VIOLATION property=%s replay=%s" % (pid, "(reproduced)"))
        return 1
    print("not reproduced")
    return 0
