"""C17: externally stored state is authenticated against tampering, swapping and replay.

Decided by Auth.tla:
  leg A  TLC model-checks the tag framing model (MC_Auth.tla; small alphabet, version width 2)
  leg B  TLC generates the case matrix from the specification (AuthGen/AuthCases.tla, real width 8);
         the harness applies every case in every session state of the REAL code
         (vls-core ExternalPersistHelper / compute_shared_hmac; lightning-storage-server util.rs);
         TLC (ImplAuth.tla) compares every edge with Step and evaluates the monitors
  leg C  TLC-simulated sessions (SimAuth.tla) and seeded random sessions replayed through the real
         code, validated step by step by TLC (TraceAuth.tla)
A violation is reported only when the monitor fails on an acceptance observed from the real code."""
import json
import os
import time

import auth
import vlib
from vlib import log

PROPERTIES = ["C17"]
INVS = ["C17a", "C17b", "C17c"]


def _consts(mon, quick):
    if mon == "C17c":
        return {"letters": [0, 1], "W": 2, "maxkey": 1 if quick else 2, "maxval": 1, "maxrecs": 2, "maxn": 2}
    if mon == "C17a":
        return {"letters": [0, 1] if quick else [0, 1, 2], "W": 2, "maxkey": 2, "maxval": 2, "maxrecs": 1, "maxn": 2}
    if mon == "C17d":
        return {"letters": [0, 1], "W": 2, "maxkey": 1, "maxval": 1, "maxrecs": 1, "maxn": 3 if quick else 4}
    return {"letters": [0, 1, 2], "W": 2, "maxkey": 2, "maxval": 2, "maxrecs": 2, "maxn": 2 if quick else 3}


def _cex(trace):
    try:
        st = trace["counterexample"]["action"][-1][2][1]
        return {"n": st["s"]["n"], "written": st["w"], "request": st["last"].get("r"),
                "keys": sorted(auth.key_str(k) for m in ("a", "b", "c") for k in st["g"][m])}
    except Exception:
        return None


def _violations_from(report, source, n_of):
    out = []
    for v in report["violations"]:
        ex = v["example"]
        key = auth.key_str(v["key"])
        n = n_of(ex)
        out.append({"key": key,
                    "what": "%s [%d such acceptances in %s; in a session that has drawn %d nonce(s)]" % (
                        auth.describe_req(ex["req"]), v["count"], source, n),
                    "replay": {"kind": "auth-seq", "requests": [auth.NEW_NONCE] * n + [ex["req"]],
                               "verdict": ex["verdict"]}})
    return out


def run(pid, tier):
    t0 = time.time()
    quick = tier == "quick"
    binpath = vlib.build("auth")
    framed = auth.SWITCHES["framed"]
    cov = {"legs": {}, "switches": auth.SWITCHES}
    violations = []
    divergences = []
    samples = []

    # ---- leg A: the model itself, one monitor at a time
    a_states = a_trans = 0
    hypotheses = []
    for mon in INVS:
        a = auth.leg_a(mon, _consts(mon, quick), framed, INVS, workers=8 if quick else 12)
        a_states += a["distinct"]
        a_trans += a["states"]
        cov["legs"]["A_model_%s" % mon] = {"constants": _consts(mon, quick), "framed": framed, "states": a["distinct"],
                                           "transitions": a["states"], "violated": a["violated"],
                                           "wall_s": round(a["wall_s"], 1)}
        if a["violated"]:
            cx = _cex(a["trace"])
            hypotheses.append({"mon": mon, "violated": a["violated"], "counterexample": cx})
            log("[C17] leg A: the MODEL (framed=%s) violates %s in mode %s (hypothesis about the code): %s" % (
                framed, a["violated"], mon, cx and cx["keys"]))
        if not framed:
            # design-level validation of the proposed repair: with length framing the invariants hold
            f = auth.leg_a(mon, _consts(mon, quick), True, INVS, workers=8 if quick else 12, tag="-framed")
            a_states += f["distinct"]
            a_trans += f["states"]
            cov["legs"]["A_model_%s_with_repair" % mon] = {"framed": True, "states": f["distinct"],
                                                           "transitions": f["states"], "violated": f["violated"],
                                                           "wall_s": round(f["wall_s"], 1)}
    # vacuity guard: acceptance and refusal are both reachable in the model
    for guard in ("NeverAccepts", "NeverRefuses"):
        v = auth.leg_a("C17b", _consts("C17b", True), framed, [guard], workers=2, tag="-" + guard, view=False)
        if guard not in v["violated"]:
            raise vlib.ToolError("vacuity guard: %s holds in MC_Auth (the model never %s)" % (
                guard, "accepts" if guard == "NeverAccepts" else "refuses"))
    cov["legs"]["A_vacuity"] = {"accepting_and_refusing_transitions_reachable": True}
    # client side of the read exchange (PrivClient sessions): freshness + refusal of replayed replies
    ad = auth.leg_a("C17d", _consts("C17d", quick), framed, ["C17b", "C17d"], workers=4)
    a_states += ad["distinct"]
    a_trans += ad["states"]
    cov["legs"]["A_model_client_sessions"] = {"max_versions_and_gets": _consts("C17d", quick)["maxn"], "states": ad["distinct"],
                                              "transitions": ad["states"], "violated": ad["violated"],
                                              "wall_s": round(ad["wall_s"], 1)}
    if ad["violated"]:
        hypotheses.append({"mon": "C17d", "violated": ad["violated"], "counterexample": None})

    # ---- leg B: TLC-generated case matrix on the real implementation's session states
    d = vlib.workdir("auth-b")
    cases = os.path.join(d, "cases.ndjson")
    ncases, gen_s = auth.gen_cases(tier, cases)
    maxn = 2 if quick else 3
    st = auth.explore(binpath, cases, maxn, os.path.join(d, "ex"))
    nodes = os.path.join(d, "ex", "nodes.ndjson")
    b = auth.impl_tlc(nodes, cases, os.path.join(d, "report.json"), workers=4 if quick else 8)
    rep = b["report"]
    cov["legs"]["B_impl_matrix"] = {
        "cases_generated_by_tlc": ncases, "session_states": rep["nodes"], "impl_edges": rep["edges"],
        "accepted_edges": rep["accepted"], "refused_modifications": rep["refused_modifications"],
        "inapplicable": st.get("inapplicable", 0), "spec_divergences": rep["divergence_count"],
        "impl_stricter": len(rep["impl_stricter"]), "monitor_violations": rep["violation_count"],
        "violation_keys": {auth.key_str(v["key"]): v["count"] for v in rep["violations"]},
        "product_states": b["distinct"], "product_transitions": b["states"], "violated": b["violated"],
        "wall_s": round(gen_s + st["wall_s"] + b["wall_s"], 1)}
    divergences += [{"leg": "B", **x} for x in rep["divergences"]]
    violations += _violations_from(rep, "leg B (case matrix)", lambda ex: ex["n"])
    for x in rep["sample_legit"] + rep["sample_refused"] + [v["example"] for v in rep["violations"][:2]]:
        samples.append({"session_nonces_drawn": x["n"], "request": x["req"], "real_code_accepted": x["ok"],
                        "specification_expects_accept": x["expected_ok"], "monitor": x["verdict"]})

    # ---- leg C: simulated and random sessions through the real code, validated by TLC
    dc = vlib.workdir("auth-c")
    pool = os.path.join(dc, "pool.ndjson")
    npool, _ = auth.gen_cases("sim", pool)
    nsim, depth, nwalk = (30, 30, 20000) if quick else (200, 60, 150000)
    seqs, sim = auth.simulate(pool, nsim, depth, vlib.seed(), dc)
    rs = auth.run_sequences(binpath, seqs, os.path.join(dc, "steps_sim.ndjson"))
    rw = auth.walk(binpath, nwalk, os.path.join(dc, "steps_walk.ndjson"))
    steps_file = os.path.join(dc, "steps.ndjson")
    nsteps = auth.concat_steps([os.path.join(dc, "steps_sim.ndjson"), os.path.join(dc, "steps_walk.ndjson")],
                               steps_file)
    tr = auth.trace_tlc(steps_file)
    trep = tr["report"]
    cov["legs"]["C_sessions"] = {
        "pool_generated_by_tlc": npool, "simulated_behaviours": rs.get("sequences", 0),
        "simulated_steps": rs.get("steps", 0), "random_sessions": rw.get("sequences", 0),
        "random_steps": rw.get("steps", 0), "steps_validated": trep["steps"], "max_nonces_drawn": trep["max_n"],
        "accepted_steps": trep["accepted"], "refused_modifications": trep["refused_modifications"],
        "spec_divergences": trep["divergence_count"], "broken": len(trep["broken"]),
        "impl_stricter": len(trep["impl_stricter"]), "monitor_violations": trep["violation_count"],
        "violation_keys": {auth.key_str(v["key"]): v["count"] for v in trep["violations"]},
        "violated": tr["violated"], "wall_s": round(sim["wall_s"] + tr["wall_s"], 1)}
    if nsteps != trep["steps"] or trep["broken"]:
        raise vlib.ToolError("leg C: recorded steps are inconsistent (%d written, %d loaded, %d broken)" % (
            nsteps, trep["steps"], len(trep["broken"])))
    divergences += [{"leg": "C", **x} for x in trep["divergences"]]
    for x in trep["sample_refused"][:1]:
        samples.append({"session_nonces_drawn": x["n"], "request": x["req"], "real_code_accepted": x["ok"],
                        "specification_expects_accept": x["expected_ok"], "monitor": x["verdict"], "leg": "C"})
    have = {v["key"] for v in violations}
    violations += [v for v in _violations_from(trep, "leg C (sessions)", lambda ex: ex["n"]) if v["key"] not in have]

    # ---- leg D: the client side of the read exchange, as the real PrivClient performs it over gRPC
    clibin = auth.build_client()
    dd = vlib.workdir("auth-d")
    depth, nwalk_c = (6, 5000) if quick else (5, 60000)
    seqs_file = os.path.join(dd, "seqs.ndjson")
    nseq = auth.client_seqs(tier, depth, seqs_file)
    td = time.time()
    r1 = auth.client_run(clibin, seqs_file, os.path.join(dd, "steps_model.ndjson"))
    r2 = auth.client_walk(clibin, nwalk_c, os.path.join(dd, "steps_walk.ndjson"))
    csteps = os.path.join(dd, "steps.ndjson")
    ncs = auth.concat_steps([os.path.join(dd, "steps_model.ndjson"), os.path.join(dd, "steps_walk.ndjson")], csteps)
    run_s = time.time() - td
    ct = auth.client_trace_tlc(csteps)
    crep = ct["report"]
    if crep["steps"] != ncs:
        raise vlib.ToolError("leg D: %d steps written, %d loaded" % (ncs, crep["steps"]))
    cov["legs"]["D_client_sessions"] = {
        "sessions_generated_by_tlc": nseq, "session_length": depth, "model_session_steps": r1.get("steps", 0),
        "random_sessions": r2.get("sequences", 0), "random_steps": r2.get("steps", 0),
        "steps_validated": crep["steps"], "gets_observed": crep["gets"], "accepted_gets": crep["accepted_gets"],
        "refused_replays": crep["refused_replays"], "max_gets_in_session": crep["max_gets_in_session"],
        "spec_divergences": crep["divergence_count"],
        "violation_keys": {auth.key_str(v["key"]): v["count"] for v in crep["violations"]},
        "violated": ct["violated"], "wall_s": round(run_s + ct["wall_s"], 1)}
    divergences += [{"leg": "D", **x} for x in crep["divergences"]]
    for v in sorted(crep["violations"], key=lambda v: v["line"]):
        ex = v["example"]
        with open(csteps) as f:
            rows = [json.loads(x) for x in f]
        sess = [x["req"] for x in rows if x["seq"] == ex["seq"] and x["step"] <= ex["step"]]
        violations.append({"key": auth.key_str(v["key"]),
                           "what": "%s [%d such observations in leg D (real PrivClient sessions)]" % (
                               auth.describe_client(ex), v["count"]),
                           "replay": {"kind": "authcli-seq", "requests": sess}})
    if len(samples) < 8:
        with open(csteps) as f:
            for x in f:
                e = json.loads(x)
                if e["req"]["op"] == "GetReplay":
                    samples.append({"leg": "D", "request": e["req"], "nonce_on_the_wire": bytes(e["resp"]["nonce"]).hex(),
                                    "client_accepted": e["resp"]["ok"], "client_error": e["resp"]["err"]})
                    break

    code, unknown, known = vlib.verdict(pid, violations)
    ndiv = rep["divergence_count"] + trep["divergence_count"] + crep["divergence_count"]
    if ndiv:
        log("[C17] NOTE: %d implementation edges/steps are not edges of Auth.tla (framed=%s; legs B/C/D: %d/%d/%d) - the "
            "specification (or its switch spec/auth_switches.json) needs updating; not a property violation" % (
                ndiv, framed, rep["divergence_count"], trep["divergence_count"], crep["divergence_count"]))
    model_only = [h for h in hypotheses if not violations]
    cov.update({
        "states": max(1, a_states + b["distinct"] + tr["distinct"] + ct["distinct"]),
        "transitions": max(1, a_trans + b["states"] + tr["states"] + ct["states"]),
        "traces_validated_against_impl": rep["edges"] + trep["steps"] + crep["steps"],
        "samples": samples or [{"note": "no accepted modified input"}],
        "exhaustive": True,
        "spec_divergence_count": ndiv,
        "spec_divergences": divergences[:40],
        "model_hypotheses": hypotheses,
        "model_only_counterexample": model_only or None,
        "explanation": "TLC (a) model-checks Auth.tla (tag pre-image framing; all record lists / records of a small "
                       "universe against all others), (b) generates the case matrix (every alternative parse of the "
                       "unframed bytes, every single-bit flip and structural edit, every context, modified tags) and "
                       "judges every acceptance decision the real code made on it in every session state, (c) "
                       "validates simulated and random sessions replayed through the real code, (d) generates every client "
                       "session of a bounded length (puts, gets, gets answered with an earlier recorded reply), runs them "
                       "through the real lightning_storage_server PrivClient over gRPC and judges the nonces seen on the "
                       "wire (freshness, C17d) and the acceptance of replayed replies",
    })
    vlib.write_evidence(pid, tier, "model_checking", cov,
                        ["HMAC-SHA256 is collision and second-pre-image resistant and unforgeable without the key: two "
                         "tags are equal iff computed with the same key over the same bytes (the specification models "
                         "the bytes fed to the HMAC engine)",
                         "fresh nonces are unpredictable 32-byte values (deterministic test entropy stands in for them)",
                         "lightning-storage-server util.rs is compiled without the `crypt` feature, as VLS links it",
                         "the comparison sites outside the two libraries (nodefront.rs, lssd put/get handlers, lss "
                         "client driver.rs) are mirrored by byte comparison in the harness",
                         "small scope: keys up to 3 bytes, values up to 9 bytes, up to 3 records in the matrix; random "
                         "sessions up to 12-byte keys, 40-byte values",
                         "leg D: the storage endpoint is the harness' transcription of the lssd put/get handlers (real "
                         "compute_shared_hmac, next-version rule) behind a recording/replaying intermediary; the client "
                         "(nonce construction, request, reply checks) is the real PrivClient",
                         "TLC and the Json/IOUtils community modules"],
                        time.time() - t0, unknown + known)
    return code


def replay(pid, obj):
    """Re-run a recorded violating request sequence on the real implementation and let TLC judge."""
    rp = obj["replay"]
    if rp.get("kind") == "authcli-seq":
        return _replay_client(pid, rp)
    binpath = vlib.build("auth")
    d = vlib.workdir("auth-replay")
    steps_file = os.path.join(d, "steps.ndjson")
    auth.run_sequences(binpath, [rp["requests"]], steps_file)
    tr = auth.trace_tlc(steps_file, name="trace-auth-replay")
    for x in open(steps_file):
        e = json.loads(x)
        print("  n=%d %s -> %s" % (e["pre"]["n"], json.dumps(e["req"], sort_keys=True), json.dumps(e["resp"], sort_keys=True)))
    keys = [auth.key_str(v["key"]) for v in tr["report"]["violations"]]
    if keys:
        print("  monitor: %s" % ", ".join(keys))
        print("VIOLATION property=%s replay=%s" % (pid, "(reproduced)"))
        return 1
    print("not reproduced")
    return 0


def _replay_client(pid, rp):
    clibin = auth.build_client()
    d = vlib.workdir("auth-replay")
    sf = os.path.join(d, "seqs.ndjson")
    with open(sf, "w") as f:
        f.write(json.dumps(rp["requests"]) + "\n")
    steps_file = os.path.join(d, "steps.ndjson")
    auth.client_run(clibin, sf, steps_file)
    ct = auth.client_trace_tlc(steps_file, name="trace-auth-client-replay")
    for x in open(steps_file):
        e = json.loads(x)
        print("  %s p=%s j=%d -> ok=%s %s nonce=%s" % (e["req"]["op"], bytes(e["req"]["p"]).decode("ascii", "replace"),
                                                    e["req"]["j"], e["resp"]["ok"], e["resp"]["err"],
                                                    bytes(e["resp"]["nonce"]).hex() or "''"))
    keys = [auth.key_str(v["key"]) for v in ct["report"]["violations"]]
    if keys:
        print("  monitor: %s" % ", ".join(keys))
        print("VIOLATION property=%s replay=%s" % (pid, "(reproduced)"))
        return 1
    print("not reproduced")
    return 0
