"""C11 under concurrency: the node-level concurrency leg (tools/conc.py run_node, ConcNode.tla) restores a signer
from a copy of the store after both concurrent requests have returned; ConcNode.tla's NonDurable clause lists the
runs in which it differs from the running signer (e.g. two allowlist requests whose store writes cross)."""
import conc


def frame_component(pid, tier):
    if pid != "C11":
        return [], {}, 0, 0, []
    # requests that write to the store; the quick tier leaves out the on-chain withdrawals (7 variants, the slowest)
    only = {"AddAllow", "SetAllow", "RemoveAllow", "AddInvoice", "AddKeysend", "NewChannel", "Setup", "Forget"}
    if tier != "quick":
        only |= {"Withdraw", "Heartbeat"}
    viol, cov, runs = conc.run_node(tier, clock=False, only=only)
    viol = [v for v in viol if v["key"].startswith("node-nondurable")]
    c = cov.get("atomicity_node_level", {})
    out = {"node_requests_concurrent": {"concurrent_runs_restored_and_compared": c.get("concurrent_runs", 0),
                                        "cases": c.get("cases", 0), "nondurable": c.get("nondurable", 0)}}
    n = c.get("concurrent_runs", 0)
    return viol, out, n, n, []
