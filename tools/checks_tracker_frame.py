"""Chain-tracker component of C10 (a refused request changes nothing).

The tracker harness (C13, Tracker.tla / ImplTracker.tla) already records on every refused edge of the
explored implementation graphs which parts of the tracker changed (tip, height, header window, listener
watches, pending streamed-decode state).  C10 quantifies over refusals of every request kind, so the same
observations are judged here under C10's identity: one violation per (request, changed parts)."""
import checks_tracker as ct
import tracker as trk
import vlib

PROPERTIES = []


def frame_component(pid, tier):
    if pid != "C10":
        return [], {}, 0, 0, []
    binpath = vlib.build("tracker")
    quick = tier == "quick"
    viol = []
    cov = {}
    refused = 0
    samples = []
    seen = set()
    for name, cfg, maxdev in ct.runs(tier):
        if quick and name not in ("fullwindow", "retarget"):
            continue
        ex = trk.extract(binpath, name, cfg, maxdev, max_states=2000 if quick else 8000)
        ri = trk.impl_tlc(ex, ["C13b"], workers=1, tag="-c10")
        rep = ri["report"]
        if rep["refused"] == 0:
            raise vlib.ToolError("vacuous tracker exploration in run %s" % name)
        refused += rep["refused"]
        nbad = 0
        for v in ct._violations_from_report(ex, rep):
            if not v["key"].startswith("C13b:"):
                continue
            nbad += 1
            key = "tracker:" + v["key"][len("C13b:"):]
            if key in seen:
                continue
            seen.add(key)
            viol.append({"key": key, "what": v["what"].replace("C13b: ", "tracker: "), "replay": v["replay"]})
        cov["tracker_" + name] = {"impl_states": rep["nodes"], "refused_edges_checked": rep["refused"],
                                  "frame_violations": nbad}
        if not samples:
            row = ex["rows"][0]
            for e in row["e"]:
                if e[2] == 0 and len(samples) < 2:
                    samples.append({"component": "tracker", "pre": row["pre"], "req": ex["requests"][e[1] - 1],
                                    "refused": True, "changed_mask": e[4]})
    return viol, cov, refused, refused, samples
