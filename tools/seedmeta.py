#!/usr/bin/env python3
"""seedmeta.py <seeded-dir-name> <why-first-missed> <check> <log-with-check-output> : record that a seed missed at
first is caught after the framework was strengthened (keys taken from the check's output)."""
import json, sys, re
d, why, chk, log = sys.argv[1:5]
mp = "/verif/seeded/%s/meta.json" % d
m = json.load(open(mp))
o = open(log).read()
keys = [l.strip()[:220] for l in o.splitlines() if l.strip().startswith("key=")][:4]
viol = any(l.startswith("VIOLATION") for l in o.splitlines())
lv = m.setdefault("lead_verification", {})
lv["first_run"] = {"caught": False, "why": why}
lv["after_strengthening"] = {"on": "private snapshot of /repo HEAD with the patch applied", "checks_run": {chk + " quick": {"exit": 1 if viol else 0, "lines": keys}}, "caught": viol}
lv["caught"] = viol
json.dump(m, open(mp, "w"), indent=1)
print(d, "caught" if viol else "NOT caught", keys[:2])
