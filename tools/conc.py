"""C20 leg 2: concurrent pairs of channel requests under imposed schedules, judged by ConcChannel.tla."""
import json
import os
import random

import chan
import vlib
from vlib import SPEC


def cases_from_behaviours(seqs, per_seq, rng):
    """(prefix, a, b) triples taken from TLC-simulated behaviours of Channel.tla: the pair is two
    consecutive requests of the behaviour, the prefix what precedes them"""
    out = []
    for sq in seqs:
        if len(sq) < 3:
            continue
        for _ in range(per_seq):
            k = rng.randrange(0, len(sq) - 1)
            a, b = sq[k], sq[k + 1]
            if a["op"] == "Restart" or b["op"] == "Restart":
                continue
            out.append({"prefix": [r for r in sq[:k] if r["op"] != "Restart"], "a": a, "b": b})
    return out


def run(tier):
    quick = tier == "quick"
    binpath = vlib.build("locks")
    d = vlib.workdir("conc")
    rng = random.Random(vlib.seed())
    nn = 6
    seqs, _ = chan.simulate(nn, 25 if quick else 150, 30, vlib.seed() + 7, d)
    cases = cases_from_behaviours(seqs, 2 if quick else 3, rng)
    # plus hand-picked racing pairs on a channel at commitment 1 (validate/revoke/sign/secret)
    base = [{"op": "ValidateHolder", "n": 0, "c": "A", "sig": "good"}, {"op": "Activate"},
            {"op": "SignCp", "n": 0, "t": "A", "c": "A"}]
    v1 = {"op": "ValidateHolder", "n": 1, "c": "B", "sig": "good"}
    racers = [v1, {"op": "Revoke", "n": 1}, {"op": "SignHolder", "n": 0}, {"op": "GetSecret", "n": 0},
              {"op": "SignCp", "n": 1, "t": "A", "c": "B"}, {"op": "ValidateRevocation", "n": 0, "t": "A", "m": 0},
              {"op": "SignHolderRecovery"}]
    for pre in (base, base + [v1]):
        for i, a in enumerate(racers):
            for b in racers[i:]:
                cases.append({"prefix": pre, "a": a, "b": b})
    cf = os.path.join(d, "cases.ndjson")
    with open(cf, "w") as f:
        for c in cases:
            f.write(json.dumps(c) + "\n")
    runs_file = os.path.join(d, "runs.ndjson")
    st = vlib.run_bin(binpath, ["conc", "--cases", cf, "--out", runs_file, "--n", nn], timeout=3000)
    report = os.path.join(d, "report.json")
    env = {"CC_RUNS": runs_file, "CC_REPORT": report}
    env.update(chan._env_switches())
    r = vlib.tlc("ConcChannel", os.path.join(SPEC, "ConcChannel.cfg"), env=env, workers=1, timeout=1800,
                 name="conc-channel")
    rep = json.load(open(report))
    viol = []
    for x in rep["nonlinearizable"]:
        key = "nonlinearizable:%s||%s" % tuple(sorted([x["a"]["op"], x["b"]["op"]]))
        viol.append({"key": key, "what": "concurrent %s and %s produced an outcome no sequential order explains" % (
            x["a"]["op"], x["b"]["op"]), "replay": {"kind": "conc", "run": x}})
    for x in rep["stuck"]:
        key = "stuck:%s||%s" % tuple(sorted([x["a"]["op"], x["b"]["op"]]))
        viol.append({"key": key, "what": "concurrent %s and %s never completed" % (x["a"]["op"], x["b"]["op"]),
                     "replay": {"kind": "conc", "run": x}})
    cov = {"atomicity": {"cases": len(cases), "concurrent_runs": rep["runs"], "nonlinearizable": len(rep["nonlinearizable"]),
                         "stuck": len(rep["stuck"]), "spec_divergences": len(rep["spec_divergences"]),
                         "runs_where_other_request_ran_through_a_held_critical_section": rep["ran_through"],
                         "harness": st}}
    return viol, cov, 1, rep["runs"], rep["runs"]


def run_node(tier, clock=True, only=None):
    """node-level pairs (Node.tla alphabet) under imposed schedules, judged by ConcNode.tla"""
    quick = tier == "quick"
    binpath = vlib.build("locks")
    d = vlib.workdir("conc-node")
    alpha = os.path.join(d, "alphabet.json")
    vlib.tlc("NodeAlphabet", os.path.join(SPEC, "NodeAlphabet.cfg"), env={"ND_OUT": alpha}, workers=1, timeout=300,
             name="node-alphabet-conc")
    reqs = [r for r in json.load(open(alpha)) if r["op"] not in ("Restart",)]
    prefixes = [[],
                [{"op": "AddAllow", "l": ["a1"]}, {"op": "AddInvoice", "h": "h1", "v": "v1"},
                 {"op": "NewChannel", "d": 1}, {"op": "Setup", "d": 1}, {"op": "NewChannel", "d": 2}]]
    rng = random.Random(vlib.seed())
    pairs = [(a, b) for i, a in enumerate(reqs) for b in reqs[i:]]
    if only:    # (C11's durability leg: pairs of the named request kinds)
        pairs = [(a, b) for a, b in pairs if a["op"] in only and b["op"] in only]
    # (every pair, also in the quick tier: a sample missed Setup||Forget on one stub; all pairs take < 30 s)
    cases = [{"prefix": p, "a": a, "b": b} for p in (prefixes[1:] if quick else prefixes) for a, b in pairs]
    if quick:
        # from the empty node too, for the requests whose outcome depends on what the prefix already registered
        # (two approvals / creations for one payment hash / channel id racing on a node that has neither yet)
        fresh = ("AddInvoice", "AddKeysend", "NewChannel", "Forget")
        cases += [{"prefix": [], "a": a, "b": b} for a, b in pairs if a["op"] in fresh and b["op"] in fresh]
    cf = os.path.join(d, "cases.ndjson")
    with open(cf, "w") as f:
        for c in cases:
            f.write(json.dumps(c) + "\n")
    runs_file = os.path.join(d, "runs.ndjson")
    st = vlib.run_bin(binpath, ["conc-node", "--cases", cf, "--out", runs_file], timeout=3000)
    report = os.path.join(d, "report.json")
    sw = json.load(open(os.path.join(vlib.ROOT, "spec", "switches.json")))
    vlib.tlc("ConcNode", os.path.join(SPEC, "ConcNode.cfg"),
             env={"CN_RUNS": runs_file, "CN_REPORT": report,
                  "ND_ATOMIC_ALLOWLIST": "true" if sw.get("atomicAllowlist") else "false"},
             workers=1, timeout=1800, name="conc-node")
    rep = json.load(open(report))
    viol = []
    for x in rep["nonlinearizable"]:
        key = "node-nonlinearizable:%s||%s" % tuple(sorted([x["a"]["op"], x["b"]["op"]]))
        viol.append({"key": key, "what": "concurrent %s and %s on one node produced an outcome no sequential order explains" % (
            x["a"]["op"], x["b"]["op"]), "replay": {"kind": "conc-node", "run": x}})
    for x in rep.get("nondurable", []):
        key = "node-nondurable:%s||%s:%s" % (tuple(sorted([x["a"]["op"], x["b"]["op"]])) + (",".join(sorted(set(".".join(f.split(".")[:2]) for f in x["rdiff"]))),))
        viol.append({"key": key, "what": "after concurrent %s and %s both returned, a signer restored from the store differs from the running one in %s" % (
            x["a"]["op"], x["b"]["op"], ", ".join(x["rdiff"][:4])), "replay": {"kind": "conc-node", "run": x}})
    for x in rep["stuck"]:
        key = "node-stuck:%s||%s" % tuple(sorted([x["a"]["op"], x["b"]["op"]]))
        viol.append({"key": key, "what": "concurrent %s and %s never completed" % (x["a"]["op"], x["b"]["op"]),
                     "replay": {"kind": "conc-node", "run": x}})
    cov = {"atomicity_node_level": {"cases": len(cases), "concurrent_runs": rep["runs"],
                                    "nonlinearizable": len(rep["nonlinearizable"]), "stuck": len(rep["stuck"]),
                                    "nondurable": len(rep.get("nondurable", [])),
                                    "spec_divergences": len(rep["spec_divergences"]), "harness": st}}
    # ---- time passes while a request is preempted: the same pairs of payment requests on a node whose payment
    # velocity limit is one v1 amount per hour (already used up by the prefix); the clock advances by one bucket
    # (300 s) between the two requests of the sequential references and, in the concurrent runs, while the held
    # thread waits at its stop point.  Every reply must be that of a sequential order (both declined).
    if not clock:
        return viol, cov, rep["runs"]
    pay = [r for r in reqs if r["op"] in ("AddInvoice", "AddKeysend")]
    tcases = [{"prefix": [{"op": "AddKeysend", "h": "h2", "v": "v1"}], "a": a, "b": b, "policy": "paylimit", "tick": 300}
              for i, a in enumerate(pay) for b in pay[i:]]
    tcf = os.path.join(d, "cases_tick.ndjson")
    with open(tcf, "w") as f:
        for c in tcases:
            f.write(json.dumps(c) + "\n")
    truns = os.path.join(d, "runs_tick.ndjson")
    tst = vlib.run_bin(binpath, ["conc-node", "--cases", tcf, "--out", truns], timeout=1800)
    treport = os.path.join(d, "report_tick.json")
    vlib.tlc("ConcNode", os.path.join(SPEC, "ConcNode.cfg"),
             env={"CN_RUNS": truns, "CN_REPORT": treport,
                  "ND_ATOMIC_ALLOWLIST": "true" if sw.get("atomicAllowlist") else "false"},
             workers=1, timeout=1800, name="conc-node-tick")
    trep = json.load(open(treport))
    for x in trep["nonlinearizable"]:
        key = "node-nonlinearizable-clock:%s||%s" % tuple(sorted([x["a"]["op"], x["b"]["op"]]))
        viol.append({"key": key, "what": "concurrent %s and %s while the clock advances by one velocity bucket: replies %s / %s, "
                                         "sequentially %s / %s" % (x["a"]["op"], x["b"]["op"], x["ra"], x["rb"],
                                                                   x["sab"]["ra"], x["sab"]["rb"]),
                     "replay": {"kind": "conc-node", "run": x}})
    for x in trep["stuck"]:
        key = "node-stuck-clock:%s||%s" % tuple(sorted([x["a"]["op"], x["b"]["op"]]))
        viol.append({"key": key, "what": "concurrent %s and %s (clock advancing) never completed" % (x["a"]["op"], x["b"]["op"]),
                     "replay": {"kind": "conc-node", "run": x}})
    cov["atomicity_node_level_clock"] = {"cases": len(tcases), "concurrent_runs": trep["runs"],
                                         "nonlinearizable": len(trep["nonlinearizable"]), "stuck": len(trep["stuck"]),
                                         "declined_replies_in_sequential_references":
                                             sum(1 for l in open(truns) for x in [json.loads(l)] if x.get("sab", {}).get("rb", {}).get("flag") == 0),
                                         "harness": tst}
    return viol, cov, rep["runs"] + trep["runs"]
