"""C12: velocity limits bound spending in every time window, across restarts (Velocity.tla; legs A, B, C)."""
import json
import os
import time

import velocity as vel
import vlib
from vlib import log

PROPERTIES = ["C12"]

# (levels, tag): ImplVelocity runs.  The levels are kept apart so that a violation of one level cannot
# hide behind a shallower one of another level; a run is first made with both monitors and, if
# that fails, repeated with one monitor at a time so that each control gets its own counterexample
IMPL_RUNS = [("struct,approver", "lib"), ("node", "node")]


def _case_index(cases, cid):
    for i, c in enumerate(cases):
        if c["id"] == cid:
            return i + 1
    raise vlib.ToolError("unknown case id %r" % cid)


def _replay_obj(case, reqs, mon):
    return {"kind": "velocity-seq", "case": case, "mon": mon, "requests": [vel._strip(r) for r in reqs]}


def _samples(nodes, cases, steps_file, k=3):
    """a few approved edges of the implementation graphs (one per level, from a non-empty state)
    and the beginning of one replayed behaviour"""
    out, seen = [], set()
    with open(nodes) as f:
        for line in f:
            row = json.loads(line)
            c = cases[row["c"] - 1]
            if c["level"] in seen or not (any(row["pre"]["pay"]["b"]) or any(row["pre"]["fee"]["b"])):
                continue
            for e in row["e"]:
                r = c["reqs"][e[1] - 1]
                if e[2] == 1 and r["a"] > 0 and r["dt"] > 0:
                    out.append({"kind": "implementation edge", "case": c["id"], "level": c["level"],
                                "state": row["pre"], "request": r, "approved": True, "to_state": e[0]})
                    seen.add(c["level"])
                    break
            if len(out) >= k:
                break
    hist = []
    with open(steps_file) as f:
        for line in f:
            e = json.loads(line)
            if e["seq"] != 0 or e["step"] >= 8:
                break
            hist.append({"req": e["req"], "ok": e["ok"]})
    if hist:
        out.append({"kind": "replayed behaviour (first steps)", "case": cases[json.loads(open(steps_file).readline())["c"] - 1]["id"],
                    "history": hist})
    return out


def run(pid, tier):
    t0 = time.time()
    quick = tier == "quick"
    binpath = vlib.build("velocity")
    d = vlib.workdir("velocity-%s" % tier)
    sw = vel.switches()
    violations = []
    divergences = []
    cov = {"legs": {}, "switches": sw}

    cases_file, cases = vel.cases(tier, d)

    # ---- leg A: the model itself.  "sound": bare controls + the intended persistence discipline
    # (must satisfy C12: the algorithm is right); "head": the node as the code is believed to
    # behave (a counterexample is a hypothesis about the code, decided by leg B)
    size = "small" if quick else "large"
    a1 = vel.leg_a("sound", size, d, ["C12", "C12_windows", "TypeOK", "Covers"], props=["Frame"])
    a2 = vel.leg_a("head", size, d, ["C12"], workers=1)
    cov["legs"]["A_model_sound"] = {"size": size, "states": a1["states"], "distinct": a1["distinct"],
                                    "depth": a1["depth"], "violated": a1["violated"], "wall_s": round(a1["wall_s"], 1)}
    cov["legs"]["A_model_head"] = {"size": size, "states": a2["states"], "distinct": a2["distinct"],
                                   "depth": a2["depth"], "violated": a2["violated"], "wall_s": round(a2["wall_s"], 1)}
    model_cex = None
    if a1["violated"]:
        log("[%s] leg A: the SOUND model violates %s: the specification (or the algorithm) is wrong: %s" % (
            pid, a1["violated"], vel.trace_steps(a1["trace"])))
    if a2["violated"]:
        model_cex = vel.trace_steps(a2["trace"])
        log("[%s] leg A: the model of the code at HEAD violates %s (hypothesis about the code): %s" % (
            pid, a2["violated"], " ; ".join("%s(dt=%d,a=%d)%s" % (s["op"], s["dt"], s["a"], "" if s["ok"] == 1 else "!")
                                            for s in model_cex)))

    # ---- leg B: state graphs of the real implementation, every edge judged by TLC
    nodes, stats = vel.explore(binpath, cases_file, d, threads=8)
    if stats.get("truncated"):
        log("[%s] NOTE: exploration truncated by --max-states" % pid)
    cov["legs"]["B_explore"] = {"impl_states": stats["states"], "impl_edges": stats["edges"],
                                "truncated": stats.get("truncated", False), "wall_s": stats["wall_s"],
                                "cases": stats["cases"]}
    tot_states = tot_trans = tot_edges = 0
    # a graph far larger than the specification predicts (a badly broken implementation): the edge
    # comparison is sampled so that the run stays bounded; the monitor still runs on the whole graph
    stride = 1 + stats["edges"] // (200000 if quick else 500000)
    nw = 1 if quick else 6       # the thorough product has some 10^5 states
    for levels, tag0 in IMPL_RUNS:
        first = vel.impl_tlc(nodes, cases_file, d, levels, "both", tag0 + "-both", stride=stride, workers=nw)
        todo = [("both", tag0 + "-both", first)]
        if first["violated"]:
            todo = [(m, "%s-%s" % (tag0, m), vel.impl_tlc(nodes, cases_file, d, levels, m, "%s-%s" % (tag0, m), conform=False))
                    for m in (("pay", "fee") if levels == "node" else ("pay",))]
        tot_edges += first["report"]["edges"]
        for mon, tag, r in todo:
            rep = dict(r["report"])
            for k in ("ndivergent", "nfailed", "divergences", "failed"):   # measured once, in the first run
                rep[k] = first["report"][k]
            cov["legs"]["B_impl_" + tag] = {
                "impl_states": rep["nodes"], "impl_states_expanded": rep["expanded"], "impl_edges": rep["edges"],
                "approved_edges": rep["approved"], "graphs": rep["roots"], "conformance_stride": rep.get("stride", 1), "product_states": r["distinct"],
                "product_transitions": r["states"], "spec_divergences": rep["ndivergent"],
                "failed_calls": rep["nfailed"], "init_mismatch": rep["init_bad"], "violated": r["violated"],
                "wall_s": round(r["wall_s"], 1)}
            tot_states += r["distinct"]
            tot_trans += r["states"]
            if mon != "fee":
                divergences += [{"run": tag0, **x} for x in rep["divergences"][:10]]
                divergences += [{"run": tag0, "failed_call": True, **x} for x in rep["failed"][:5]]
            if r["violated"]:
                seq = vel.trace_steps(r["trace"])
                cid = seq[-1]["case"]
                case = cases[_case_index(cases, cid) - 1]
                key = vel.key_of(case["level"], mon, seq, case)
                violations.append({
                    "key": key,
                    "what": "window sum of %s approvals exceeds the limit on the real implementation (case %s): %s" % (
                        "fee" if mon == "fee" else "payment", cid,
                        " ; ".join("%s(dt=%d,a=%d%s)->%s" % (s["op"], s["dt"], s["a"], ",h=%d" % s["h"] if s.get("h") else "",
                                                          {1: "ok", 0: "refused"}.get(s["ok"], "error")) for s in seq)),
                    "replay": _replay_obj(case, seq, mon)})

    # ---- leg B again (thorough): the same exploration on a build with integer-overflow checks on
    # (the default harness build uses production arithmetic: wrap-around); a panic is recorded as a
    # failed call, an approval beyond the limit is a violation as before
    if not quick:
        bin2 = vel.build_overflow_checks()
        nodes2, stats2 = vel.explore(bin2, cases_file, d, threads=8, out="nodes_ovf.ndjson")
        r2 = vel.impl_tlc(nodes2, cases_file, d, "all", "both", "ovf-both", stride=1 + stats2["edges"] // 500000,
                          workers=nw)
        rep2 = r2["report"]
        cov["legs"]["B_impl_overflow_checks_build"] = {
            "impl_states": rep2["nodes"], "impl_edges": rep2["edges"], "approved_edges": rep2["approved"],
            "product_states": r2["distinct"], "product_transitions": r2["states"],
            "spec_divergences": rep2["ndivergent"], "failed_calls": rep2["nfailed"], "violated": r2["violated"],
            "wall_s": round(r2["wall_s"] + stats2["wall_s"], 1)}
        tot_states += r2["distinct"]
        tot_trans += r2["states"]
        tot_edges += rep2["edges"]
        divergences += [{"run": "overflow-checks", **x} for x in (rep2["divergences"][:5] + rep2["failed"][:5])]
        if r2["violated"]:
            seq = vel.trace_steps(r2["trace"])
            case = cases[_case_index(cases, seq[-1]["case"]) - 1]
            for mon in ("pay", "fee"):
                if any(s["op"] == "Onchain" for s in seq) == (mon == "fee"):
                    violations.append({
                        "key": vel.key_of(case["level"], mon, seq, case),
                        "what": "window sum exceeds the limit on the overflow-checked build (case %s): %s" % (
                            case["id"], " ; ".join("%s(dt=%d,a=%d%s)->%s" % (s["op"], s["dt"], s["a"], ",h=%d" % s["h"] if s.get("h") else "",
                                                   {1: "ok", 0: "refused"}.get(s["ok"], "error")) for s in seq)),
                        "replay": _replay_obj(case, seq, mon)})

    # ---- leg C: model behaviours replayed through the implementation from a fresh signer
    nsim, depth = (40, 30) if quick else (300, 50)
    seqs, sim = vel.simulate(cases_file, "all", nsim, depth, vlib.seed(), d)
    # plus behaviours of the retry cases only (named payment hashes re-submitted after an approval,
    # after a refusal, with another amount, through the node and through the approver)
    seqs_r, sim_r = vel.simulate(cases_file, "retry", max(10, nsim // 3), depth, vlib.seed() + 1, d)
    seqs += seqs_r
    sim["wall_s"] += sim_r["wall_s"]
    steps_file = os.path.join(d, "steps.ndjson")
    rs = vel.run_sequences(binpath, cases_file, seqs, steps_file)
    tr = vel.trace_tlc(steps_file, cases_file, d, "both", "sim")
    trep = tr["report"]
    cov["legs"]["C_sim_replay"] = {"behaviours": rs.get("sequences", 0), "steps": trep["steps"],
                                   "approved_steps": trep["approved"], "spec_divergences": trep["ndivergent"],
                                   "broken": len(trep["broken"]), "violating_behaviours": len(trep["violating"]),
                                   "violated": tr["violated"], "wall_s": round(tr["wall_s"] + sim["wall_s"], 1)}
    divergences += [{"run": "sim", **{k: x[k] for k in ("case", "seq", "step", "pre", "req", "ok", "post", "expected")}}
                    for x in trep["divergences"][:10]]
    done = set()
    for v in trep["violating"]:
        s = seqs[v["seq"]]
        case = cases[s["c"] - 1]
        for mon in ("pay", "fee"):
            lim = case[mon]["L"]
            if v["total_" + mon] <= lim or lim >= 1000000000 or (case["level"], mon) in done:
                continue
            done.add((case["level"], mon))
            small = vel.minimise(binpath, cases_file, d, s["c"], s["reqs"][:v["step"] + 1], mon, "sim")
            # observed replies of the minimal sequence
            out = os.path.join(d, "min_final.ndjson")
            vel.run_sequences(binpath, cases_file, [{"c": s["c"], "reqs": small}], out)
            obs = [json.loads(x) for x in open(out)]
            seq = [{**vel._strip(o["req"]), "ok": o["ok"]} for o in obs]
            violations.append({
                "key": vel.key_of(case["level"], mon, seq, case),
                "what": "window sum of %s approvals exceeds the limit on a replayed model behaviour (case %s), "
                        "minimised to: %s" % ("fee" if mon == "fee" else "payment", case["id"], " ; ".join(
                            "%s(dt=%d,a=%d%s)->%s" % (q["op"], q["dt"], q["a"], ",h=%d" % q["h"] if q.get("h") else "", {1: "ok", 0: "refused"}.get(q["ok"], "error"))
                            for q in seq)),
                "replay": _replay_obj(case, seq, mon)})

    code, unknown, known = vlib.verdict(pid, violations)
    if divergences:
        log("[%s] NOTE: %d implementation edges/steps are not edges of Velocity.tla with switches %s "
            "(specification needs updating; not a property violation)" % (
                pid, sum(v.get("spec_divergences", 0) for v in cov["legs"].values()), json.dumps(sw)))
    cov.update({
        "states": max(1, tot_states + a1["distinct"] + a2["distinct"]),
        "transitions": max(1, tot_trans + a1["states"] + a2["states"]),
        "traces_validated_against_impl": tot_edges + trep["steps"],
        "samples": _samples(nodes, cases, steps_file) or [{"note": "no approved edge"}],
        "exhaustive": not stats.get("truncated", False),
        "spec_divergences": divergences[:40],
        "model_only_counterexample": model_cex if model_cex and not violations else None,
        "model_counterexample_confirmed_on_impl": bool(model_cex and violations),
        "explanation": "TLC (a) model-checks Velocity.tla (all non-decreasing timestamp sequences, amounts incl. "
                       "saturating extremes, restart anywhere) for the bare control and for the node under the intended "
                       "and the actual persistence discipline; (b) explores the product of the state graphs extracted "
                       "from the real VelocityControl / VelocityApprover / Node (every request of the TLC-generated "
                       "alphabet on every reachable state, restart included) with the sliding-window monitor, checking "
                       "each implementation edge against Step; (c) validates TLC-simulated behaviours replayed through "
                       "a fresh real signer",
    })
    vlib.write_evidence(pid, tier, "model_checking", cov,
                        ["a `true` answer for a payment hash that was answered `true` before is the same approval "
                         "(idempotent; the amount registered for the hash stays what it was) and is counted once",
                         "behaviour of insert() depends on time only through (t - start_sec) / interval and t % interval "
                         "(states are explored up to a translation by whole buckets and up to the lazy rotation)",
                         "at node level leg B restores the controls, the clock and the invoices entries of the NAMED payment "
                         "hashes (retry cases); entries of fresh hashes are never looked up again; leg C restores nothing",
                         "small scope: limits 2..7 units and near u64::MAX, 1..5 buckets for the bare control, the real "
                         "Hourly/Daily specs for approver and node, time in half buckets",
                         "spec change (update_spec / restart with a changed policy: Hourly <-> Daily, limit only): the "
                         "change itself is the prefix that reaches the root of the `respec` cases (control / node created "
                         "and used under the old spec, new spec installed, at node level one zero-amount payment persisted); "
                         "approvals before the change are not counted; same-spec restarts and all requests follow it",
                         "timestamps never decrease (ManualClock); storage backend does not fail",
                         "TLC and the Json/IOUtils community modules"],
                        time.time() - t0, unknown + known)
    return code


def replay(pid, obj):
    """Re-run a recorded violating request sequence on the real implementation and let TLC judge."""
    rp = obj["replay"]
    binpath = vlib.build("velocity")
    d = vlib.workdir("velocity-replay")
    cases_file = os.path.join(d, "cases.json")
    json.dump([rp["case"]], open(cases_file, "w"))
    steps_file = os.path.join(d, "steps.ndjson")
    vel.run_sequences(binpath, cases_file, [{"c": 1, "reqs": rp["requests"]}], steps_file)
    tr = vel.trace_tlc(steps_file, cases_file, d, rp["mon"], "replay")
    for x in open(steps_file):
        e = json.loads(x)
        print("  %s -> %s   %s" % (json.dumps(e["req"], sort_keys=True), {1: "approved", 0: "refused"}.get(e["ok"], "error"),
                                   json.dumps(e["post"][rp["mon"] if rp["mon"] == "fee" else "pay"], sort_keys=True)))
    if tr["violated"] or tr["report"]["violating"]:
        print("VIOLATION property=%s replay=%s" % (pid, "(reproduced)"))
        return 1
    print("not reproduced")
    return 0
