"""C18: channel keys are a stable function of seed and channel id (Keys.tla; legs A, B, C)."""
import json
import os
import time

import keys
import vlib
from vlib import log

PROPERTIES = ["C18"]
INVS = ("C18a", "C18b", "C18c", "C18d")
MODEL_INVS = ("C18a", "C18b", "C18c")
WHAT = {"C18a": "a key of a channel changed with the history (other channels / creation order / setup / restart)",
        "C18b": "two different channel ids show the same key",
        "C18c": "the released per-commitment secrets are not a BOLT-3 tree for the real compact store",
        "C18d": "a node-level / wallet key is not the specified function of (style, seed, network): it differs from "
                "the reference term, from another node of the same configuration, from the documented other "
                "style, or across a restart"}
NODE_ORDER = ["account", "shutdown", "hb", "wpkh0", "wpkh1", "wpkh7", "tr1", "sh1", "bolt12", "persist", "nodeid", "onion"]


def _watch(i, nmax, ready):
    w = [{"op": "Basepoints", "id": i, "via": "id0"}, {"op": "Point", "id": i, "n": 0, "via": "id0"},
         {"op": "Point", "id": i, "n": 1, "via": "id0"}]
    if ready:
        w += [{"op": "Point", "id": i, "n": nmax + 1, "via": "id0"}]
        w += [{"op": "Secret", "id": i, "n": n, "via": "id0"} for n in range(nmax + 1)]
    return w


def _baseline(fam, nids, nmax):
    """the plainest histories: every id alone on a fresh node, as a stub and set up"""
    out = []
    for i in range(1, nids + 1):
        out.append({"fam": fam, "nids": nids, "nmax": nmax,
                    "reqs": [{"op": "New", "id": i}] + _watch(i, nmax, False)})
        out.append({"fam": fam, "nids": nids, "nmax": nmax,
                    "reqs": [{"op": "New", "id": i}, {"op": "Setup", "id": i, "al": False, "v": "A"},
                             {"op": "Advance", "id": i}] + _watch(i, nmax, True)})
    return out


def _monitor_selftest(steps_file, configs, d):
    """The trace monitors must reject a recording in which one observed value was altered."""
    rows = []
    with open(steps_file) as f:
        for line in f:
            e = json.loads(line)
            if e["seq"] > 12:
                break
            rows.append(e)
    obs = [e for e in rows if e["req"]["op"] == "Basepoints" and e["resp"]["ok"]]
    if len(obs) < 2:
        raise vlib.ToolError("monitor self-test: no observations in the first sequences")
    a = obs[0]
    b = next((e for e in obs if e["cid"][e["req"]["id"] - 1] != a["cid"][a["req"]["id"] - 1]), None)
    res = {}
    # (1) the same slot with another value  (2) another id showing a's funding key
    alt1 = json.loads(json.dumps(a))
    alt1["resp"]["v"][1] = a["resp"]["v"][0]
    cases = {"C18a": alt1}
    if b is not None:
        # an id never seen before that shows a's keys
        alt2 = json.loads(json.dumps(a))
        alt2["cid"] = [c + 1000000 for c in a["cid"]]
        cases["C18b"] = alt2
    # (3) a node that hands out another account key than the one it showed before
    nk = None
    with open(steps_file) as f:
        for line in f:
            if '"NodeKey"' in line:
                e = json.loads(line)
                if e["req"]["op"] == "NodeKey" and e["resp"]["ok"] and e["g"] == rows[-1]["g"]:
                    nk = e
                    break
    extra = {}
    if nk is not None:
        alt3 = json.loads(json.dumps(nk))
        alt3["resp"]["v"] = [a["resp"]["v"][0]]
        cases["C18d"] = alt3
        extra["C18d"] = [dict(nk, seq=rows[-1]["seq"] + 1, step=0)]
    for inv, alt in cases.items():
        p = os.path.join(d, "selftest_%s.ndjson" % inv)
        alt["seq"] = rows[-1]["seq"] + 2
        alt["step"] = 0
        with open(p, "w") as f:
            for e in rows + extra.get(inv, []) + [alt]:
                f.write(json.dumps(e) + "\n")
        tr = keys.trace_tlc(p, configs, invariants=(inv,), name="trace-keys-selftest")
        res[inv] = tr["violated"]
        if inv not in tr["violated"]:
            raise vlib.ToolError("monitor self-test: an altered recording was not rejected (%s: %s)" % (inv, tr["violated"]))
    return res


def _leg_c_violation(tr, steps_file, vals, kind):
    st = tr["trace"]["counterexample"]["state"][-1][1] if "state" in tr["trace"].get("counterexample", {}) else None
    line = None
    try:
        line = tr["trace"]["counterexample"]["action"][-1][2][1]["l"] - 1
    except Exception:
        if st:
            line = st["l"] - 1
    steps = [json.loads(x) for x in open(steps_file)]
    e = steps[line - 1]
    seq = [x for x in steps if x["seq"] == e["seq"] and x["step"] <= e["step"]]
    ess = [{"req": x["req"], "ok": x["resp"]["ok"]} for x in seq
           if x["pre"] != x["post"] or x["step"] == e["step"]]
    inv = tr["violated"][0]
    shown = [vals[i - 1] for i in e["resp"]["v"] if 0 < i <= len(vals)]
    return {"key": keys.seq_key(inv, ess),
            "what": "%s: on configuration %d (family %s) after %s ; reply %s" % (
                WHAT[inv], e["g"], e["fam"], " ; ".join(keys.req_str(s["req"]) for s in ess), shown[:2]),
            "replay": {"kind": "keys-seq", "inv": inv, "ci": e["g"], "fam": e["fam"], "nids": e["nids"],
                       "nmax": e["nmax"], "requests": [x["req"] for x in seq], "found_by": kind}}


def run(pid, tier):
    t0 = time.time()
    quick = tier == "quick"
    binpath = vlib.build("keys")
    violations = []
    cov = {"legs": {}}
    divergences = []
    samples = []

    # ---- leg A: the model itself (native/ldk must hold; lnd must fail: vacuity guard of the monitors)
    a_states = a_trans = 0
    runs_a = [("life", "native", 2 if quick else 3, 1, "low", "life"),
              ("tree", "native", 2, 3 if quick else 5, "low", "tree"),
              ("lnd", "lnd", 2, 1, "low", "life")]
    if not quick:
        runs_a.append(("peer", "ldk", 3, 1, "peer0", "life"))
    model_cex = None
    for name, style, nids, nmax, fam, side in runs_a:
        a = keys.leg_a(name, style, nids, nmax, fam, side, ["C18a"] if style == "lnd" else list(MODEL_INVS) + ["TypeOK"])
        cov["legs"]["A_model_" + name] = {"style": style, "ids": nids, "nmax": nmax, "family": fam, "side": side,
                                          "states": a["states"], "distinct": a["distinct"], "depth": a["depth"],
                                          "violated": a["violated"], "wall_s": round(a["wall_s"], 1)}
        a_states += a["distinct"]
        a_trans += a["states"]
        if style == "lnd":
            if "C18a" not in a["violated"]:
                raise vlib.ToolError("vacuity guard: the LND-style model does not violate C18a")
            cov["legs"]["A_model_lnd"]["counterexample"] = [keys.req_str(s["req"]) for s in keys.model_trace(a["trace"])]
        elif a["violated"]:
            model_cex = keys.seq_key(a["violated"][0], keys.model_trace(a["trace"]))
            log("[%s] leg A: the MODEL violates %s (hypothesis about the code): %s" % (pid, a["violated"], model_cex))

    # ---- leg B: state graphs extracted from the real implementation
    b_nodes = b_edges = 0
    for side, nids, nmax in (("life", 2 if quick else 3, 3), ("tree", 2, 7 if quick else 11)):
        ex = keys.extract(binpath, tier, nids, nmax, side, threads=12)
        if ex["stats"].get("capped"):
            raise vlib.ToolError("implementation state graph did not close within the cap")
        r = keys.impl_tlc(ex, workers=1)      # one worker: breadth-first, so counterexamples are shortest histories
        rep = r["report"]
        vals = keys.load_vals(ex["vals"])
        cov["legs"]["B_impl_" + side] = {
            "graphs": ex["stats"]["graphs"], "ids": nids, "nmax": nmax,
            "requests_in_alphabet": len(ex["doc"]["requests"]),
            "impl_states": rep["nodes"], "impl_states_expanded": rep["expanded"], "impl_edges": rep["edges"],
            "observing_edges": rep["obs_edges"], "slots": rep["slots"], "distinct_values": rep["observations"],
            "spec_divergences": len(rep["divergences"]), "violated": r["violated"],
            "tlc_states": r["distinct"], "wall_s": round(r["wall_s"] + ex["wall_s"], 1)}
        if rep["obs_edges"] == 0 or rep["slots"] < 4 * nids:
            raise vlib.ToolError("leg B %s observed too little (%s)" % (side, rep["slots"]))
        b_nodes += rep["nodes"]
        b_edges += rep["edges"]
        divergences += [{"run": "B/" + side, **{k: x[k] for k in ("g", "path", "req", "ok", "vals", "expected")}}
                        for x in rep["divergences"][:20]]
        if not samples:
            samples.append({"leg": "B", "configuration": ex["doc"]["graphs"][0]["cfg"],
                            "history": [keys.req_str(ex["doc"]["requests"][i - 1])
                                        for i in (keys.node_row(ex, min(40, rep["nodes"] - 1)) or {"path": []})["path"]],
                            "note": "every request of the alphabet was applied in the state this history leads to"})
        if r["violated"]:
            inv = r["violated"][0]
            seq, node = keys.impl_trace(r["trace"])
            row = keys.node_row(ex, node) if node is not None else None
            gr = ex["doc"]["graphs"][row["gi"] - 1] if row else ex["doc"]["graphs"][0]
            # the offending request in that state (TLC lists the edges whose reply clashes / collides)
            bad = None
            lst = {"C18c": rep["tree_bad"], "C18a": rep["stable_bad"], "C18d": rep["stable_bad"],
                   "C18b": rep["distinct_bad"]}[inv]
            here = [x["req"] for x in lst if x["node"] == node
                    and (inv not in ("C18a", "C18d") or (x["req"]["op"] in ("NodeKey", "Ref")) == (inv == "C18d"))]
            if here:
                here.sort(key=lambda rq: (NODE_ORDER.index(rq["which"]) if rq.get("which") in NODE_ORDER else 99,
                                          json.dumps(rq, sort_keys=True)))
                bad = here[0]
            full = seq + ([{"req": bad, "ok": True}] if bad else [])
            violations.append({
                "key": keys.seq_key(inv, full),
                "what": "%s: on configuration %s after %s" % (WHAT[inv], gr["cfg"], " ; ".join(keys.req_str(s["req"]) for s in full)),
                "replay": {"kind": "keys-seq", "inv": inv, "ci": gr["ci"], "fam": gr["fam"], "nids": gr["nids"],
                           "nmax": gr["nmax"], "requests": gr["init"] + [s["req"] for s in full], "found_by": "B/" + side}})

    # ---- leg C: the TLC-generated case matrix and simulated behaviours, replayed and validated
    d = vlib.workdir("keys-c")
    nmax_c = 3
    doc = keys.cases("scripts", tier, 3, nmax_c, "life", os.path.join(d, "scripts.json"))
    configs = doc["configs"]
    cfgs = doc["cfgs"]
    items = []
    flip_cfgs = cfgs[:2] + cfgs[-1:] if quick else cfgs
    # the full life-cycle matrix: quick on 4 configurations (both styles, 3 seeds, 3 networks), thorough on
    # 12 of the 18 (one network dropped per style x seed, rotating); the id families on all selected ones
    life_cfgs = [cfgs[0], cfgs[2], cfgs[3], cfgs[4]] if quick else \
        [c for c in cfgs if (c - 1) % 3 != ((c - 1) // 3) % 3]
    for s in doc["scripts"]:
        use = flip_cfgs if s["fam"] != "low" else life_cfgs
        items += [(ci, s) for ci in use]
    items += [(ci, sc) for ci in doc["allcfgs"] for sc in doc["nodescripts"]]
    nsim, depth = (6, 40) if quick else (40, 60)
    sims = 0
    for k, fam in enumerate(["low", "peer0"] if quick else ["low", "mid", "high", "peer0", "peer32"]):
        for j, sq in enumerate(keys.simulate(3, nmax_c, fam, nsim, depth, vlib.seed() + k, d)):
            ci = cfgs[(j + k) % len(cfgs)]
            items.append((ci, {"fam": fam, "nids": 3, "nmax": nmax_c, "reqs": sq}))
            sims += 1
    seqfile = os.path.join(d, "seqs.ndjson")
    nseq = keys.write_seqs(seqfile, configs, items)
    steps_file = os.path.join(d, "steps.ndjson")
    t1 = time.time()
    rs = keys.run_sequences(binpath, seqfile, steps_file)
    vals = keys.load_vals(steps_file + ".vals.json")
    tr = keys.trace_tlc(steps_file, configs)
    trep = tr["report"]
    cov["legs"]["C_scripts_and_simulation"] = {
        "configurations": sorted({ci for ci, _ in items}), "sequences": nseq, "simulated_behaviours": sims,
        "scripts_per_configuration": len(doc["scripts"]), "steps": trep["steps"], "observing_steps": trep["obs_steps"],
        "slots": trep["slots"], "distinct_values": len(vals), "spec_divergences": len(trep["divergences"]),
        "broken": len(trep["broken"]), "violated": tr["violated"], "wall_s": round(time.time() - t1, 1)}
    if trep["obs_steps"] == 0 or rs.get("steps", 0) != trep["steps"]:
        raise vlib.ToolError("leg C recorded/validated step counts disagree or nothing was observed")
    divergences += [{"run": "C", **{k: x[k] for k in ("seq", "step", "g", "fam", "req", "resp", "expected")}}
                    for x in trep["divergences"][:20]]
    first = keys.steps_of(steps_file, 0)
    samples.append({"leg": "C", "configuration": configs[first[0]["g"] - 1] if first else None,
                    "history": [keys.req_str(x["req"]) + ("" if x["resp"]["ok"] else "!") for x in first]})
    if tr["violated"]:
        violations.append(_leg_c_violation(tr, steps_file, vals, "C"))
    if not violations:
        st = _monitor_selftest(steps_file, configs, d)
        cov["legs"]["monitor_selftest"] = {"altered_recordings_rejected": st}

    # ---- reply labelling: every secret the channel requests RETURN (revocation replies, their retries, the getters,
    # the protocol-handler composites) is the tree element of the number the request names.  Judged by TLC on the
    # implementation state graph of the channel component (ImplChannel.tla SecMislabel).
    import chan
    cbin = vlib.build("chan")
    lab = 0
    for ex in (chan.extract(cbin, 4 if quick else 6, "full", "holder", "ready"), chan.extract_handler(1 if quick else 3)):
        rl = chan.impl_tlc(ex, "none", [], workers=4)
        bad = rl["report"].get("sec_mislabel", [])
        lab += sum(1 for _ in open(ex["nodes"]))
        for b in bad[:50]:
            key = "C18s:%s(%+d):secret-of-another-number" % (b["req"]["op"], b["req"].get("n", 0) - b["pre"]["nh"])
            if not any(v["key"] == key for v in violations):
                violations.append({"key": key, "what": "%s for number %s (next holder number %s) returned the secret of number %s, "
                                   "the request names number %s" % (b["req"]["op"], b["req"].get("n"), b["pre"]["nh"],
                                                                    b["resp"]["sec"], b["expected"]["resp"]["sec"]),
                                   "replay": {"kind": "chan-edge", "pre": b["pre"], "req": b["req"], "resp": b["resp"],
                                              "expected": b["expected"]["resp"]}})
    cov["legs"]["reply_labelling"] = {"channel_graph_states_examined": lab, "mislabelled_replies": sum(1 for v in violations if v["key"].startswith("C18s"))}

    code, unknown, known = vlib.verdict(pid, violations)
    if divergences:
        log("[%s] NOTE: %d implementation steps are not steps of Keys.tla (specification needs updating; "
            "not a property violation)" % (pid, len(divergences)))
    cov.update({
        "states": max(1, a_states + b_nodes),
        "transitions": max(1, a_trans + b_edges),
        "traces_validated_against_impl": b_edges + trep["steps"],
        "samples": samples,
        "exhaustive": True,
        "spec_divergences": divergences[:40],
        "model_only_counterexample": model_cex if not violations else None,
        "explanation": "TLC (a) model-checks Keys.tla (and requires the LND-style model to fail), (b) walks the state "
                       "graphs extracted from real nodes (every request of the TLC-generated alphabet on every reachable "
                       "state, per configuration), compares every edge with Step and checks at every state that the keys "
                       "it shows equal what any other history showed, differ between ids, and that the real compact "
                       "secret store accepts/returns the released secrets, (c) validates the replayed TLC-generated "
                       "case matrix (all creation orders x set-up subsets x restart points, single-bit id families) "
                       "and simulated behaviours with the ghost running across all histories of a configuration",
    })
    vlib.write_evidence(pid, tier, "model_checking", cov,
                        ["SHA-256 / HKDF / secp256k1 behave as injective functions (equal byte strings <=> equal keys)",
                         "small scope: 2-3 channel ids per node (9 in the single-bit families), commitment numbers up "
                         "to the stated nmax, at most one permanent-id alias, two channel values",
                         "next_holder_commit_num is advanced with the test_utils setter and persisted by the harness "
                         "(the commitment exchange itself is covered by C01-C03)",
                         "native and LDK styles only (LND is order dependent by design and excluded by the statement)",
                         "TLC and the Json/IOUtils community modules"],
                        time.time() - t0, unknown + known)
    return code


def replay(pid, obj):
    """Re-run a recorded violating history (plus the plainest histories of the same ids) on the real
    implementation and let TLC judge."""
    rp = obj["replay"]
    if rp.get("kind") == "chan-edge":
        print("replay of a single channel-graph edge: re-run ./check %s (the edge is re-derived by the exploration)" % pid)
        return run(pid, "quick")
    binpath = vlib.build("keys")
    d = vlib.workdir("keys-replay")
    doc = keys.cases("scripts", "quick", 2, rp["nmax"], "life", os.path.join(d, "scripts.json"))
    configs = doc["configs"]
    items = [(rp["ci"], s) for s in _baseline(rp["fam"], rp["nids"], rp["nmax"])]
    # node-level keys: the reference terms and a second, independent node of the same configuration
    items += [(rp["ci"], s) for s in doc["nodescripts"]]
    items.append((rp["ci"], {"fam": rp["fam"], "nids": rp["nids"], "nmax": rp["nmax"], "reqs": rp["requests"]}))
    seqfile = os.path.join(d, "seqs.ndjson")
    keys.write_seqs(seqfile, configs, items)
    steps_file = os.path.join(d, "steps.ndjson")
    keys.run_sequences(binpath, seqfile, steps_file)
    vals = keys.load_vals(steps_file + ".vals.json")
    tr = keys.trace_tlc(steps_file, configs, name="trace-keys-replay")
    last = len(items) - 1
    for e in keys.steps_of(steps_file, last):
        print("  %s -> %s %s" % (keys.req_str(e["req"]), "ok" if e["resp"]["ok"] else "refused",
                                 [vals[i - 1][:16] + ".." for i in e["resp"]["v"][:2]]))
    if tr["violated"]:
        print("VIOLATION property=%s replay=%s" % (pid, "(reproduced: %s)" % tr["violated"][0]))
        return 1
    print("not reproduced")
    return 0
