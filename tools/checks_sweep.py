"""C09: sweep and second-level HTLC signatures only move funds back to the node.

Decided by spec/Sweep.tla:
  leg A  TLC model-checks the code-shaped Step against the reference predicate in every reachable
         (chain height, allowlist) state over the whole request matrix (MC_Sweep);
  leg B  TLC generates the behaviours (SweepCases), the harness concretises every request and submits
         it to the real sign_*_sweep / sign_*_htlc_tx entry points of a real node, TLC re-judges every
         logged concrete case with the reference predicate (ImplSweep): VIOLATION iff real Ok and
         MustRefuse, or a signature that does not verify against the presented (= canonical) transaction;
  leg C  TLC-simulated behaviours (blocks, allowlist changes and requests interleaved on one node)
         replayed through the real crates and judged the same way."""
import json
import os
import time

import sweep
import vlib
from vlib import log

PROPERTIES = ["C09"]


def _violations(rep, cases_file, leg):
    doc = json.load(open(cases_file))
    out = []
    seen = set()
    for v in rep["violations"]:
        key = sweep.finding_key(v)
        if key in seen:
            continue
        seen.add(key)
        what = ("real Ok although the reference refuses (%s)" % ", ".join(v["rules"]) if v["kind"] == "granted"
                else "granted, but the signature verifies against '%s' with sighash type '%s'" % (
                    v["resp"].get("sig"), v["resp"].get("typ")))
        out.append({"key": key,
                    "what": "%s %s/%s %s: %s" % (leg, v["api"], v["ct"], v["class"], what),
                    "replay": {"kind": "sweep-ops", "ctx": doc["ctx"], "ops": sweep.replay_ops(doc, v),
                               "q": v["q"], "resp": v["resp"], "rules": v["rules"]}})
    return out


def _minimise(binpath, d, viols):
    """drop the environment prefix of a violating case when the violation does not need it"""
    for n, v in enumerate(viols):
        rp = v["replay"]
        if len(rp["ops"]) <= 1:
            continue
        try:
            dd = os.path.join(d, "min%d" % n)
            os.makedirs(dd, exist_ok=True)
            cf = sweep.write_doc(os.path.join(dd, "cases.json"), rp["ctx"], [rp["ops"][-1:]])
            lf = os.path.join(dd, "log.ndjson")
            sweep.run_impl(binpath, cf, lf)
            r = sweep.judge(dd, "min", cf, lf)
            keys = {sweep.finding_key(x) for x in r["report"]["violations"]}
            if v["key"] in keys:
                rp["ops"] = rp["ops"][-1:]
        except vlib.ToolError as e:
            log("[C09] minimisation skipped: %s" % str(e)[:200])
    return viols


def _leg_cov(r, run):
    rep = r["report"]
    return {"behaviours": run.get("behaviours"), "requests_judged": rep["signs"], "env_steps": rep["env_steps"],
            "granted": rep["granted"], "distinct_concrete_queries": rep["distinct_queries"],
            "violating_records": rep["nviolations"], "impl_stricter": rep["nstricter"],
            "impl_stricter_kinds": rep["stricter_kinds"], "spec_divergences": rep["ndivergent"],
            "spec_divergence_kinds": rep["divergence_kinds"],
            "env_divergences": rep["env_divergences"],
            "sole_reason_refusals_per_rule": rep["sole"], "rules_never_sole_reason": rep["uncovered"],
            "granted_per_entry_point": rep["granted_kinds"], "panics_recorded": run.get("panics"),
            "tlc_states": r["distinct"], "violated": r["violated"], "wall_s": round(r["wall_s"], 1)}


def run(pid, tier):
    t0 = time.time()
    quick = tier == "quick"
    binpath = vlib.build("sweep")
    d = vlib.workdir("sweep-%s" % tier)
    cov = {"legs": {}}
    violations = []

    # ---- leg A: the model itself
    hmax = 3 if quick else 6
    a = sweep.leg_a(d, hmax, tier, multi_input=False, workers=8)
    cov["legs"]["A_model_single_input"] = {"HMax": hmax, "states": a["states"], "distinct": a["distinct"],
                                           "depth": a["depth"], "violated": a["violated"],
                                           "wall_s": round(a["wall_s"], 1)}
    a2 = sweep.leg_a(d, 1 if quick else 3, tier, multi_input=True, workers=8)
    hyp = sweep.model_cex_summary(a2) if a2["violated"] else None
    cov["legs"]["A_model_multi_input"] = {"states": a2["states"], "distinct": a2["distinct"],
                                          "violated": a2["violated"], "hypothesis": hyp,
                                          "wall_s": round(a2["wall_s"], 1)}
    if a["violated"] or a2["violated"]:
        log("[C09] leg A: the MODEL violates %s (hypothesis about the code, decided by leg B): %s" % (
            a["violated"] + a2["violated"], json.dumps(hyp or sweep.model_cex_summary(a))))

    # ---- leg B: every request of the matrix through the real entry points, re-judged by TLC
    cf = sweep.cases(d, tier)
    lf = os.path.join(d, "log.ndjson")
    runb = sweep.run_impl(binpath, cf, lf)
    b = sweep.judge(d, "B", cf, lf)
    rep = b["report"]
    cov["legs"]["B_matrix"] = _leg_cov(b, runb)
    if rep["nconc_bad"]:
        raise vlib.ToolError("harness concretisation differs from the model's numbers: %s" % json.dumps(rep["conc_bad"])[:1500])
    if rep["uncovered"]:
        raise vlib.ToolError("vacuity guard: rules that were never the sole reason of a refusal: %s" % rep["uncovered"])
    if not rep["granted"]:
        raise vlib.ToolError("vacuity guard: no request was granted")
    vb = _violations(rep, cf, "leg B")
    if bool(vb) != bool(b["violated"]):
        raise vlib.ToolError("ImplSweep: invariant verdict %s and report (%d violations) disagree" % (
            b["violated"], len(vb)))
    violations += vb

    # ---- leg C: simulated behaviours (state changes interleaved with requests) through the real crates
    num, depth = (40, 80) if quick else (400, 120)
    dc = os.path.join(d, "sim")
    os.makedirs(dc, exist_ok=True)
    seqs = sweep.simulate(dc, tier, 4 if quick else 8, num, depth, vlib.seed())
    cfc = sweep.write_doc(os.path.join(dc, "cases.json"), sweep.ctx_of(cf), seqs)
    lfc = os.path.join(dc, "log.ndjson")
    runc = sweep.run_impl(binpath, cfc, lfc)
    c = sweep.judge(dc, "C", cfc, lfc)
    crep = c["report"]
    cov["legs"]["C_simulated_behaviours"] = _leg_cov(c, runc)
    if crep["nconc_bad"]:
        raise vlib.ToolError("leg C: harness concretisation differs: %s" % json.dumps(crep["conc_bad"])[:1500])
    vc = _violations(crep, cfc, "leg C")
    if bool(vc) != bool(c["violated"]):
        raise vlib.ToolError("ImplSweep (leg C): invariant verdict and report disagree")
    have = {v["key"] for v in violations}
    violations += [v for v in vc if v["key"] not in have]

    violations = _minimise(binpath, d, violations)
    code, unknown, known = vlib.verdict(pid, violations)
    ndiv = rep["ndivergent"] + crep["ndivergent"]
    if ndiv:
        log("[C09] NOTE: %d real verdicts differ from the code-shaped Step of Sweep.tla (specification needs "
            "updating; not a property violation): %s" % (ndiv, json.dumps(rep["divergence_kinds"] + crep["divergence_kinds"])))
    envdiv = rep["env_divergences"] + crep["env_divergences"]
    if envdiv:
        log("[C09] NOTE: real chain height / allowlist differ from EnvStep at log lines %s" % envdiv[:10])

    samples = [{"request": s["req"], "concrete": s["q"], "real": s["resp"], "reference_rules_violated": s["rules"]}
               for s in rep["sample"]]
    judged = rep["signs"] + crep["signs"]
    cov.update({
        "states": max(1, a["distinct"] + a2["distinct"] + b["distinct"] + c["distinct"]),
        "transitions": max(1, a["states"] + a2["states"] + b["states"] + c["states"]),
        "traces_validated_against_impl": judged + rep["env_steps"] + crep["env_steps"],
        "samples": samples or [{"note": "no granted request"}],
        "evaluations": judged,
        "distinct_nontrivial": rep["distinct_queries"] + crep["distinct_queries"],
        "rule": "one evaluation = one signing request submitted to a real entry point and re-judged by TLC on its "
                "logged concrete values; distinct = distinct logged concrete (query, state) records, counted by TLC; "
                "every query is a base request or a 1..4-field mutation of it",
        "exhaustive": True,
        "impl_stricter": rep["nstricter"] + crep["nstricter"],
        "spec_divergences": (rep["divergences"] + crep["divergences"])[:20],
        "model_only_counterexample": hyp if (hyp and not violations) else None,
        "switches": sweep.SWITCHES,
        "explanation": "TLC (a) model-checks the code-shaped Step of Sweep.tla against the reference predicate in "
                       "every reachable (height, allowlist) state over the request matrix, (b) generates the matrix "
                       "as behaviours that the harness runs against the real sign_delayed_sweep / "
                       "sign_counterparty_htlc_sweep / sign_justice_sweep / sign_holder_htlc_tx / "
                       "sign_counterparty_htlc_tx of a real node and re-judges every logged concrete case with the "
                       "reference predicate, (c) does the same for simulated interleavings of state changes and "
                       "requests",
    })
    vlib.write_evidence(pid, tier, "model_checking", cov,
                        ["scripts are classified by how the harness constructed them (wallet / allowlisted xpub "
                         "derivations made from the PUBLIC extended keys, fixed foreign keys); SHA-256, RIPEMD-160 and "
                         "secp256k1 are treated as injective",
                         "LDK's chan_utils (key derivation, script builders) and rust-bitcoin's sighash are trusted to "
                         "build the canonical scripts and to verify the returned signatures",
                         "commitment types static_remotekey and anchors_zero_fee_htlc (the deprecated non-zero-fee "
                         "anchors type is refused by setup_channel); heights up to 6, two contest delays (6, 7), one "
                         "fee-rate policy (253..5000 per kw)",
                         "sign_holder_htlc_tx_phase2 is out of scope by the property's own text",
                         "TLC and the Json/IOUtils community modules"],
                        time.time() - t0, unknown + known)
    return code


def replay(pid, obj):
    """Re-run a recorded violating case on the real implementation and let TLC judge it."""
    rp = obj["replay"]
    binpath = vlib.build("sweep")
    d = vlib.workdir("sweep-replay")
    cf = sweep.write_doc(os.path.join(d, "cases.json"), rp["ctx"], [rp["ops"]])
    lf = os.path.join(d, "log.ndjson")
    sweep.run_impl(binpath, cf, lf)
    r = sweep.judge(d, "replay", cf, lf)
    for line in open(lf):
        e = json.loads(line)
        if e["k"] == "env":
            print("  %s -> %s" % (json.dumps(e["op"], sort_keys=True), json.dumps(e["env"], sort_keys=True)))
        elif e["k"] == "sign":
            print("  sign %s -> %s" % (json.dumps(e["q"], sort_keys=True), json.dumps(e["resp"], sort_keys=True)))
    keys = {sweep.finding_key(v) for v in r["report"]["violations"]}
    if r["violated"] and (obj.get("key") in keys or not obj.get("key")):
        print("VIOLATION property=%s replay=%s" % (pid, "(reproduced)"))
        return 1
    print("not reproduced")
    return 0
