"""C05: accepted commitments satisfy every mandatory policy bound.

Decided by spec/CommitPolicy.tla:
  leg A  MC_CommitPolicy    TLC enumerates the case matrix (and CHOOSES every concrete number), model-checks
                            the life cycle of every case on the code-shaped model, writes the cases
  bind   harness `commitpolicy run`: every case through the real setup_channel /
                            sign_counterparty_commitment_tx_phase2 / validate_holder_commitment_tx_phase2
  leg B  ImplCommitPolicy   TLC replays the recorded life cycles, compares every step with the model
                            (divergences), evaluates the reference predicate on the logged concrete values of
                            everything that was ACCEPTED (invariant C05)
Python only orchestrates, counts and formats."""
import hashlib
import json
import os
import re
import shutil
import time

import vlib
from vlib import log

PROPERTIES = ["C05"]
SWITCHES = json.load(open(os.path.join(vlib.ROOT, "spec", "switches_commitpolicy.json")))
# TLC caches LET definitions only with a single worker; this specification is LET-heavy big-number
# arithmetic, so one worker is several times faster than eight
WORKERS = 1
MAX_FINDINGS = 16


def _env(extra):
    e = {"CP_WRAP_FEERATE": "true" if SWITCHES["wrapFeerate"] else "false"}
    e.update(extra)
    return e


def leg_a(d, tier, timeout):
    """TLC: enumerate the matrix, write the cases, model-check the life cycles on the model."""
    cfg = vlib.write_cfg(os.path.join(d, "mc.cfg"), "SPECIFICATION Spec\nVIEW View\nINVARIANTS C05 TypeOK\n"
                                                     "CHECK_DEADLOCK FALSE\n")
    cases = os.path.join(d, "cases.ndjson")
    r = vlib.tlc("MC_CommitPolicy", cfg, env=_env({"CP_TIER": tier, "CP_OUT": cases}), workers=WORKERS,
                 extra=["-continue", "-seed", str(vlib.seed())], timeout=timeout, name="mc-commitpolicy-" + tier)
    m = re.search(r'<<"CP_MATRIX", (\d+), (\d+), (\d+), (\{[^}]*\})>>', r["out"])
    if not m:
        raise vlib.ToolError("MC_CommitPolicy printed no matrix statistics:\n" + r["out"][-2000:])
    r["matrix"] = {"cases": int(m.group(1)), "rules_with_sole_case": int(m.group(2)),
                   "cases_breaking_nothing": int(m.group(3)), "rules_without_sole_case": m.group(4)}
    r["model_violations"] = len(re.findall(r"Invariant C05 is violated", r["out"]))
    if "TypeOK" in r["violated"]:
        raise vlib.ToolError("MC_CommitPolicy: TypeOK violated")
    if m.group(4) != "{}" or int(m.group(3)) == 0:
        raise vlib.ToolError("vacuity guard (matrix): rules never the sole broken rule: %s, accepting cases: %s"
                             % (m.group(4), m.group(3)))
    r["cases_file"] = cases
    return r


def leg_b(d, logf, timeout, name):
    cfg = vlib.write_cfg(os.path.join(d, "impl.cfg"), "SPECIFICATION Spec\nVIEW View\nINVARIANTS C05\n"
                                                       "CHECK_DEADLOCK FALSE\n")
    report = os.path.join(d, "report-%s.json" % name)
    r = vlib.tlc("ImplCommitPolicy", cfg, env=_env({"CP_LOG": logf, "CP_REPORT": report}), workers=WORKERS,
                 timeout=timeout, name="impl-commitpolicy-" + name)
    r["report"] = json.load(open(report))
    return r


def _case_by_id(cases_file, ids):
    out = {}
    want = set(ids)
    with open(cases_file) as f:
        for line in f:
            if line.strip():
                c = json.loads(line)
                if c["id"] in want:
                    out[c["id"]] = c
    return out


def _big(a):
    return sum(v * 10000 ** i for i, v in enumerate(a))


def _pretty_req(r):
    return {"feerate": _big(r["feerate"]), "to_broadcaster": _big(r["to_b"]), "to_countersigner": _big(r["to_c"]),
            "offered": [[_big(h["v"]), _big(h["cltv"]), "hash#%s" % h.get("h", i)] for i, h in enumerate(r["off"])],
            "received": [[_big(h["v"]), _big(h["cltv"]), "hash#%s" % h.get("h", i)] for i, h in enumerate(r["rcv"])]}


def _pretty(c):
    p = c["pol"]
    return {"id": c["id"], "family": c["fam"], "why": c["why"], "kind": c["kind"], "side": c["side"], "n": c["n"],
            "policy": {"validator": p["vk"], "delay": [p["min_delay"], p["max_delay"]], "max_chan": _big(p["max_chan"]),
                       "max_htlcs": p["max_htlcs"], "max_inflight": _big(p["max_inflight"]),
                       "use_chain_state": p["use_chain"], "feerate": [_big(p["min_fr"]), _big(p["max_fr"])],
                       "filter": [("%s%s:%s" % ("-".join(f["tag"]), "-*" if f["prefix"] else "",
                                                "warn" if f["warn"] else "error")) for f in p["filter"]]},
            "setup": {"type": c["setup"]["ctype"], "outbound": c["setup"]["outbound"],
                      "value": _big(c["setup"]["value"]), "push_msat": _big(c["setup"]["push_msat"]),
                      "delays": [c["setup"]["hdelay"], c["setup"]["cdelay"]]},
            "chain": c["chain"], "request": _pretty_req(c["req"]),
            "sequence": ({"first_request": _pretty_req(c["seq"]["req1"]), "advance": c["seq"].get("adv", False),
                          "chain_before_request": c["seq"]["chain2"]} if c.get("kind") == "seq" else None),
            "obs": c.get("obs")}


def _stats(logf):
    """distinct concrete cases, counted by hashing what was actually run"""
    seen = set()
    nontrivial = set()
    n = 0
    fam = {}
    with open(logf) as f:
        for line in f:
            if not line.strip():
                continue
            c = json.loads(line)
            n += 1
            fam[c["fam"]] = fam.get(c["fam"], 0) + 1
            h = hashlib.sha256(json.dumps([c["kind"], c["pol"], c["setup"], c["chain"], c["side"], c["n"],
                                           c["req"] if c["kind"] != "setup" else None,
                                           c["seq"] if c["kind"] == "seq" else None], sort_keys=True).encode()).hexdigest()
            seen.add(h)
            o = c["obs"]
            reached = o["setup"] != "none" if c["kind"] == "setup" else o["res"] != "none"
            if reached:
                nontrivial.add(h)
    return n, len(seen), len(nontrivial), fam


def _violations(rep, cases_file, logf, leg):
    """one finding per (event, broken binding rules, arithmetic class), as reported by TLC"""
    groups = {}
    for v in rep["violations"]:
        key = "C05:%s:%s:%s" % (v["ev"], "+".join(sorted(v["rules"])), v["detail"])
        groups.setdefault(key, []).append(v)
    out = []
    if len(groups) > MAX_FINDINGS:
        log("[C05] %d distinct finding keys, reporting the first %d: %s ..." % (
            len(groups), MAX_FINDINGS, " ".join(sorted(groups)[MAX_FINDINGS:MAX_FINDINGS + 10])))
    for key, vs in sorted(groups.items())[:MAX_FINDINGS]:
        first = vs[0]
        case = _case_by_id(cases_file, [first["id"]]).get(first["id"])
        obs = None
        with open(logf) as f:
            for i, line in enumerate(f, 1):
                if i == first["line"]:
                    obs = json.loads(line)
                    break
        sides = sorted({"%s/n=%d" % (x["side"], x["n"]) for x in vs})
        what = ("the real %s ACCEPTED (%s) what the reference predicate says must be refused: binding rule(s) %s "
                "[%s]; %d recorded case(s), sides %s; first: case %d (%s)"
                % ({"setup": "setup_channel", "open": "open step (initial commitments)",
                    "request1": "first commitment request of the sequence",
                    "request": "commitment request"}[first["ev"]], leg, "+".join(sorted(first["rules"])),
                   first["detail"], len(vs), ",".join(sides), first["id"], first["why"]))
        out.append({"key": key, "what": what,
                    "replay": {"kind": "commitpolicy-case", "case": case, "observed": _pretty(obs) if obs else None,
                               "other_case_ids": [x["id"] for x in vs[1:40]]}})
    return out


def run(pid, tier):
    t0 = time.time()
    quick = tier == "quick"
    binpath = vlib.build("commitpolicy")
    d = vlib.workdir("commitpolicy-" + tier)
    cov = {"legs": {}}

    # ---- leg A
    a = leg_a(d, tier, 600 if quick else 3000)
    cov["legs"]["A_model"] = {"cases": a["matrix"]["cases"], "states": a["distinct"], "transitions": a["states"],
                              "depth": a["depth"], "model_states_violating_C05": a["model_violations"],
                              "rules_with_sole_case": a["matrix"]["rules_with_sole_case"],
                              "cases_breaking_nothing": a["matrix"]["cases_breaking_nothing"],
                              "wall_s": round(a["wall_s"], 1)}
    if a["model_violations"]:
        log("[C05] leg A: the code-shaped MODEL accepts %d request(s) the reference refuses (switches %s): "
            "hypothesis about the code" % (a["model_violations"], SWITCHES))

    # ---- binding: every case through the real entry points
    runs = [("prod", binpath, {})]
    if not quick and os.environ.get("VERIF_C05_OVERFLOW_LEG", "1") != "0":
        # arithmetic-sensitive: a second build with overflow checks on (a debug-profile signer)
        oc = vlib.build("commitpolicy", {"CARGO_PROFILE_DEV_OVERFLOW_CHECKS": "true"})
        oc_copy = os.path.join(d, "commitpolicy-overflow-checks")
        shutil.copy(oc, oc_copy)
        binpath = vlib.build("commitpolicy")      # restore the production-arithmetic binary
        runs = [("prod", binpath, {}), ("overflow_checks", oc_copy, {})]
    violations = []
    tot_states = a["distinct"]
    tot_trans = a["states"]
    tot_traces = 0
    divergences = []
    samples = []
    rep0 = None
    for name, b, env in runs:
        logf = os.path.join(d, "log-%s.ndjson" % name)
        t1 = time.time()
        hs = vlib.run_bin(b, ["run", "--cases", a["cases_file"], "--out", logf, "--threads", 8], env=env,
                          timeout=1800)
        h_wall = time.time() - t1
        r = leg_b(d, logf, 600 if quick else 3000, name)
        rep = r["report"]
        n, distinct, nontrivial, fam = _stats(logf)
        cov["legs"]["B_impl_" + name] = {
            "records": rep["records"], "observed_steps": rep["steps"], "accepted_steps": rep["accepted"],
            "refused_steps": rep["refused"], "panics": rep["panics"], "requests_unreached": rep["unreached"],
            "violating_steps": rep["nviolations"], "impl_stricter": rep["impl_stricter"],
            "impl_stricter_by_check": rep["stricter_by_cls"], "spec_divergences": rep["ndivergences"],
            "rules_sole_reason_of_a_real_refusal": len(rep["sole_refused"]), "rules_missing": rep["sole_missing"],
            "advisory_claimed_feerate_outside_accepted": rep["advisory_claimed_feerate_outside_accepted"],
            "distinct_concrete_cases": distinct, "distinct_reached": nontrivial, "by_family": fam,
            "product_states": r["distinct"], "product_transitions": r["states"], "violated": r["violated"],
            "harness": hs, "wall_s": round(r["wall_s"] + h_wall, 1)}
        tot_states += r["distinct"]
        tot_trans += r["states"]
        tot_traces += rep["records"] - rep["unreached"]
        divergences += [{"run": name, **x} for x in rep["divergences"][:20]]
        if rep0 is None:
            rep0 = (rep, n, distinct, nontrivial, logf)
        if ("C05" in r["violated"]) != (rep["nviolations"] > 0):
            raise vlib.ToolError("ImplCommitPolicy: invariant verdict %s disagrees with the report (%d)"
                                 % (r["violated"], rep["nviolations"]))
        if "C05" in r["violated"]:
            violations += _violations(rep, a["cases_file"], logf, name)
        if rep["sole_missing"] and not rep["nviolations"]:
            raise vlib.ToolError("vacuity guard (%s): rules that were never the sole reason of a real refusal: %s"
                                 % (name, rep["sole_missing"]))
        if rep["accepted"] == 0:
            raise vlib.ToolError("vacuity guard (%s): the implementation accepted nothing" % name)
        if rep["panic_samples"]:
            log("[C05] %s: %d request(s) panicked inside the signer (recorded, not a violation of C05), e.g. case %s %s"
                % (name, rep["panics"], rep["panic_samples"][0]["id"], rep["panic_samples"][0]["why"]))

    # samples: an accepted good case, a refusal with a single binding rule, a filter case
    rep, n, distinct, nontrivial, logf = rep0
    want = {"accepted": None, "refused_sole": None, "filter": None}
    with open(logf) as f:
        for line in f:
            c = json.loads(line)
            if c["kind"] != "commit":
                continue
            if want["accepted"] is None and c["obs"]["res"] == "ok" and c["n"] == 1 and c["req"]["off"]:
                want["accepted"] = _pretty(c)
            if want["refused_sole"] is None and c["obs"]["res"] == "refused" and c["fam"] == "dusthtlc":
                want["refused_sole"] = _pretty(c)
            if want["filter"] is None and c["fam"] == "filter" and c["obs"]["res"] == "ok" and c["pol"]["filter"]:
                want["filter"] = _pretty(c)
            if all(want.values()):
                break
    samples = [v for v in want.values() if v]

    code, unknown, known = vlib.verdict(pid, violations)
    if divergences:
        log("[C05] NOTE: %d observed steps differ from the code-shaped model of CommitPolicy.tla (specification "
            "needs updating; not a property violation)" % len(divergences))
    cov.update({
        "states": max(1, tot_states), "transitions": max(1, tot_trans),
        "traces_validated_against_impl": tot_traces,
        "evaluations": n, "distinct_nontrivial": nontrivial,
        "rule": "cases are enumerated by TLC from MC_CommitPolicy.tla (every family of single-field mutations of a "
                "good commitment at bound-1/bound/bound+1, typical values and u64/u32 extremes, pairs, every filter "
                "shape around the rules a case breaks, request sequences: the same number again after the chain "
                "changed, two successive commitments with an HTLC carried over / another part with the same payment "
                "hash added while the fee rate or the chain height moves); a case counts as distinct by the SHA-256 of the concrete "
                "(policy, setup, chain, side, n, request) that was run and as non-trivial when its request (or "
                "setup_channel for setup cases) actually reached the real entry point",
        "samples": samples or [{"note": "no sample"}],
        "exhaustive": True,
        "spec_divergences": divergences[:40],
        "model_only_counterexamples": a["model_violations"] if not violations else 0,
        "switches": SWITCHES,
        "explanation": "TLC (a) enumerates the case matrix of CommitPolicy.tla, choosing every concrete number, and "
                       "model-checks the life cycle stub->ready->opened->chained[->pending[->advanced]->chained2]"
                       "->done of every case on the "
                       "code-shaped model; (b) after the harness ran every case through the real setup_channel / "
                       "sign_counterparty_commitment_tx_phase2 / validate_holder_commitment_tx_phase2, replays the "
                       "recorded life cycles: every observed step is compared with the model (divergences) and the "
                       "reference predicate MustRefuse is evaluated on the logged concrete values of every accepted "
                       "step (invariant C05)",
    })
    vlib.write_evidence(pid, tier, "model_checking", cov,
                        ["the reference predicate is transcribed from docs/policy-controls.md, BOLT-3 (weights, trim "
                         "rule) and the property text; dust constants 354/330 sat and the funding depth 1 are the "
                         "documented minima",
                         "fee-rate rule with tolerance: must-refuse only when every rate that explains the implied "
                         "fee is out of range (anchors deducted for the upper bound)",
                         "counterparty signatures come from the repository's test_utils with the test counterparty "
                         "keys; outgoing HTLCs are approved by keysend so that policy is the only reason to refuse",
                         "chain state is fed to the channel's ChainMonitor directly (on_add_block), not through "
                         "tracker proofs",
                         "filters: exact rules and word-aligned prefix rules only; phase-1 (raw transaction) entry "
                         "points are not driven",
                         "TLC, the Json/IOUtils community modules, BigNat.tla (base-10000 limbs, checked by ASSUMEs)"],
                        time.time() - t0, unknown + known)
    return code


def replay(pid, obj):
    """Re-run one recorded case on the real implementation and let TLC judge it."""
    rp = obj["replay"]
    binpath = vlib.build("commitpolicy")
    d = vlib.workdir("commitpolicy-replay")
    cases = os.path.join(d, "cases.ndjson")
    with open(cases, "w") as f:
        f.write(json.dumps(rp["case"]) + "\n")
    logf = os.path.join(d, "log.ndjson")
    vlib.run_bin(binpath, ["run", "--cases", cases, "--out", logf, "--threads", 1])
    r = leg_b(d, logf, 600, "replay")
    for line in open(logf):
        c = json.loads(line)
        print(json.dumps(_pretty(c), sort_keys=True))
    for v in r["report"]["violations"]:
        print("  accepted although binding rule(s) %s are broken [%s] at step %s" % (v["rules"], v["detail"], v["ev"]))
    if "C05" in r["violated"]:
        print("VIOLATION property=%s replay=%s" % (pid, "(reproduced)"))
        return 1
    print("not reproduced")
    return 0
