"""C01, C02, C03: decided by Channel.tla (legs A, B, C)."""
import json
import time

import chan
import vlib
from vlib import log

PROPERTIES = ["C01", "C02", "C03"]
TITLE = {"C01": "holder secret n disclosed only after n+1 accepted with verifying signatures",
         "C02": "no holder commitment both signed for broadcast and revoked",
         "C03": "counterparty commitments advance only over properly revoked predecessors"}
SIDE = {"C01": "holder", "C02": "holder", "C03": "cp"}


def _sample_edges(ex, k=3):
    out = []
    with open(ex["nodes"]) as f:
        for i, line in enumerate(f):
            row = json.loads(line)
            for e in row["e"]:
                if e[2] == 1 and e[0] != row["id"]:
                    out.append({"state": row["pre"], "request": ex["requests"][e[1] - 1], "to_state": e[0],
                                "resp": {"ok": True, "sec": e[3], "pt": e[4]}})
                    break
            if len(out) >= k:
                break
    return out


def _edge_stats(ex):
    ok = refused = disclose = 0
    with open(ex["nodes"]) as f:
        for line in f:
            row = json.loads(line)
            for e in row["e"]:
                if e[2] == 1:
                    ok += 1
                    if e[3] >= 0:
                        disclose += 1
                else:
                    refused += 1
    return {"accepted_edges": ok, "refused_edges": refused, "disclosing_edges": disclose}


def run(pid, tier):
    t0 = time.time()
    quick = tier == "quick"
    inv = pid
    binpath = vlib.build("chan")
    violations = []
    cov = {"legs": {}}
    divergences = []

    # ---- leg A: the model itself
    na = 3 if quick else 5
    a = chan.leg_a(pid, na, [inv, "TypeOK"], workers=8 if quick else 14)
    cov["legs"]["A_model"] = {"N": na, "states": a["states"], "distinct": a["distinct"], "depth": a["depth"],
                              "violated": a["violated"], "wall_s": round(a["wall_s"], 1)}
    model_cex = None
    if a["violated"]:
        model_cex = chan.trace_requests(a["trace"])
        log("[%s] leg A: the MODEL violates %s (hypothesis about the code): %s" % (
            pid, a["violated"], chan.seq_key(inv, model_cex)))

    # ---- unbounded: TLAPS proof of the abstraction + TLC refinement check (C01, C02)
    if pid in ("C01", "C02", "C03"):
        pr = chan.holder_abs_proof_and_refinement(2 if quick else 3, workers=8 if quick else 14)
        cov["legs"]["P_tlaps_proof_and_refinement"] = pr
        if pr["refinement_violated"]:
            log("[%s] NOTE: Channel.tla no longer refines HolderAbs.tla (%s): the unbounded proof does not transfer; "
                "the bounded legs still decide" % (pid, pr["refinement_violated"]))

    # ---- leg B: implementation state graph, one side (quick) + product (thorough) + stub
    runs = [(SIDE[pid], 4 if quick else 6, "full", "ready"), ("all", 1, "full", "stub"),
            # the same side under the validator stack vlsd installs (OnchainValidatorFactory wrapping the simple
            # validator; funding confirmed and buried): a rule that a delegating wrapper fails to forward
            # disappears only there
            (SIDE[pid], 2 if quick else 4, "full", "ready-onchain")]
    if not quick:
        runs.append(("all", 2, "full", "ready"))
    elif pid in ("C02", "C03"):
        # both mutual-close entry points (phase 2 and the raw-transaction one) need both sides of the channel;
        # C03: the counterparty side with the HOLDER counters moving too (a rule that consults the wrong counter,
        # e.g. "skip the store write when the holder counter is one ahead", only shows when both advance)
        runs.append(("all", 1, "full", "ready"))
    tot_states = tot_edges = 0
    samples = []
    if pid in ("C01", "C02"):
        runs.append(("handler", 1 if quick else 3, "full", "ready"))
    runs = [x + (0,) for x in runs]
    if pid == "C03":
        # deep indices: the compact secret store places / checks secrets by the trailing bits of the
        # commitment number; these runs start after `base` honest cycles so that the explored numbers
        # straddle 2^k - 1 (base = 2^k - 3: the first number whose index has k trailing zero bits is base+2)
        for base in ([13, 253] if quick else [5, 13, 29, 61, 125, 253, 509, 1021]):
            runs.append(("deepcp", 4, "full", "ready", base))
    for side, n, contents, phase, base in runs:
        ex = chan.extract_handler(n) if side == "handler" else chan.extract(
            binpath, n, contents, side, phase, base=base, threads=4 if base else 16)
        r = chan.impl_tlc(ex, pid, [inv], workers=8 if quick else 14)
        rep = r["report"]
        st = _edge_stats(ex)
        if base and not any(q["op"] == "ValidateRevocation" and q["n"] == base + 2 and e[2] == 1
                            for q, e in _accepted(ex)):
            raise vlib.ToolError("deep run base=%d never accepted the revocation of number %d" % (base, base + 2))
        cov["legs"]["B_impl_%s_%s_N%d%s" % (side, phase, n, ("_base%d" % base) if base else "")] = {
            "impl_states": rep["nodes"], "impl_states_expanded": rep["expanded"], "impl_edges": rep["edges"],
            "requests_in_alphabet": len(ex["requests"]), "product_states": r["distinct"],
            "product_transitions": r["states"], "spec_divergences": len(rep["divergences"]),
            "violated": r["violated"], "wall_s": round(r["wall_s"] + ex["wall_s"], 1), **st}
        tot_states += r["distinct"]
        tot_edges += rep["edges"]
        divergences += [{"run": "%s/%s/N%d/base%d" % (side, phase, n, base), **d} for d in rep["divergences"][:20]]
        if not samples:
            samples = _sample_edges(ex)
        if r["violated"]:
            seq = chan.trace_requests(r["trace"])
            key = chan.seq_key(r["violated"][0], seq)
            if base:
                key += "@deep"
            # a deep run is replayed from the very beginning: honest prefix, then the violating requests
            prefix = []
            for k in range(base + 1 if base else 0):
                prefix.append({"op": "SignCp", "n": k, "t": "A", "c": "A"})
                if k >= 1 and k + 1 <= base:
                    prefix.append({"op": "ValidateRevocation", "n": k - 1, "t": "A", "m": k - 1})
            rp = {"kind": "chan-seq", "n": n + base + 2 if base else n, "phase": phase, "mon": pid, "inv": inv,
                  "requests": prefix + [s["req"] for s in seq]}
            if side == "handler":
                # protocol-handler requests are replayed by re-deriving the handler graph (hand explore) and
                # asking TLC for the same finding
                rp = {"kind": "hand-explore", "n": n, "mon": pid, "inv": inv, "expect": key,
                      "requests": [s["req"] for s in seq]}
            violations.append({"key": key, "what": "%s fails on the real implementation after%s: %s" % (
                r["violated"][0], (" %d honest commitment cycles and" % base) if base else "",
                " ; ".join(json.dumps(s["req"], sort_keys=True) for s in seq)),
                "replay": rp})

    # ---- leg C: model behaviours replayed through the implementation, validated by TLC
    nsim, depth, nn = (40, 40, 6) if quick else (400, 60, 10)
    d = vlib.workdir("chan-c-%s" % pid)
    seqs, sim = chan.simulate(nn, nsim, depth, vlib.seed(), d)
    steps_file = d + "/steps.ndjson"
    rs = chan.run_sequences(binpath, seqs, nn, steps_file)
    tr = chan.trace_tlc(steps_file, pid, [inv])
    trep = tr["report"]
    cov["legs"]["C_sim_replay"] = {"N": nn, "behaviours": rs.get("sequences", 0), "steps": trep["steps"],
                                   "spec_divergences": len(trep["divergences"]), "broken": len(trep["broken"]),
                                   "violated": tr["violated"]}
    divergences += [{"run": "sim", **{k: x[k] for k in ("seq", "step", "pre", "req", "resp", "post", "expected")}}
                    for x in trep["divergences"][:20]]
    if tr["violated"]:
        st = tr["trace"]["counterexample"]["action"][-1][2][1]
        line = st["l"] - 1
        steps = [json.loads(x) for x in open(steps_file)]
        e = steps[line - 1]
        seq = [{"req": x["req"], "ok": x["resp"]["ok"]} for x in steps
               if x["seq"] == e["seq"] and x["step"] <= e["step"]]
        # keep the steps that changed state or are the last one
        ess = [s for s, x in zip(seq, [y for y in steps if y["seq"] == e["seq"] and y["step"] <= e["step"]])
               if x["pre"] != x["post"] or x["step"] == e["step"]]
        violations.append({"key": chan.seq_key(tr["violated"][0], ess),
                           "what": "%s fails on a replayed model behaviour" % tr["violated"][0],
                           "replay": {"kind": "chan-seq", "n": nn, "phase": "ready", "mon": pid, "inv": inv,
                                      "requests": [s["req"] for s in seq]}})

    code, unknown, known = vlib.verdict(pid, violations)
    if divergences:
        log("[%s] NOTE: %d implementation edges are not edges of Channel.tla (specification needs updating; "
            "not a property violation)" % (pid, len(divergences)))
    cov.update({
        "states": max(1, tot_states + a["distinct"]),
        "transitions": max(1, a["states"] + sum(v.get("product_transitions", 0) for v in cov["legs"].values())),
        "traces_validated_against_impl": tot_edges + trep["steps"],
        "samples": samples or [{"note": "no accepted edge"}],
        "exhaustive": True,
        "spec_divergences": divergences[:40],
        "model_only_counterexample": chan.seq_key(inv, model_cex) if model_cex and not violations else None,
        "switches": chan.SWITCHES,
        "explanation": "TLC (a) model-checks Channel.tla, (b) explores the product of the state graph extracted "
                       "from the real crates (every request of the alphabet on every reachable state) with the "
                       "ghost monitor of %s, checking each implementation edge against Step, (c) validates "
                       "replayed simulation behaviours" % pid,
    })
    vlib.write_evidence(pid, tier, "model_checking", cov,
                        ["SHA-256/secp256k1 behave as injective functions (abstract secrets/points)",
                         "small scope: commitment numbers up to the stated N, 4 contents, 2 secret trees",
                         "LDK transaction builder and secp256k1 produce/verify the test counterparty signatures",
                         "TLC and the Json/IOUtils community modules"],
                        time.time() - t0, unknown + known)
    return code


def _accepted(ex):
    """(request, edge) for every accepted edge of an extracted implementation graph"""
    with open(ex["nodes"]) as f:
        for line in f:
            row = json.loads(line)
            for e in row["e"]:
                if e[2] == 1:
                    yield ex["requests"][e[1] - 1], e


def replay(pid, obj):
    """Re-run a recorded violating request sequence on the real implementation and let TLC judge."""
    rp = obj["replay"]
    if rp.get("kind") == "hand-explore":
        ex = chan.extract_handler(rp["n"])
        r = chan.impl_tlc(ex, rp["mon"], [rp["inv"]], workers=8)
        if r["violated"]:
            seq = chan.trace_requests(r["trace"])
            print("  " + " ; ".join(json.dumps(x["req"], sort_keys=True) for x in seq))
            print("VIOLATION property=%s replay=%s" % (pid, "(reproduced)"))
            return 1
        print("not reproduced")
        return 0
    binpath = vlib.build("chan")
    d = vlib.workdir("chan-replay-%s" % pid)
    steps_file = d + "/steps.ndjson"
    chan.run_sequences(binpath, [rp["requests"]], rp["n"], steps_file, phase=rp.get("phase", "ready"))
    tr = chan.trace_tlc(steps_file, rp["mon"], [rp["inv"]])
    for x in open(steps_file):
        e = json.loads(x)
        print("  %s -> %s" % (json.dumps(e["req"], sort_keys=True), json.dumps(e["resp"], sort_keys=True)))
    if tr["violated"]:
        print("VIOLATION property=%s replay=%s" % (pid, "(reproduced)"))
        return 1
    print("not reproduced")
    return 0
