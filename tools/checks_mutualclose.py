"""C07: mutual close validation - reference predicate + TLC case enumeration (MutualClose.tla).

leg A  TLC model-checks MC_MutualClose (the implementation-shaped ImplStep against the reference
       predicate over the abstract case matrix); a counterexample is a hypothesis about the code.
leg B  TLC prints the case matrix (MutualCloseCases), the harness (`mutualclose run`) reaches every
       channel state through the public API of the real crates and issues every close request to
       sign_mutual_close_tx / _phase2, and TLC (ImplMutualClose) re-judges every executed case from
       the logged concrete values: VIOLATION iff the real code signed what the reference must refuse,
       or the signature is not over the canonical closing transaction, or the channel is not
       (durably) marked closed.  Python only orchestrates."""
import concurrent.futures
import hashlib
import json
import os
import re
import time

import vlib
from vlib import log

PROPERTIES = ["C07"]
# behaviour switches of ImplStep: what the model says the code does at HEAD (conformance only)
SWITCHES = json.load(open(os.path.join(vlib.ROOT, "spec", "MutualClose.switches.json")))
if os.environ.get("VERIF_C07_SATURATE"):          # private mutation self-tests on a copy that carries the fix
    SWITCHES["feerateSaturates"] = os.environ["VERIF_C07_SATURATE"] == "true"
RULES = ["commitments", "shape", "htlcs", "funds", "fee_low", "fee_high", "value", "dest", "upfront"]

# tier -> (leg A constants, case matrix magnitudes, judge processes)
TIERS = {
    "quick": {"passes": [(1, 1)], "mags_a": '{"n", "g"}', "mags": "n,g", "judges": 4, "workers": 8,
              "gens": 2},
    "thorough": {"passes": [(2, 1), (0, 2)], "mags_a": '{"n", "g", "a"}', "mags": "n,g,a", "judges": 8,
                 "workers": 8, "gens": 6},
}


def leg_a(tier, d):
    t = TIERS[tier]
    hyps = {}
    tot = {"states": 0, "distinct": 0, "depth": 0, "wall_s": 0.0, "passes": []}
    for (ks, kr) in t["passes"]:
        cfg = vlib.write_cfg(os.path.join(d, "MC_MutualClose_%d_%d.cfg" % (ks, kr)),
                             "SPECIFICATION Spec\nCONSTANTS\n  KS = %d\n  KR = %d\n  Mags = %s\n  Saturate = %s\n"
                             "VIEW View\nINVARIANTS C07\nPROPERTIES ClosedAfterSign\nCHECK_DEADLOCK FALSE\n" % (
                                 ks, kr, t["mags_a"], "TRUE" if SWITCHES["feerateSaturates"] else "FALSE"))
        r = vlib.tlc("MC_MutualClose", cfg, workers=t["workers"], extra=["-continue", "-coverage", "1"],
                     timeout=2400, name="mc-mutualclose-%d-%d" % (ks, kr))
        if [v for v in r["violated"] if v != "C07"]:
            raise vlib.ToolError("leg A: the model violates %s" % r["violated"])
        for m in re.finditer(r'g = <<"signed_must_refuse", (\{[^}]*\}), "([^"]*)">>', r["out"]):
            rules = "+".join(sorted(re.findall(r'"([^"]+)"', m.group(1))))
            key = "C07:" + rules + (":" + m.group(2) if m.group(2) else "")
            hyps[key] = hyps.get(key, 0) + 1
        acts = vlib.coverage_actions(r["out"])
        for a in ("Advance", "Close"):
            if a in acts and acts[a][1] == 0:
                raise vlib.ToolError("leg A self-test: action %s never taken" % a)
        tot["states"] += r["states"]
        tot["distinct"] += r["distinct"]
        tot["depth"] = max(tot["depth"], r["depth"])
        tot["wall_s"] += r["wall_s"]
        tot["passes"].append({"KS": ks, "KR": kr, "states": r["states"], "distinct": r["distinct"]})
    return tot, hyps


def gen_cases(tier, d, dest):
    """TLC prints the case matrix; several TLC processes share the states (MCL_PART_K of MCL_PART_N)."""
    t = TIERS[tier]
    cfg = os.path.join(vlib.SPEC, "MutualCloseCases.cfg")
    n = t["gens"]

    def one(k):
        out = os.path.join(d, "cases-%d.json" % k)
        r = vlib.tlc("MutualCloseCases", cfg, env={"MCL_OUT": out, "MCL_TIER": tier, "MCL_MAGS": t["mags"],
                                                    "MCL_PART_K": k, "MCL_PART_N": n},
                     workers=1, timeout=2400, name="cases-mutualclose-%d" % k, heap="4g")
        r["cases"] = json.load(open(out))
        return r

    with concurrent.futures.ThreadPoolExecutor(max_workers=n) as ex:
        rs = list(ex.map(one, range(n)))
    states = rs[0]["cases"]["states"]
    for r in rs[1:]:
        if r["cases"]["states"] != states:
            raise vlib.ToolError("case generation: the parts disagree on the abstract states")
    cases = []
    for r in rs:
        cases += r["cases"]["cases"]
    cases.sort(key=lambda c: json.dumps(c))
    json.dump({"states": states, "cases": cases}, open(dest, "w"))
    return {"wall_s": max(r["wall_s"] for r in rs)}


def run_harness(binpath, cases, d, threads=8):
    out = os.path.join(d, "log")
    stats = vlib.run_bin(binpath, ["run", "--cases", cases, "--out", out, "--threads", threads], timeout=3000)
    if stats.get("build_failures"):
        # the real code refused a step of the history the model expects to be accepted (implementation stricter
        # than the model: a divergence, not an alarm); the cases of that state are not run
        log("[C07] NOTE: %d channel states were not reached through the public API, e.g. %s" % (
            len(stats["build_failures"]), json.dumps(stats["build_failures"][0])[:400]))
    lines = []
    for fn in sorted(os.listdir(out)):
        if fn.startswith("log-"):
            with open(os.path.join(out, fn)) as f:
                lines += [l for l in f if l.strip()]
    lines.sort(key=lambda l: int(re.search(r'"i":(\d+)', l).group(1)))
    return stats, lines


def judge(lines, d, nproc, tag="impl"):
    """TLC re-judges the logged cases; the log is split so that several TLC processes share the work."""
    nproc = max(1, min(nproc, (len(lines) + 499) // 500))
    chunks = [lines[k::nproc] for k in range(nproc)]
    cfg = vlib.write_cfg(os.path.join(d, "impl.cfg"), "SPECIFICATION Spec\nINVARIANTS C07\nCHECK_DEADLOCK FALSE\n")

    def one(k):
        lf = os.path.join(d, "%s-%d.ndjson" % (tag, k))
        with open(lf, "w") as f:
            f.writelines(chunks[k])
        rep = os.path.join(d, "%s-report-%d.json" % (tag, k))
        r = vlib.tlc("ImplMutualClose", cfg, env={"MCL_LOG": lf, "MCL_REPORT": rep,
                                                  "MCL_SATURATE": "true" if SWITCHES["feerateSaturates"] else "false"},
                     workers=2, timeout=3000, extra=["-continue"], name="%s-mutualclose-%d" % (tag, k), heap="4g")
        r["report"] = json.load(open(rep))
        return r

    with concurrent.futures.ThreadPoolExecutor(max_workers=nproc) as ex:
        rs = list(ex.map(one, range(nproc)))
    tot = {"cases": 0, "accepted": 0, "signed_ok": 0, "refused": 0, "must_refuse": 0, "impl_stricter": 0, "panics": 0,
           "changed_on_refusal": 0, "nviolations": 0, "ndivergent": 0, "fallback_signed": 0,
           "fallback_refused_dest": 0, "both_attempts_failed": 0}
    sole = {r: 0 for r in RULES}
    viols, divs = [], []
    states = trans = 0
    violated = []
    for r in rs:
        rep = r["report"]
        for k in tot:
            tot[k] += rep[k]
        for k in sole:
            sole[k] += rep["sole"][k]
        viols += rep["violations"]
        divs += rep["divergences"]
        states += r["distinct"]
        trans += r["states"]
        violated += r["violated"]
    tot.update({"sole": sole, "violations": viols, "divergences": divs, "tlc_states": states, "tlc_transitions": trans,
                "violated": violated, "wall_s": max(r["wall_s"] for r in rs)})
    # the invariant and the report are two evaluations of the same monitor: they must agree
    if bool(violated) != bool(tot["nviolations"]):
        raise vlib.ToolError("judge inconsistency: invariant %s vs report %d" % (violated, tot["nviolations"]))
    return tot


def vkey(v):
    if v["v"] == "signed_must_refuse":
        return "C07:" + "+".join(sorted(v["fail"])) + (":" + v["note"] if v.get("note") else "")
    return "C07:" + v["v"] + ((":" + v["sig"]) if v["v"] == "bad_signature_target" else "")


def describe(e):
    w, q = e["w"], e["q"]
    val = lambda l: sum(x * 10000 ** k for k, x in enumerate(l))
    s = "%s channel of %d sat, eps %d, fee-rate range %d..%d; holder commitment (holder %s, cp %s, htlcs %d), " \
        "counterparty commitment (holder %s, cp %s, htlcs %d); allowlist %s; upfront %s; " % (
            "outbound" if w["out"] else "inbound", val(w["chv"]), val(w["eps"]), val(w["minr"]), val(w["maxr"]),
            val(w["hc"]["h"]) if w["hc"]["p"] else "-", val(w["hc"]["c"]) if w["hc"]["p"] else "-", w["hc"]["n"],
            val(w["cc"]["h"]) if w["cc"]["p"] else "-", val(w["cc"]["c"]) if w["cc"]["p"] else "-", w["cc"]["n"],
            w["allow"], w["upfront"])
    if q["entry"] == "p2":
        a = q["a"]
        s += "sign_mutual_close_tx_phase2(to_holder %d -> %s, to_counterparty %d -> %s, path %s)" % (
            val(a["vh"]), a["sh"]["id"], val(a["vc"]), a["sc"]["id"], a["hint"])
    else:
        s += "sign_mutual_close_tx(outputs %s, form %s)" % (
            [(val(o["v"]), o["s"]["id"], o["hint"]) for o in q["outs"]], q.get("form"))
    return s + " => " + ("Ok" if e["obs"]["ok"] else e["obs"]["tag"])


def run(pid, tier):
    t0 = time.time()
    binpath = vlib.build("mutualclose")
    d = vlib.workdir("mutualclose-%s" % tier)
    cov = {"legs": {}}

    # ---- leg A: the model (VERIF_C07_SKIP_A=1: mutation self-tests of the binding only - the model does not
    # depend on the code under test)
    if os.environ.get("VERIF_C07_SKIP_A") == "1":
        a, hyps = {"states": 0, "distinct": 0, "depth": 0, "wall_s": 0.0, "passes": []}, {}
    else:
        a, hyps = leg_a(tier, d)
    cov["legs"]["A_model"] = {"passes": a.get("passes", []), "mags": TIERS[tier]["mags"],
                              "states": a["states"], "distinct": a["distinct"], "depth": a["depth"],
                              "model_signs_what_reference_refuses": hyps, "wall_s": round(a["wall_s"], 1)}
    if hyps:
        log("[C07] leg A: the MODEL signs what the reference must refuse (hypotheses about the code): %s" % hyps)

    # ---- leg B: the case matrix against the real crates
    cases_file = os.path.join(d, "cases.json")
    g = gen_cases(tier, d, cases_file)
    stats, lines = run_harness(binpath, cases_file, d, threads=8)
    cases = json.load(open(cases_file))
    unreached = sorted({f["sid"] for f in stats.get("build_failures", [])})
    expected = sum(1 for c in cases["cases"] if c[0] not in unreached)
    if len(lines) < expected or len(unreached) * 10 > len(cases["states"]):
        raise vlib.ToolError("harness executed %d of %d cases, %d of %d states unreached: %s" % (
            len(lines), len(cases["cases"]), len(unreached), len(cases["states"]),
            json.dumps(stats.get("build_failures", [])[:3])))
    j = judge(lines, d, TIERS[tier]["judges"])
    missing = [r for r in RULES if j["sole"][r] == 0]
    if missing:
        raise vlib.ToolError("self-test (vacuity guard): no real refusal has these rules as its sole reason: %s" % missing)
    if j["fallback_signed"] == 0 or j["fallback_refused_dest"] == 0:
        raise vlib.ToolError("self-test (vacuity guard): phase-1 fallback decoding not exercised (signed on the fallback "
                             "assignment: %d, refused because of the fallback assignment's destination: %d)" % (
                                 j["fallback_signed"], j["fallback_refused_dest"]))
    if j["signed_ok"] == 0:
        raise vlib.ToolError("self-test (vacuity guard): the real code signed no acceptable close")

    # distinct non-trivial concrete cases: distinct (world, request) pairs on a channel with both commitments
    seen = set()
    by_i = {}
    for l in lines:
        e = json.loads(l)
        by_i[e["i"]] = e
        if e["w"]["hc"]["p"] and e["w"]["cc"]["p"]:
            seen.add(hashlib.sha1(json.dumps([e["w"], e["q"]], sort_keys=True).encode()).hexdigest())
    samples = []
    for want in ("signed_ok", "refused"):
        for l in lines:
            e = json.loads(l)
            if (e["obs"]["ok"]) == (want == "signed_ok") and e["w"]["hc"]["p"]:
                samples.append({"case": describe(e), "w": e["w"], "q": e["q"], "obs": e["obs"]})
                break

    violations = []
    groups = {}
    for v in j["violations"]:
        groups.setdefault(vkey(v), []).append(v)
    states_by_sid = {s["sid"]: s for s in cases["states"]}
    good = ["0", "typ", "W7n", "C1", "some", "some"]
    for key, vs in sorted(groups.items()):
        # the example with the fewest deviations from the good request
        vs.sort(key=lambda v: (sum(1 for x, y in zip(by_i[v["i"]]["abs"], good) if x != y),
                               len(by_i[v["i"]]["w"]["allow"]), by_i[v["i"]]["q"]["entry"] != "p2", v["i"]))
        e = by_i[vs[0]["i"]]
        violations.append({"key": key,
                           "what": "%s on the real code (%d violating cases over all keys; this key e.g. %s)" % (
                               vs[0]["v"], j["nviolations"], describe(e)),
                           "replay": {"kind": "mutualclose-case", "state": states_by_sid[e["sid"]],
                                      "case": cases["cases"][e["i"] - 1], "logged": e}})
    cov["legs"]["B_impl"] = {
        "abstract_states": len(cases["states"]), "unreached_states": stats.get("build_failures", [])[:10],
        "cases": j["cases"], "state_builds_through_public_api": stats["state_builds"],
        "accepted": j["accepted"], "signed_ok": j["signed_ok"], "refused": j["refused"],
        "reference_must_refuse": j["must_refuse"], "impl_stricter": j["impl_stricter"], "panics_recorded": j["panics"],
        "changed_on_refusal": j["changed_on_refusal"], "sole_reason_refusals": j["sole"],
        "phase1_signed_on_fallback_assignment": j["fallback_signed"],
        "phase1_refused_by_fallback_destination": j["fallback_refused_dest"],
        "phase1_both_attempts_failed": j["both_attempts_failed"],
        "spec_divergences": j["ndivergent"], "violating_cases": j["nviolations"],
        "tlc_states": j["tlc_states"], "wall_s": round(j["wall_s"] + g["wall_s"], 1)}
    if j["ndivergent"]:
        log("[C07] NOTE: %d executed cases differ from ImplStep (verdict or error class); the specification needs "
            "updating; not a property violation" % j["ndivergent"])

    code, unknown, known = vlib.verdict(pid, violations)
    cov.update({
        "states": a["distinct"] + j["tlc_states"],
        "transitions": a["states"] + j["tlc_transitions"],
        "traces_validated_against_impl": j["cases"],
        "evaluations": j["cases"],
        "distinct_nontrivial": len(seen),
        "rule": "cases = abstract channel states x abstract close requests within the stated deviation distance of the "
                "good state/request, enumerated and concretised by TLC from MutualClose.tla; distinct = distinct "
                "(observed world, concrete request) pairs; non-trivial = both current commitments exist",
        "samples": samples,
        "exhaustive": True,
        "spec_divergences": j["divergences"][:40],
        "model_only_counterexamples": sorted(k for k in hyps if k not in groups),
        "switches": SWITCHES,
        "explanation": "TLC (a) model-checks the implementation-shaped ImplStep against the reference predicate over "
                       "the abstract matrix, (b) prints the concrete case matrix, (c) re-judges every case the harness "
                       "executed on the real crates from the logged concrete values (one TLC state per case, "
                       "invariant C07) and compares the verdict and error class with ImplStep",
    })
    vlib.write_evidence(pid, tier, "model_checking", cov,
                        ["scripts are classified (wallet / allowlisted / foreign) by how the harness constructed them; "
                         "wallet scripts are derived with rust-bitcoin BIP32 from the account xpub, independently of can_spend",
                         "signature target: sighash of a closing transaction assembled with plain rust-bitcoin (BIP69 order), "
                         "secp256k1 verification against the channel's funding key",
                         "counterparty signatures on holder commitments come from the repository's test_utils",
                         "fee-rate rule with one rate unit and +-1 byte per signature of tolerance in favour of acceptance",
                         "small scope: 2 policies, 3 channel magnitudes, histories of at most one update per side, "
                         "deviation distance <= 2 from the good state / request",
                         "TLC and the Json/IOUtils community modules"],
                        time.time() - t0, unknown + known)
    return code


def replay(pid, obj):
    """Re-run one recorded case on the real implementation and let TLC judge it."""
    rp = obj["replay"]
    binpath = vlib.build("mutualclose")
    d = vlib.workdir("mutualclose-replay")
    st = dict(rp["state"])
    st["sid"] = 1
    case = list(rp["case"])
    case[0] = 1
    cf = os.path.join(d, "cases.json")
    json.dump({"states": [st], "cases": [case]}, open(cf, "w"))
    stats, lines = run_harness(binpath, cf, d, threads=1)
    j = judge(lines, d, 1, tag="replay")
    for l in lines:
        print("  " + describe(json.loads(l)))
    if j["nviolations"]:
        print("VIOLATION property=%s replay=%s" % (pid, "(reproduced: %s)" % vkey(j["violations"][0])))
        return 1
    print("not reproduced")
    return 0
