#!/bin/bash
# checks only (no test-suite run): seedlight.sh <round> <PID> <check> ...   patch = /tmp/seedout<round>/<PID>/patch.diff
RND=$1; PID=$2; shift 2
WT=/tmp/seed$RND-$PID; SV=/tmp/sv$RND-$PID
git -C $WT reset -q --hard HEAD; git -C $WT clean -fdq -e target
git -C $WT apply /tmp/seedout$RND/$PID/patch.diff || exit 3
rm -rf $SV; rsync -a --exclude work --exclude replays --exclude .git --exclude seeded /verif/ $SV/
sed -i "s#/repo/#$WT/#g" $SV/harness/Cargo.toml $SV/harness/lssclient/Cargo.toml $SV/harness/src/bin/auth.rs
for c in "$@"; do
  (cd $SV && ./check $c --tier quick > /tmp/seedout$RND/$PID/light-$c.log 2>&1; echo "$PID $c exit $?"; grep -E "^VIOLATION|^KNOWN|^\s*key=" /tmp/seedout$RND/$PID/light-$c.log | cut -c1-300 | head -6)
done
rm -rf $SV
