"""Channel-life-cycle component of C11 (acknowledged changes are durable).

The life-cycle harness (C15, Lifecycle.tla / ImplLifecycle.tla) drives new/setup/forget, blocks with funding,
closing and sweeping transactions, reorgs, heartbeats - the histories in which the chain tracker's listeners
have watched outpoints that were SEEN SPENT - and in every reachable implementation state restores a second
signer from a copy of the store.  ImplLifecycle's invariant C15r compares the two (projected fields and the
complete durable view: node state, every channel's enforcement state, the tracker with every listener's
watches).  C11 quantifies over exactly these histories, so the same observation is judged here under C11's
identity."""
import checks_lifecycle as cl
import lifecycle as lc
import vlib

PROPERTIES = []


def frame_component(pid, tier):
    if pid != "C11":
        return [], {}, 0, 0, []
    binpath = vlib.build("lifecycle")
    quick = tier == "quick"
    viol, cov, samples = [], {}, []
    judged = 0
    seen = set()
    truncated = []
    for name, pl, maxshort, maxbury in cl._plans(tier):
        if name not in (("uni", "stub", "mixed") if quick else ("uni", "close", "mixed", "stub", "two")):
            continue
        ex = lc.explore(binpath, name, pl, maxshort, maxbury, threads=8, max_states=25000 if quick else 120000)
        truncated += [name] if ex["truncated"] else []
        r = lc.impl_tlc(ex)
        rep = r["report"]
        judged += rep["nodes"]
        cov["lifecycle_" + name] = {"impl_states": rep["nodes"], "edges_checked": rep["edges"],
                                    "restart_violations": rep["restart_bad_states"],
                                    "restart_unequal_states": rep["restart_unequal_states"]}
        if "C15r" in r["violated"]:
            reqs = lc.cex_requests(r["trace"])
            row = ex["rows"][lc.cex_state(r["trace"])["node"]]
            detail = lc.restart_detail(row["pre"], row["rs"])
            last = reqs[-1]["op"] if reqs else "init"
            key = "lifecycle:%s:%s" % (last, detail)
            if key not in seen:
                seen.add(key)
                viol.append({"key": key,
                             "what": "after %s the restored signer differs (%s %s)" % (
                                 " ; ".join(lc.req_str(x) for x in reqs), detail, row["rs"].get("msg", "")),
                             "replay": {"kind": "lifecycle-seq", "plan": pl, "requests": reqs, "invariant": "C15r"}})
        if not samples and ex["rows"]:
            row = ex["rows"][min(5, len(ex["rows"]) - 1)]
            samples.append({"component": "lifecycle", "request_path": [lc.req_str(ex["cases"]["requests"][i - 1]) for i in row["p"]],
                            "restart_equal": bool(row["rs"].get("feq", True))})
    if truncated and not viol:
        raise vlib.ToolError("lifecycle exploration exhausted its state budget in %s without a violation" % truncated)
    return viol, cov, judged, judged, samples
