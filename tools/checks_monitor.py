"""C14: channel monitors depend only on the current best chain - decided by Monitor.tla (legs A, B, C).

 leg A  TLC model-checks Monitor.tla (MC_Monitor): all valid block histories over a transaction catalogue,
        reorgs of any depth, both delivery modes; invariant view = Replay(chain) and no abort.
 leg B  the harness explores the REAL implementation's state graph (real Node, real ChainTracker with
        verifying TXOO proofs built from the tracker's own watches, real ChainMonitor, real transactions) over
        the block alphabet TLC generated; ImplMonitor.tla checks on every reachable state that the real view
        equals the view of a fresh real monitor replaying the surviving chain (property) and compares every
        edge with Monitor!Step (conformance).
        Late-setup graphs: the channel is set up (its monitor becomes a listener of the tracker) IN THE MIDDLE of
        a streamed first block - between two BlockChunk messages, the chunk boundary inside a transaction - and
        every later block is delivered both compact and streamed; reference = a channel set up before that block
        that saw the same best chain (heights compared as depths: the late monitor's height lags by one).  The
        monitor's private block-decode state cannot be snapshotted, so these graphs re-enter a state by
        re-executing its request path on a new signer, and fresh replays run on a signer of their own.
 leg C  TLC-simulated longer histories with mixed delivery modes are replayed through the implementation and
        validated by TraceMonitor.tla."""
import json
import time

import monitor as mon
import vlib
from vlib import log

PROPERTIES = ["C14"]

MAX_KEYS = 12


def _plan(tier):
    """(cat, variant, maxtx, maxlen, mode, expand states that already diverged)"""
    if tier == "quick":
        return [("q", "funder", 2, 4, "compact", False),
                ("m", "funder", 2, 5, "compact", False),
                ("m", "funder", 2, 4, "streamed", False),
                ("h", "funder", 2, 3, "compact", False),
                ("h", "funder", 2, 3, "streamed", False),
                ("q", "fundee", 2, 4, "compact", False)]
    return [("m", "funder", 2, 5, "compact", False),
            ("m", "funder", 2, 5, "streamed", False),
            ("h", "funder", 2, 5, "compact", False),
            ("h", "funder", 2, 4, "streamed", False),
            ("b", "funder", 2, 6, "compact", False),
            ("b", "funder", 2, 5, "streamed", False),
            ("m", "funder", 3, 4, "compact", False),
            ("all", "funder", 2, 4, "compact", False),
            ("all", "funder", 2, 4, "streamed", False),
            ("q", "funder", 2, 4, "compact", False),
            ("q", "funder", 2, 5, "compact", False),
            ("m", "fundee", 2, 5, "compact", False),
            ("q", "fundee", 2, 5, "streamed", False)]


def _late_plan(tier):
    """channel set up in the middle of a streamed first block (first block, chunks delivered before the setup),
    then every block in both deliveries: (cat, variant, maxtx, maxlen, late)"""
    if tier == "quick":
        return [("m", "funder", 2, 4, (["OTH"], 3)), ("q", "fundee", 2, 4, ([], 2))]
    return [("m", "funder", 2, 5, (["OTH"], 2)), ("m", "funder", 2, 4, (["OTH"], 3)),
            ("h", "funder", 2, 4, ([], 2)), ("b", "funder", 2, 5, (["OTH"], 3)), ("q", "fundee", 2, 5, ([], 2))]


def _violation(x):
    what = ("%s on the real implementation: %s [%s, %s, %d instance(s)]" % (
        ("signer aborted (%s)" % x["msg"]) if x["rc"] == 2 else
        ("view differs from the fresh replay of the surviving chain in %s" % ",".join(x["diff"])),
        " ; ".join("%s%s%s" % ({"L": "SETUP-DURING-STREAMED", "C": "C", "D": "D"}[r["op"]],
                              json.dumps(r["b"]) if r["op"] != "D" else "",
                              "/streamed" if r["op"] == "C" and r.get("m") == "streamed" else "") for r in x["requests"]),
        x["variant"], x["mode"], x["instances"]))
    return {"key": "C14:" + x["key"], "what": what,
            "replay": {"kind": "monitor-seq", "variant": x["variant"], "requests": x["requests"],
                       "expect": x["key"]}}


def run(pid, tier):
    t0 = time.time()
    quick = tier == "quick"
    binpath = vlib.build("monitor")
    cov = {"legs": {}}
    divergences = []
    instances = []
    head = mon.SWITCHES

    # ---- leg A: the model itself, as the code is at HEAD, and (if that violates) as repaired
    acfg = ("q", "funder", 2, 4) if quick else ("m", "funder", 2, 5)
    a = mon.leg_a("head", *acfg, switches=head, workers=8)
    cov["legs"]["A_model_head"] = {"cat": acfg[0], "maxtx": acfg[2], "maxlen": acfg[3], "switches": head,
                                   "states": a["states"], "distinct": a["distinct"], "depth": a["depth"],
                                   "violated": a["violated"], "wall_s": round(a["wall_s"], 1)}
    model_cex = None
    a_states, a_distinct = a["states"], a["distinct"]
    if a["violated"]:
        model_cex = None
        if a["trace"]:
            model_cex = [step[2][1].get("last") for step in a["trace"]["counterexample"]["action"]]
        log("[%s] leg A: the MODEL (switches as at HEAD) violates %s - a hypothesis about the code" % (pid, a["violated"]))
        a2 = mon.leg_a("repaired", *acfg, switches=mon.REPAIRED, workers=8)
        cov["legs"]["A_model_repaired"] = {"switches": mon.REPAIRED, "states": a2["states"], "distinct": a2["distinct"],
                                           "depth": a2["depth"], "violated": a2["violated"],
                                           "wall_s": round(a2["wall_s"], 1)}
        a_states += a2["states"]
        a_distinct += a2["distinct"]
    # the model of a channel set up in the middle of a streamed first block
    al = mon.leg_a("late", "q", "funder", 2, 4, switches=head, workers=4, late=True)
    cov["legs"]["A_model_late_setup"] = {"states": al["states"], "distinct": al["distinct"], "depth": al["depth"],
                                         "violated": al["violated"], "wall_s": round(al["wall_s"], 1)}
    a_states += al["states"]
    a_distinct += al["distinct"]
    # with a model that satisfies C14 there is exactly one state per valid chain
    full = a if not a["violated"] else a2
    model_chains = full["distinct"] if not full["violated"] else None
    if model_chains is not None and (full["depth"] < acfg[3] + 1 or model_chains < 50):
        raise vlib.ToolError("leg A is vacuous: %d states, depth %d" % (model_chains, full["depth"]))

    # ---- leg B: implementation state graphs
    tot_nodes = tot_edges = tot_product = tot_gen = 0
    samples = []
    plan = [p + (None,) for p in _plan(tier)] + [(c, v, mt, ml, "mixed", True, late) for c, v, mt, ml, late in _late_plan(tier)]
    for cat, variant, maxtx, maxlen, mode, expand, late in plan:
        ex = mon.extract(binpath, cat, variant, maxtx, maxlen, mode, expand, threads=8 if quick else 12, late=late)
        r = mon.impl_tlc(ex, head)
        rep = r["report"]
        if not rep["root_ok"]:
            raise vlib.ToolError("monitor harness: initial state is not the specification's initial state")
        name = "B_impl_%s_%s_tx%d_len%d_%s" % (cat, variant, maxtx, maxlen, mode)
        if late is not None:
            name += "_late_setup_after_%d_chunks_of_%s" % (late[1], "+".join(late[0]) or "empty")
        inst = mon.impl_instances(ex, rep)
        cov["legs"][name] = {
            "impl_states": rep["nodes"], "impl_edges": rep["edges"], "distinct_chains": rep["chains"],
            "distinct_views": rep["views"], "blocks_in_alphabet": len(ex["cases"]["blocks"]),
            "txs_in_catalogue": len(ex["cases"]["txs"]), "states_differing_from_fresh_replay": rep["bad_nodes"],
            "first_violating_steps": len(rep["first_bad"]), "aborts_after_divergence": rep["later_aborts"],
            "refused_edges": len(rep["refused"]), "panics": ex["stats"]["panics"],
            "spec_divergences": rep["n_divergences"], "fresh_replay_spec_divergences": rep["fresh_divergences"],
            "expanded_diverged_states": expand, "product_states": r["distinct"], "product_transitions": r["states"],
            "violated": r["violated"], "wall_s": round(r["wall_s"] + ex["wall_s"], 1)}
        tot_nodes += rep["nodes"]
        tot_edges += rep["edges"]
        tot_product += r["distinct"]
        tot_gen += r["states"]
        for dv in rep["divergences"][:10]:
            row = ex["rows"][dv["node"]]
            divergences.append({"run": name, "chain": mon.chain_blocks(ex, row),
                                "req": mon.edge_requests(ex, row, dv["ri"])[-1], "rc": dv["rc"],
                                "expected_resp": dv["expected_resp"], "why": dv["why"], "differs_in": dv["diff"],
                                "detail": ex["details"].get((dv["node"], dv["ri"]), {})})
        if rep["fresh_divergences"]:
            divergences.append({"run": name, "fresh_replay_divergences": rep["fresh_divergences"]})
        if bool(r["violated"]) != bool(rep["first_bad"]):
            raise vlib.ToolError("ImplMonitor: invariant verdict %s disagrees with the edge report (%d)" % (
                r["violated"], len(rep["first_bad"])))
        instances += inst
        if (cat, variant, maxtx, maxlen) == acfg and model_chains is not None and late is None:
            # converse direction: the implementation graph covers every chain of the model, and no other
            cov["legs"][name]["model_chains"] = model_chains
            if model_chains != rep["chains"]:
                raise vlib.ToolError("implementation graph has %d distinct chains, the model %d" % (
                    rep["chains"], model_chains))
        if not samples:
            for row in ex["rows"]:
                if late is None and len(row["c"]) >= 3 and len(row["e"]) >= 2 and row["v"] == row["f"] \
                        and sum(len(b) for b in mon.chain_blocks(ex, row)) >= 3:
                    samples.append({"chain": mon.chain_blocks(ex, row), "mode": mode,
                                    "requests_applied": [mon.edge_requests(ex, row, e[1])[-1] for e in row["e"][:3]],
                                    "view_equals_fresh_replay": True})
                if len(samples) >= 3:
                    break

    # ---- leg C: model histories replayed through the implementation, validated by TLC
    nsim, depth, maxlen = (60, 12, 7) if quick else (800, 16, 9)
    d = vlib.workdir("monitor-c")
    seqs, sim = mon.simulate("all", "funder", 2, maxlen, nsim, depth, vlib.seed(), d)
    steps_file = d + "/steps.ndjson"
    rs = mon.run_sequences(binpath, "all", "funder", seqs, steps_file)
    tr = mon.trace_tlc(steps_file, "all", "funder", head)
    trep = tr["report"]
    if trep["broken"]:
        raise vlib.ToolError("monitor traces: %d steps do not start where the previous one ended" % trep["broken"])
    cov["legs"]["C_sim_replay"] = {"behaviours": rs.get("sequences", 0), "steps": trep["steps"],
                                   "panics": rs.get("panics", 0), "first_violating_steps": len(trep["first_bad"]),
                                   "spec_divergences": len(trep["divergences"]), "violated": tr["violated"],
                                   "maxlen": maxlen, "depth": depth}
    if bool(tr["violated"]) != bool(trep["first_bad"]):
        raise vlib.ToolError("TraceMonitor: invariant verdict disagrees with the step report")
    instances += mon.trace_instances(steps_file, trep, "all", "funder")
    steps = [json.loads(x) for x in open(steps_file) if x.strip()]
    for dv in trep["divergences"][:10]:
        e = steps[dv["line"] - 1]
        divergences.append({"run": "sim", "chain": e["c"], "req": e["req"], "rc": e["rc"],
                            "expected_resp": dv["expected_resp"], "why": dv["why"], "differs_in": dv["diff"]})
    if steps:
        samples.append({"simulated_history": [s["req"] for s in steps if s["seq"] == steps[0]["seq"]]})

    # ---- verdict
    found = mon.minimal_findings(instances)
    violations = [_violation(x) for x in found[:MAX_KEYS]]
    code, unknown, known = vlib.verdict(pid, violations)
    if len(found) > MAX_KEYS:
        log("[%s] %d further finding classes not printed (see evidence)" % (pid, len(found) - MAX_KEYS))
    ndiv = sum(v.get("spec_divergences", 0) for v in cov["legs"].values())
    if ndiv:
        log("[%s] NOTE: %d implementation edges are not edges of Monitor.tla with switches %s (the specification "
            "needs updating; not a property violation)" % (pid, ndiv, head))
    cov.update({
        "states": max(1, tot_product + a_distinct),
        "transitions": max(1, tot_gen + a_states),
        "traces_validated_against_impl": tot_edges + trep["steps"],
        "impl_states_total": tot_nodes,
        "samples": samples or [{"note": "none"}],
        "exhaustive": True,
        "finding_classes": [{"key": "C14:" + x["key"], "instances": x["instances"]} for x in found],
        "spec_divergences": divergences[:40],
        "model_only_counterexample": model_cex if model_cex and not found else None,
        "switches": head,
        "streamed_removal": "ChainTracker::remove_block refuses every streamed (ExternalBlock) removal with "
                            "BlockDecodeError (it compares the streamed hash with the PREVIOUS header's hash), so "
                            "in streamed runs blocks are connected streamed and disconnected with compact proofs",
        "explanation": "TLC (a) model-checks Monitor.tla, (b) walks the state graph extracted from the real crates "
                       "(every enabled block of the TLC-generated alphabet connected to / the tip disconnected from "
                       "every reachable state) checking on each state that the real view equals the view of a fresh "
                       "real monitor replaying the surviving chain and that no request panicked, and each edge "
                       "against Monitor!Step, (c) validates replayed simulated histories the same way",
    })
    vlib.write_evidence(pid, tier, "model_checking", cov,
                        ["bitcoin consensus: a block only spends unspent outputs (valid histories only)",
                         "the front end builds compact proofs from the signer's own watches (txoo SpvProof::build), "
                         "or streams the whole block",
                         "small scope: catalogue of <= 25 transactions (<= 2 spendable HTLCs per close, 4 closing "
                         "transactions), <= 3 transactions per block, chains of <= 6 blocks exhaustively, <= 9 in "
                         "simulation; reorg depth up to the whole chain",
                         "SHA-256 / txids behave as injective names (abstract outpoints)",
                         "TLC and the Json/IOUtils community modules; rust-bitcoin, LDK transaction builders, txoo"],
                        time.time() - t0, unknown + known)
    return code


def replay(pid, obj):
    """Re-run a recorded violating request sequence on the real implementation and let TLC judge."""
    rp = obj["replay"]
    binpath = vlib.build("monitor")
    d = vlib.workdir("monitor-replay")
    steps_file = d + "/steps.ndjson"
    variant = rp.get("variant", "funder")
    mon.run_sequences(binpath, "all", variant, [rp["requests"]], steps_file)
    tr = mon.trace_tlc(steps_file, "all", variant, mon.SWITCHES)
    for x in open(steps_file):
        e = json.loads(x)
        print("  %s %s -> %s %s" % (e["req"]["op"], json.dumps(e["req"]["b"]), {1: "ok", 0: "refused", 2: "PANIC"}[e["rc"]],
                                    e["msg"]))
        if e["rc"] == 1 and e["post"] != e["fresh"]:
            diff = sorted(k for k in e["post"] if e["post"][k] != e["fresh"].get(k))
            for k in diff:
                print("      %s: real %s   fresh replay %s" % (k, json.dumps(e["post"][k]), json.dumps(e["fresh"].get(k))))
    if tr["violated"]:
        print("VIOLATION property=%s replay=%s" % (pid, "(reproduced)"))
        return 1
    print("not reproduced")
    return 0
