#!/usr/bin/env python3-vt
"""Validates MANIFEST.json and every evidence file against the given schemas (run with python3-vt: needs jsonschema)."""
import json, sys, os, glob
import jsonschema
ROOT = os.path.dirname(os.path.dirname(os.path.abspath(__file__)))
bad = 0
m = json.load(open(os.path.join(ROOT, "MANIFEST.json")))
jsonschema.validate(m, json.load(open("/root/.vp/MANIFEST.schema.json")))
es = json.load(open("/root/.vp/EVIDENCE.schema.json"))
claimed = [c["property_id"] for c in m["checks"]]
for pid in claimed:
    p = os.path.join(ROOT, "evidence", pid + ".json")
    if not os.path.exists(p):
        print("MISSING evidence", pid); bad += 1; continue
    e = json.load(open(p))
    try:
        jsonschema.validate(e, es)
    except jsonschema.ValidationError as x:
        print("INVALID", pid, x.message[:200]); bad += 1; continue
    unknown = [v for v in e.get("violations", []) if v] if isinstance(e.get("violations"), list) else e.get("violations")
    print(pid, e.get("tier"), "wall", e.get("wall_s"), "violations", e.get("violations"))
print("claimed", len(claimed), "not_applicable", [x.get("property_id", x) if isinstance(x, dict) else x for x in m.get("not_applicable", [])])
sys.exit(1 if bad else 0)
