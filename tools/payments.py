"""Payment ledger over several channels (Payments.tla): legs A, B, C of C06."""
import json
import os
import re
import time

import vlib
from vlib import SPEC, log

# what the model says the code does at HEAD (flip when a fix: commit lands)
SWITCHES = json.load(open(os.path.join(vlib.ROOT, "spec", "payments_switches.json")))
PRIVATE = bool(os.environ.get("VERIF_HARNESS_DIR"))
if PRIVATE and os.environ.get("PM_SWITCH_REVOKE_VALIDATES"):
    # self-test of a proposed repair in a private copy of the repository
    SWITCHES = dict(SWITCHES, revokeValidates=os.environ["PM_SWITCH_REVOKE_VALIDATES"] == "true")


def wd(name):
    """scratch directory; a mutation self-test (VERIF_HARNESS_DIR) gets its own"""
    return vlib.workdir(os.path.join("payments", ("private-" if PRIVATE else "") + name))


def _bool(b):
    return "true" if b else "false"


def _tla_bool(b):
    return "TRUE" if b else "FALSE"


def alphabet(cfg, dest):
    vlib.tlc("PaymentsAlphabet", os.path.join(SPEC, "PaymentsAlphabet.cfg"), env={"PM_CFG": cfg, "PM_OUT": dest},
             workers=1, timeout=300, name="payments-alphabet")
    return json.load(open(dest))


def leg_a(cfg, fee, pct, revoke_validates, mon, invariants, workers=8, timeout=1500, props=None):
    """TLC on the model itself."""
    d = os.path.join(vlib.WORK, "payments", ("private-" if PRIVATE else "") + "a")
    os.makedirs(d, exist_ok=True)
    path = os.path.join(d, "MC_%s_%s_%d_%s.cfg" % (cfg, mon, fee, _bool(revoke_validates)))
    vlib.write_cfg(path, "SPECIFICATION Spec\nCONSTANTS\n  CfgName = \"%s\"\n  Fee = %d\n  Pct = %d\n  RevokeValidates = %s\n"
                         "  Mon = \"%s\"\nVIEW View\nINVARIANTS %s\n%sCHECK_DEADLOCK FALSE\n" % (
                             cfg, fee, pct, _tla_bool(revoke_validates), mon, " ".join(invariants),
                             ("PROPERTIES %s\n" % " ".join(props)) if props else ""))
    return vlib.tlc("MC_Payments", path, workers=workers, timeout=timeout, name="mc-payments")


_EX = {}


def explore(binpath, cfg, fee, pct, threads=16, max_states=400000):
    """Leg B step 1: exhaustive exploration of the real node over the TLC-generated alphabet."""
    key = (cfg, fee, pct)
    if key in _EX:
        return _EX[key]
    d = wd("b-%s-f%d-p%d" % (cfg, fee, pct))
    alpha = os.path.join(d, "alphabet.json")
    a = alphabet(cfg, alpha)
    t0 = time.time()
    stats = vlib.run_bin(binpath, ["explore", "--alphabet", alpha, "--out", os.path.join(d, "ex"), "--fee", fee, "--pct", pct,
                                   "--threads", threads, "--max-states", max_states], timeout=3000)
    nodes = os.path.join(d, "nodes.ndjson")
    rows = vlib.merge_nodes(os.path.join(d, "ex"), nodes)
    details = []
    for fn in sorted(os.listdir(os.path.join(d, "ex"))):
        if fn.startswith("details-"):
            with open(os.path.join(d, "ex", fn)) as f:
                details += [json.loads(l) for l in f if l.strip()]
    res = {"dir": d, "alphabet": alpha, "requests": a["reqs"], "chans": a["chans"], "hashes": a["hashes"], "nodes": nodes,
           "stats": stats, "rows": len(rows), "details": details, "wall_s": time.time() - t0, "cfg": cfg, "fee": fee,
           "pct": pct}
    log("[payments] explored the real node cfg=%s fee=%d pct=%d: %d states, %d edges in %.1fs" % (
        cfg, fee, pct, stats.get("states", 0), stats.get("edges", 0), res["wall_s"]))
    if stats.get("truncated"):
        raise vlib.ToolError("payments explore: state cap reached for %s" % cfg)
    if stats.get("nondeterministic"):
        raise vlib.ToolError("payments explore: %d states were not reproduced by re-executing their path" %
                             stats["nondeterministic"])
    _EX[key] = res
    return res


def impl_tlc(ex, mon, exclude, invs, full, workers=1, timeout=3000):
    """Leg B step 2: TLC on the extracted graph (conformance with Step + product with the ghost ledger)."""
    d = ex["dir"]
    cfg = os.path.join(d, "impl_%s.cfg" % mon)
    vlib.write_cfg(cfg, "SPECIFICATION Spec\nVIEW View\nINVARIANTS %s\nCHECK_DEADLOCK FALSE\n" % " ".join(invs))
    report = os.path.join(d, "report_%s%s.json" % (mon, "_x" if exclude else ""))
    env = {"PM_NODES": ex["nodes"], "PM_ALPHABET": ex["alphabet"], "PM_FEE": ex["fee"], "PM_PCT": ex["pct"],
           "PM_REVOKE_VALIDATES": _bool(SWITCHES["revokeValidates"]), "PM_MON": mon, "PM_REPORT": report,
           "PM_EXCLUDE": exclude, "PM_FULL": "1" if full else "0"}
    r = vlib.tlc("ImplPayments", cfg, env=env, workers=workers, timeout=timeout, name="impl-payments", heap="12g")
    r["report"] = json.load(open(report))
    return r


def trace_requests(trace):
    """[(from node, request, ok)] of a TLC counterexample of ImplPayments / MC_Payments"""
    seq = []
    if not trace:
        return seq
    for step in trace["counterexample"]["action"]:
        last = step[2][1].get("last", {})
        if "req" in last:
            seq.append({"req": last["req"], "ok": last.get("ok"), "from": last.get("from")})
    return seq


def _short(r):
    def cont(c):
        return "+".join("%s%d%s" % (x["d"], x["a"], x["h"]) for x in c) or "none"
    op = r["op"]
    if op in ("SignCp", "ValidateHolder"):
        return "%s(%s,%s)" % (op, r["ch"], cont(r["c"]))
    if "ch" in r:
        return "%s(%s)" % (op, r["ch"])
    if "a" in r:
        return "%s(%s,%d)" % (op, r["h"], r["a"])
    if "h" in r:
        return "%s(%s)" % (op, r["h"])
    return op


def describe(seq):
    return " ; ".join(_short(s["req"]) + ("" if s.get("ok", True) else "!") for s in seq)


def seq_key(inv, seq, cls=None):
    """canonical key of a violating history.  A history that ends in the known class of defect is
    named by the class; any other one by its monitor and the kinds of the accepted requests that
    changed the ledger (channel and hash names dropped: ties between equally short
    counterexamples must not change the key)"""
    if cls:
        return "%s:%s" % (inv, cls)
    kinds = [s["req"]["op"] for s in seq if s.get("ok", True) and s["req"]["op"] not in ("Heartbeat", "Tick", "Fulfill")]
    return "%s:%s" % (inv, ";".join(kinds))


def run_sequences(binpath, items, out, fee, pct):
    """Leg C / replay: request sequences through a fresh real node each."""
    d = os.path.dirname(out)
    sf = os.path.join(d, "seqs.ndjson")
    with open(sf, "w") as f:
        for it in items:
            f.write(json.dumps(it) + "\n")
    return vlib.run_bin(binpath, ["run", "--seqs", sf, "--out", out, "--fee", fee, "--pct", pct], timeout=3000)


def simulate(cfg, fee, pct, num, depth, seed, dest_dir):
    """TLC simulation of the model: behaviours of `depth` requests over the large alphabet."""
    cfgf = os.path.join(dest_dir, "SimPayments.cfg")
    vlib.write_cfg(cfgf, "SPECIFICATION Spec\nCONSTANTS\n  SimName = \"%s\"\n  Fee = %d\n  Pct = %d\n  RevokeValidates = %s\n"
                         "  Depth = %d\nINVARIANTS Emit\nCHECK_DEADLOCK FALSE\n" % (
                             cfg, fee, pct, _tla_bool(SWITCHES["revokeValidates"]), depth))
    r = vlib.tlc("SimPayments", cfgf, workers=1,
                 extra=["-simulate", "num=%d" % num, "-depth", str(depth + 2), "-seed", str(seed)],
                 timeout=1800, name="sim-payments")
    seqs = []
    seen = set()
    for m in re.finditer(r'^<<"SIM", "(.*)">>$', r["out"], re.M):
        obj = json.loads(json.loads('"' + m.group(1) + '"'))
        k = json.dumps(obj["reqs"][:-1], sort_keys=True)
        if k not in seen:
            seen.add(k)
            seqs.append(obj)
    return seqs, r


def trace_tlc(steps_file, mon, fee, pct, exclude="", timeout=1800, invs=None, judge=""):
    """Leg C step 2: TLC validates recorded implementation steps (conformance + ghost ledger)."""
    d = os.path.dirname(steps_file)
    cfg = os.path.join(d, "trace_%s.cfg" % mon)
    vlib.write_cfg(cfg, "SPECIFICATION Spec\nINVARIANTS %s\nCHECK_DEADLOCK FALSE\n" % " ".join(invs or ["C06a", "C06b"]))
    report = os.path.join(d, "trace_report_%s%s.json" % (mon, "_x" if exclude else ""))
    env = {"PM_STEPS": steps_file, "PM_FEE": fee, "PM_PCT": pct, "PM_REVOKE_VALIDATES": _bool(SWITCHES["revokeValidates"]),
           "PM_MON": mon, "PM_REPORT": report, "PM_EXCLUDE": exclude, "PM_JUDGE": judge}
    r = vlib.tlc("TracePayments", cfg, env=env, workers=1, timeout=timeout, name="trace-payments", heap="12g")
    r["report"] = json.load(open(report))
    return r
