"""Payment ledger over several channels (Payments.tla): legs A, B, C of C06."""
import json
import os
import re
import time

import vlib
from vlib import SPEC, log

# what the model says the code does at HEAD (flip when a fix: commit lands)
SWITCHES = json.load(open(os.path.join(vlib.ROOT, "spec", "payments_switches.json")))
PRIVATE = bool(os.environ.get("VERIF_HARNESS_DIR"))
if PRIVATE and os.environ.get("PM_SWITCH_REVOKE_VALIDATES"):
    # self-test of a proposed repair in a private copy of the repository
    SWITCHES = dict(SWITCHES, revokeValidates=os.environ["PM_SWITCH_REVOKE_VALIDATES"] == "true")


def _nm(name):
    """TLC scratch name (metadir, trace file): a self-test must not collide with a registered run"""
    return name + ("-private" if PRIVATE else "")


def wd(name):
    """scratch directory; a mutation self-test (VERIF_HARNESS_DIR) gets its own"""
    return vlib.workdir(os.path.join("payments", ("private-" if PRIVATE else "") + name))


def _bool(b):
    return "true" if b else "false"


def _tla_bool(b):
    return "TRUE" if b else "FALSE"


def alphabet(cfg, dest):
    vlib.tlc("PaymentsAlphabet", os.path.join(SPEC, "PaymentsAlphabet.cfg"), env={"PM_CFG": cfg, "PM_OUT": dest},
             workers=1, timeout=300, name=_nm("payments-alphabet"))
    return json.load(open(dest))


def leg_a(cfg, fee, pct, revoke_validates, mon, invariants, workers=8, timeout=1500, props=None):
    """TLC on the model itself."""
    d = os.path.join(vlib.WORK, "payments", ("private-" if PRIVATE else "") + "a")
    os.makedirs(d, exist_ok=True)
    path = os.path.join(d, "MC_%s_%s_%d_%s.cfg" % (cfg, mon, fee, _bool(revoke_validates)))
    vlib.write_cfg(path, "SPECIFICATION Spec\nCONSTANTS\n  CfgName = \"%s\"\n  Fee = %d\n  Pct = %d\n  RevokeValidates = %s\n"
                         "  Mon = \"%s\"\nVIEW View\nINVARIANTS %s\n%sCHECK_DEADLOCK FALSE\n" % (
                             cfg, fee, pct, _tla_bool(revoke_validates), mon, " ".join(invariants),
                             ("PROPERTIES %s\n" % " ".join(props)) if props else ""))
    return vlib.tlc("MC_Payments", path, workers=workers, timeout=timeout, name=_nm("mc-payments"))


_EX = {}


def explore(binpath, cfg, fee, pct, threads=16, max_states=120000):
    """Leg B step 1: exhaustive exploration of the real node over the TLC-generated alphabet."""
    key = (cfg, fee, pct)
    if key in _EX:
        return _EX[key]
    d = wd("b-%s-f%d-p%d" % (cfg, fee, pct))
    alpha = os.path.join(d, "alphabet.json")
    a = alphabet(cfg, alpha)
    t0 = time.time()
    stats = vlib.run_bin(binpath, ["explore", "--alphabet", alpha, "--out", os.path.join(d, "ex"), "--fee", fee, "--pct", pct,
                                   "--threads", threads, "--max-states", max_states], timeout=3000)
    nodes = os.path.join(d, "nodes.ndjson")
    rows = vlib.merge_nodes(os.path.join(d, "ex"), nodes)
    details = []
    for fn in sorted(os.listdir(os.path.join(d, "ex"))):
        if fn.startswith("details-"):
            with open(os.path.join(d, "ex", fn)) as f:
                details += [json.loads(l) for l in f if l.strip()]
    res = {"dir": d, "alphabet": alpha, "requests": a["reqs"], "chans": a["chans"], "hashes": a["hashes"],
           "vlim": a.get("vlim", 0), "nodes": nodes,
           "stats": stats, "rows": len(rows), "details": details, "wall_s": time.time() - t0, "cfg": cfg, "fee": fee,
           "pct": pct}
    log("[payments] explored the real node cfg=%s fee=%d pct=%d: %d states, %d edges in %.1fs" % (
        cfg, fee, pct, stats.get("states", 0), stats.get("edges", 0), res["wall_s"]))
    if stats.get("truncated"):
        # breadth-first prefix of the graph (edges into undiscovered states are dropped): still judged - an
        # implementation that accepts far more than the model has a far larger graph, and its shallow part
        # is where the violations are; the evidence says that this configuration was not exhaustive
        log("[payments] NOTE: state cap %d reached for %s: judging the breadth-first prefix" % (max_states, cfg))
    res["truncated"] = bool(stats.get("truncated"))
    if stats.get("nondeterministic"):
        raise vlib.ToolError("payments explore: %d states were not reproduced by re-executing their path" %
                             stats["nondeterministic"])
    _EX[key] = res
    return res


def impl_tlc(ex, mon, exclude, invs, full, workers=1, timeout=3000):
    """Leg B step 2: TLC on the extracted graph (conformance with Step + product with the ghost ledger)."""
    d = ex["dir"]
    cfg = os.path.join(d, "impl_%s.cfg" % mon)
    vlib.write_cfg(cfg, "SPECIFICATION Spec\nVIEW View\nINVARIANTS %s\nCHECK_DEADLOCK FALSE\n" % " ".join(invs))
    report = os.path.join(d, "report_%s%s.json" % (mon, "_x" if exclude else ""))
    env = {"PM_NODES": ex["nodes"], "PM_ALPHABET": ex["alphabet"], "PM_FEE": ex["fee"], "PM_PCT": ex["pct"],
           "PM_REVOKE_VALIDATES": _bool(SWITCHES["revokeValidates"]), "PM_MON": mon, "PM_REPORT": report,
           "PM_EXCLUDE": exclude, "PM_FULL": "1" if full else "0"}
    r = vlib.tlc("ImplPayments", cfg, env=env, workers=workers, timeout=timeout, name=_nm("impl-payments"), heap="12g")
    r["report"] = json.load(open(report))
    return r


def trace_requests(trace):
    """[(from node, request, ok)] of a TLC counterexample of ImplPayments / MC_Payments"""
    seq = []
    if not trace:
        return seq
    for step in trace["counterexample"]["action"]:
        last = step[2][1].get("last", {})
        if "req" in last:
            seq.append({"req": last["req"], "ok": last.get("ok"), "from": last.get("from")})
    return seq


def _short(r):
    def cont(c):
        return "+".join("%s%d%s" % (x["d"], x["a"], x["h"]) for x in c) or "none"
    op = r["op"]
    if op in ("SignCp", "ValidateHolder"):
        return "%s(%s,%s)" % (op, r["ch"], cont(r["c"]))
    if "ch" in r:
        return "%s(%s)" % (op, r["ch"])
    if "a" in r:
        return "%s(%s,%d)" % (op, r["h"], r["a"])
    if "h" in r:
        return "%s(%s)" % (op, r["h"])
    return op


def describe(seq):
    return " ; ".join(_short(s["req"]) + ("" if s.get("ok", True) else "!") + ("=declined" if s.get("flag") == 0 else "")
                      for s in seq)


def seq_key(inv, seq, cls=None):
    """canonical key of a violating history.  A history that ends in the known class of defect is
    named by the class; any other one by its monitor and the kinds of the accepted requests that
    changed the ledger (channel and hash names dropped: ties between equally short
    counterexamples must not change the key)"""
    if cls:
        return "%s:%s" % (inv, cls)
    kinds = [s["req"]["op"] + ("=declined" if s.get("flag") == 0 else "")      # an approval answered Ok(false)
             for s in seq if s.get("ok", True) and s["req"]["op"] not in ("Heartbeat", "Tick", "Fulfill")]
    return "%s:%s" % (inv, ";".join(kinds))


def run_sequences(binpath, items, out, fee, pct):
    """Leg C / replay: request sequences through a fresh real node each (an item's "vlim" is the payment velocity
    limit of its node's policy; absent = unlimited)."""
    d = os.path.dirname(out)
    sf = os.path.join(d, "seqs.ndjson")
    with open(sf, "w") as f:
        for it in items:
            f.write(json.dumps(it) + "\n")
    return vlib.run_bin(binpath, ["run", "--seqs", sf, "--out", out, "--fee", fee, "--pct", pct], timeout=3000)


def simulate(cfg, fee, pct, num, depth, seed, dest_dir):
    """TLC simulation of the model: behaviours of `depth` requests over the large alphabet."""
    cfgf = os.path.join(dest_dir, "SimPayments.cfg")
    vlib.write_cfg(cfgf, "SPECIFICATION Spec\nCONSTANTS\n  SimName = \"%s\"\n  Fee = %d\n  Pct = %d\n  RevokeValidates = %s\n"
                         "  Depth = %d\nINVARIANTS Emit\nCHECK_DEADLOCK FALSE\n" % (
                             cfg, fee, pct, _tla_bool(SWITCHES["revokeValidates"]), depth))
    r = vlib.tlc("SimPayments", cfgf, workers=1,
                 extra=["-simulate", "num=%d" % num, "-depth", str(depth + 2), "-seed", str(seed)],
                 timeout=1800, name=_nm("sim-payments"))
    seqs = []
    seen = set()
    for m in re.finditer(r'^<<"SIM", "(.*)">>$', r["out"], re.M):
        obj = json.loads(json.loads('"' + m.group(1) + '"'))
        k = json.dumps(obj["reqs"][:-1], sort_keys=True)
        if k not in seen:
            seen.add(k)
            seqs.append(obj)
    return seqs, r


def trace_tlc(steps_file, mon, fee, pct, exclude="", timeout=1800, invs=None, judge="", vlim=0):
    """Leg C step 2: TLC validates recorded implementation steps (conformance + ghost ledger)."""
    d = os.path.dirname(steps_file)
    cfg = os.path.join(d, "trace_%s.cfg" % mon)
    vlib.write_cfg(cfg, "SPECIFICATION Spec\nINVARIANTS %s\nCHECK_DEADLOCK FALSE\n" % " ".join(invs or ["C06a", "C06b"]))
    report = os.path.join(d, "trace_report_%s%s.json" % (mon, "_x" if exclude else ""))
    env = {"PM_STEPS": steps_file, "PM_FEE": fee, "PM_PCT": pct, "PM_REVOKE_VALIDATES": _bool(SWITCHES["revokeValidates"]),
           "PM_MON": mon, "PM_REPORT": report, "PM_EXCLUDE": exclude, "PM_JUDGE": judge, "PM_VLIM": vlim}
    r = vlib.tlc("TracePayments", cfg, env=env, workers=1, timeout=timeout, name=_nm("trace-payments"), heap="12g")
    r["report"] = json.load(open(report))
    return r


# ------------------------------------------------------------------------------------------
# concurrency leg (C20 atomicity at the payment ledger; concurrent overpayment for C06)

_NO_RACE = ("Restart", "Tick", "SignCpRetry", "ValidateHolderRetry")


def _o(h, a):
    return {"d": "o", "h": h, "a": a}


def _r(h, a):
    return {"d": "r", "h": h, "a": a}


def _hand_cases():
    """racing pairs on the 'pay' and 'route' alphabets: two channels, one payment hash"""
    ch2, h1 = ["c1", "c2"], ["h1"]
    inv1 = {"op": "AddInvoice", "h": "h1", "a": 1}
    inv2 = {"op": "AddInvoice", "h": "h1", "a": 2}

    def sc(c, x):
        return {"op": "SignCp", "ch": c, "c": x}

    def vh(c, x):
        return {"op": "ValidateHolder", "ch": c, "c": x}

    def rv(c):
        return {"op": "Revoke", "ch": c}
    o1, o2, r1 = [_o("h1", 1)], [_o("h1", 2)], [_r("h1", 1)]
    L = [
        ([inv1], sc("c1", o1), sc("c2", o1)),                     # both pay the whole invoice
        ([inv2], sc("c1", o1), sc("c2", o2)),                     # parts exceeding the invoice
        ([inv2], sc("c1", o1), sc("c2", o1)),                     # parts that fit: both must succeed
        ([], inv1, sc("c1", o1)),                                 # approval racing the payment
        ([inv1, vh("c1", o1)], rv("c1"), sc("c2", o1)),           # revocation racing a payment elsewhere
        ([inv1, sc("c1", o1)], {"op": "Fulfill", "h": "h1"}, sc("c2", o1)),
        ([inv1, sc("c1", o1)], {"op": "Heartbeat"}, sc("c2", o1)),
        ([inv1], sc("c1", o1), vh("c2", o1)),
        ([inv1], vh("c1", o1), vh("c2", o1)),
        ([inv1], sc("c1", o1), vh("c1", o1)),                     # same channel, both sides
        ([inv1, vh("c1", o1)], rv("c1"), sc("c1", o1)),
        ([inv1, sc("c1", o1), vh("c1", o1), rv("c1")], sc("c1", []), sc("c2", o1)),   # removal racing a retry elsewhere
        # route: incoming on c1 covers outgoing on c2
        ([sc("c1", r1), vh("c1", r1), rv("c1")], sc("c2", o1), sc("c1", [])),         # forward racing the removal
        ([vh("c1", r1), rv("c1")], sc("c1", r1), sc("c2", o1)),   # forward racing the incoming becoming irrevocable
        ([sc("c1", r1), vh("c1", r1), rv("c1"), sc("c2", o1)], vh("c1", []), inv1),
        ([], sc("c1", o1), sc("c2", o1)),                         # unbacked on both
        ([], {"op": "IssueInvoice", "h": "h1", "a": 1}, sc("c1", o1)),                # the node's own invoice gives no allowance
        ([{"op": "IssueInvoice", "h": "h1", "a": 1}], sc("c1", r1), sc("c2", o1)),
    ]
    return [{"chans": ch2, "hashes": h1, "prefix": p, "a": a, "b": b, "src": "hand"} for p, a, b in L]


def _sim_cases(num, depth, seed, want, d):
    """consecutive request pairs of TLC-simulated behaviours of Payments.tla as (prefix, a, b)"""
    seqs, _ = simulate("sim2", 0, 10, num, depth, seed, d)
    scored = []
    for sq in seqs:
        reqs = sq["reqs"]
        for i in range(len(reqs) - 1):
            a, b = reqs[i], reqs[i + 1]
            if a["op"] in _NO_RACE or b["op"] in _NO_RACE:
                continue
            ca, cb = a.get("ch"), b.get("ch")
            if ca and cb and ca == cb and a["op"] == b["op"] == "SignCp":
                continue
            ha = set(x["h"] for x in a.get("c", [])) | ({a["h"]} if "h" in a else set())
            hb = set(x["h"] for x in b.get("c", [])) | ({b["h"]} if "h" in b else set())
            score = (2 if (ca and cb and ca != cb) else 1 if (ca or cb) else 0) + (2 if ha & hb else 0)
            scored.append((-score, len(scored), {"chans": sq["chans"], "hashes": sq["hashes"], "prefix": reqs[:i],
                                                 "a": a, "b": b, "src": "sim"}))
    scored.sort(key=lambda t: (t[0], t[1]))
    return [c for _, _, c in scored[:want]]


def _enforce_cases():
    """a routed payment over two channels (incoming on c1 in both commitments, outgoing on c2, preimage not yet
    known), under policy.enforce_balance: the preimage arriving while a commitment that fails / removes one of
    the two HTLCs is being signed, validated or revoked"""
    ch2, h1 = ["c1", "c2"], ["h1"]

    def sc(c, x):
        return {"op": "SignCp", "ch": c, "c": x}

    def vh(c, x):
        return {"op": "ValidateHolder", "ch": c, "c": x}

    def rv(c):
        return {"op": "Revoke", "ch": c}
    o1, r1 = [_o("h1", 1)], [_r("h1", 1)]
    ful = {"op": "Fulfill", "h": "h1", "via": "c2"}       # the preimage comes back over the outgoing channel
    ful1 = {"op": "Fulfill", "h": "h1", "via": "c1"}
    routed = [sc("c1", r1), vh("c1", r1), rv("c1"), sc("c2", o1)]
    routed2 = routed + [vh("c2", o1), rv("c2")]
    L = [
        (routed, ful, sc("c1", [])),                  # incoming failed back while the preimage arrives
        (routed, ful, vh("c1", [])),
        (routed + [vh("c1", [])], ful, rv("c1")),
        (routed2, ful, sc("c2", [])),                 # outgoing removed while the preimage arrives
        (routed2, ful, vh("c2", [])),
        (routed2 + [vh("c2", [])], ful, rv("c2")),
        (routed2, ful1, sc("c2", [])),                # ... reported through the other channel
        (routed2, sc("c1", []), sc("c2", [])),        # both legs removed concurrently
        (routed[:3], ful, sc("c2", o1)),              # forward racing the preimage
        (routed[:3], ful1, sc("c2", o1)),
        ([], sc("c1", r1), sc("c2", r1)),
    ]
    return [{"chans": ch2, "hashes": h1, "prefix": p, "a": a, "b": b, "src": "hand"} for p, a, b in L]


def _vel_cases():
    """under a payment velocity limit of one unit per window (policy global_velocity_control): approvals that the node
    declines because the window is full, racing with each other and with the payments they would have backed"""
    ch2, h2 = ["c1", "c2"], ["h1", "h2"]

    def inv(h):
        return {"op": "AddInvoice", "h": h, "a": 1}

    def sc(c, x):
        return {"op": "SignCp", "ch": c, "c": x}
    ks2 = {"op": "AddKeysend", "h": "h2", "a": 1}
    o1, o2 = [_o("h1", 1)], [_o("h2", 1)]
    L = [
        ([inv("h1")], inv("h2"), sc("c1", o2)),                   # declined approval racing the payment it would have backed
        ([inv("h1")], ks2, sc("c2", o2)),
        ([], inv("h1"), inv("h2")),                               # two approvals racing for the last unit of the window
        ([], inv("h1"), ks2),
        ([inv("h1"), inv("h2")], sc("c1", o2), sc("c2", o2)),     # unbacked on both channels after the decline
        ([inv("h1"), inv("h2")], {"op": "Heartbeat"}, sc("c1", o2)),
        ([inv("h1")], sc("c1", o1), inv("h2")),                   # a backed payment racing a declined approval
        ([inv("h1")], {"op": "ExpiredInvoice", "h": "h2", "a": 1}, sc("c1", o2)),
        ([inv("h1"), sc("c1", o1)], inv("h2"), sc("c2", o2)),
    ]
    return [{"chans": ch2, "hashes": h2, "vlim": 1, "prefix": p, "a": a, "b": b, "src": "hand"} for p, a, b in L]


def conc_component(tier):
    """-> (violations, coverage, number of concurrent runs).  Keys: pay-nonlinearizable:<opA>||<opB>,
    pay-stuck:<opA>||<opB>, C06a:concurrent:<opA>||<opB>, C06b:concurrent:<opA>||<opB>."""
    from concurrent.futures import ThreadPoolExecutor
    quick = tier == "quick"
    t0 = time.time()
    binpath = vlib.build("payments")
    d = wd("conc")
    plain = _hand_cases() + [dict(c) for c in _enforce_cases()] + \
        _sim_cases(20 if quick else 120, 40, vlib.seed(), 80 if quick else 600, d)
    # (group, enforce_balance, cases): the second group runs the racing pairs under policy.enforce_balance = true,
    # where replies and the final state include the node's balance register (excess_amount)
    groups = [("", 0, 0, plain), ("-enforce", 1, 0, _enforce_cases())]
    if not quick:
        # the third group runs under a finite payment velocity limit (declined approvals)
        groups.append(("-vel", 0, 1, _vel_cases()))
    viol, cov = [], {}
    total_runs = 0
    for tag, enforce, vlim, cases in groups:
        for i, c in enumerate(cases):
            c["id"] = i
        shards = min(len(cases), 6 if quick else 8)
        files = []
        for s_ in range(shards):
            cf = os.path.join(d, "cases%s-%d.ndjson" % (tag, s_))
            with open(cf, "w") as f:
                for c in cases[s_::shards]:
                    f.write(json.dumps(c) + "\n")
            files.append((cf, os.path.join(d, "runs%s-%d.ndjson" % (tag, s_))))
        with ThreadPoolExecutor(max_workers=shards) as ex:
            stats = list(ex.map(lambda p: vlib.run_bin(binpath, ["conc", "--cases", p[0], "--out", p[1], "--fee", 0, "--pct", 10,
                                                                 "--enforce", enforce], timeout=3000), files))
        runs_file = os.path.join(d, "runs%s.ndjson" % tag)
        cases_file = os.path.join(d, "case-steps%s.ndjson" % tag)
        with open(runs_file, "w") as fr, open(cases_file, "w") as fc:
            for _, rf in files:
                fr.write(open(rf).read())
                fc.write(open(rf + ".cases").read())
        report = os.path.join(d, "report%s.json" % tag)
        vlib.tlc("ConcPayments", os.path.join(SPEC, "ConcPayments.cfg"),
                 env={"CP_RUNS": runs_file, "CP_CASES": cases_file, "CP_REPORT": report, "PM_FEE": 0, "PM_PCT": 10,
                      "PM_VLIM": vlim, "PM_REVOKE_VALIDATES": _bool(SWITCHES["revokeValidates"])},
                 workers=1, timeout=1800, name=_nm("conc-payments"), heap="12g")
        rep = json.load(open(report))
        by_id = {c["id"]: c for c in cases}
        pol = " [policy enforce_balance]" if enforce else " [policy payment velocity limit %d]" % vlim if vlim else ""

        def names(x):
            return tuple(sorted([x["a"]["op"], x["b"]["op"]]))

        def replay_of(x):
            c = by_id[x["case"]]
            return {"kind": "payments-conc", "chans": c["chans"], "hashes": c["hashes"], "prefix": c["prefix"], "a": c["a"],
                    "b": c["b"], "held": x["held"], "k": x["k"], "enforce": enforce, "vlim": c.get("vlim", 0),
                    "observed": {"ra": x["ra"], "rb": x["rb"], "post": x["post"], "postx": x["postx"]},
                    "sequential": {"ab": x["sab"], "ba": x["sba"]}}

        def story(x):
            c = by_id[x["case"]]
            return "after %s: %s || %s (request %s held before its lock acquisition %d) -> replies %s / %s, bookkeeping %s " \
                   "(a;b %s, b;a %s)%s" % (
                       describe([{"req": r} for r in c["prefix"]]) or "(start)", _short(c["a"]), _short(c["b"]),
                       "ab"[x["held"]], x["k"], "ok" if x["ra"]["ok"] else "refused", "ok" if x["rb"]["ok"] else "refused",
                       json.dumps(x["postx"]), json.dumps(x["sab"]["postx"]), json.dumps(x["sba"]["postx"]), pol)
        for x in rep["nonlinearizable"]:
            viol.append({"key": "pay-nonlinearizable:%s||%s" % names(x),
                         "what": "concurrent requests on one node produced replies + payment ledger + balance bookkeeping that "
                                 "neither sequential order of the implementation explains: " + story(x), "replay": replay_of(x)})
        for y in rep["overpaid"]:
            x = y["run"]
            viol.append({"key": "%s:concurrent:%s||%s" % ((y["clause"],) + names(x)),
                         "what": "%s fails on the real node after two requests executed CONCURRENTLY: %s" % (
                             y["clause"], story(x)), "replay": replay_of(x)})
        for x in rep["stuck"]:
            viol.append({"key": "pay-stuck:%s||%s" % names(x), "what": "concurrent requests never completed: " + story(x),
                         "replay": replay_of(x)})
        if any(s_.get("stuck") for s_ in stats) and not rep["stuck"]:
            raise vlib.ToolError("payments conc: a shard reported a stuck run that is not in the records")
        if rep["interleaved"] == 0 or rep["both_accepted"] == 0:
            raise vlib.ToolError("vacuous concurrency leg%s: no run interleaved / no run accepted both requests" % tag)
        cov["atomicity_payment_ledger" + tag.replace("-", "_")] = {
            "cases": len(cases), "hand_picked_cases": sum(1 for c in cases if c["src"] == "hand"),
            "cases_from_simulated_behaviours": sum(1 for c in cases if c["src"] == "sim"),
            "concurrent_runs": rep["runs"], "runs_where_the_other_request_ran_through_while_one_was_held": rep["interleaved"],
            "runs_with_both_requests_accepted": rep["both_accepted"],
            "runs_where_the_sequential_order_matters": rep["order_matters"],
            "nonlinearizable": rep["n_nonlinearizable"], "overpaid_only_concurrently": rep["n_overpaid"],
            "stuck": len(rep["stuck"]), "spec_divergences": rep["n_spec_divergences"],
            "spec_divergence_samples": rep["spec_divergences"][:3]}
        total_runs += rep["runs"]
        log("[payments] concurrency leg%s: %d cases, %d concurrent runs; nonlinearizable %d, overpaid %d, spec divergences %d" % (
            tag, len(cases), rep["runs"], rep["n_nonlinearizable"], rep["n_overpaid"], rep["n_spec_divergences"]))
    cov["atomicity_payment_ledger"]["wall_s"] = round(time.time() - t0, 1)
    log("[payments] concurrency legs: %d concurrent runs in %.1fs" % (total_runs, time.time() - t0))
    return viol, cov, total_runs


def conc_replay(pid, rp):
    """re-run one recorded case of the concurrency leg (all schedules of the pair) and let TLC judge"""
    binpath = vlib.build("payments")
    d = wd("conc-replay")
    cf = os.path.join(d, "cases.ndjson")
    with open(cf, "w") as f:
        f.write(json.dumps({"id": 0, "chans": rp["chans"], "hashes": rp["hashes"], "prefix": rp["prefix"], "a": rp["a"],
                            "b": rp["b"], "vlim": rp.get("vlim", 0)}) + "\n")
    rf = os.path.join(d, "runs.ndjson")
    vlib.run_bin(binpath, ["conc", "--cases", cf, "--out", rf, "--fee", 0, "--pct", 10, "--enforce", rp.get("enforce", 0)],
                 timeout=600)
    report = os.path.join(d, "report.json")
    vlib.tlc("ConcPayments", os.path.join(SPEC, "ConcPayments.cfg"),
             env={"CP_RUNS": rf, "CP_CASES": rf + ".cases", "CP_REPORT": report, "PM_FEE": 0, "PM_PCT": 10,
                  "PM_VLIM": rp.get("vlim", 0), "PM_REVOKE_VALIDATES": _bool(SWITCHES["revokeValidates"])}, workers=1, timeout=600, name=_nm("conc-payments-replay"))
    rep = json.load(open(report))
    print("  %s || %s: %d schedules, non-linearizable %d, overpaid only concurrently %d, stuck %d" % (
        _short(rp["a"]), _short(rp["b"]), rep["runs"], rep["n_nonlinearizable"], rep["n_overpaid"], len(rep["stuck"])))
    if rep["n_nonlinearizable"] or rep["n_overpaid"] or rep["stuck"]:
        print("VIOLATION property=%s replay=(reproduced)" % pid)
        return 1
    print("not reproduced")
    return 0
