"""Node-level component (Node.tla / ImplNode.tla) of C10 and C11."""
import json
import os
import time

import vlib
from vlib import SPEC, log

SWITCHES = json.load(open(os.path.join(vlib.ROOT, "spec", "switches.json")))
_CACHE = {}


FEE_LIMIT = 2
MAX_INVOICES = 1   # harness/src/nodelib.rs MAX_INVOICES


def extract(tier, mode="default"):
    """mode "feelimit": the node runs with a fee velocity limit of FEE_LIMIT Withdraw fees per hour, the counted
    fees are part of the state (Node.tla k.feeLimit), and the alphabet is the on-chain part only (Withdraw in
    all variants, one channel to fund, Restart) - refusals by the velocity limit and what they leave behind.
    mode "maxinv": the table of approved invoices holds MAX_INVOICES entries (Node.tla k.maxInvoices), the payment
    velocity control's counted amounts are part of the observed state, alphabet = invoice / keysend approvals,
    heartbeat, restart - refusals because the table is full and what they leave behind.
    mode "issue": invoices issued by the node itself (Node.tla IssueInvoice / IssueRequests) - a second, different
    invoice for an issued hash is refused and must leave the record of the first as it was."""
    if ("ex", mode) in _CACHE:
        return _CACHE[("ex", mode)]
    binpath = vlib.build("node")
    d = vlib.workdir("node-b" + ("" if mode == "default" else "-" + mode))
    alpha = os.path.join(d, "alphabet.json")
    aenv = {"ND_OUT": alpha}
    if mode == "issue":
        aenv["ND_LEVEL"] = "issue"
    vlib.tlc("NodeAlphabet", os.path.join(SPEC, "NodeAlphabet.cfg"), env=aenv, workers=1, timeout=300,
             name="node-alphabet")
    if mode == "feelimit":
        keep = [r for r in json.load(open(alpha))
                if r["op"] in ("Withdraw", "Restart") or (r["op"] in ("NewChannel", "Setup") and r["d"] == 1)]
        json.dump(keep, open(alpha, "w"))
    if mode == "maxinv":
        keep = [r for r in json.load(open(alpha)) if r["op"] in ("AddInvoice", "AddKeysend", "Restart", "Heartbeat")]
        json.dump(keep, open(alpha, "w"))
    t0 = time.time()
    stats = vlib.run_bin(binpath, ["explore", "--alphabet", alpha, "--out", os.path.join(d, "ex"), "--threads", 16,
                                   "--max-chans", 2, "--policy", mode,
                                   # the small-limit modes have a handful of states on a correct signer; a change
                                   # that lets a REFUSED request count something makes every refusal a new state -
                                   # the first few hundred states show that, no need to follow them for ever
                                   "--max-states", 200000 if mode == "default" else 400], timeout=3000)
    nodes = os.path.join(d, "nodes.ndjson")
    rows = vlib.merge_nodes(os.path.join(d, "ex"), nodes)
    details = {}
    for fn in sorted(os.listdir(os.path.join(d, "ex"))):
        if fn.startswith("details-"):
            with open(os.path.join(d, "ex", fn)) as f:
                for l in f:
                    if l.strip():
                        x = json.loads(l)
                        details[(x["node"], x["ri"])] = x
    cfg = os.path.join(d, "impl.cfg")
    vlib.write_cfg(cfg, "SPECIFICATION Spec\nVIEW View\nINVARIANTS NoIdReuse\nCHECK_DEADLOCK FALSE\n")
    report = os.path.join(d, "report.json")
    r = vlib.tlc("ImplNode", cfg, env={"ND_NODES": nodes, "ND_ALPHABET": alpha, "ND_REPORT": report,
                                       "ND_FEE_LIMIT": FEE_LIMIT if mode == "feelimit" else 0,
                                       "ND_MAX_INVOICES": MAX_INVOICES if mode == "maxinv" else 0,
                                       "ND_COUNTS_BEFORE_SIGN": "true" if SWITCHES.get("withdrawCountsBeforeSign", True) else "false",
                                       "ND_ATOMIC_ALLOWLIST": "true" if SWITCHES.get("atomicAllowlist") else "false"},
                 workers=8, timeout=1800, name="impl-node")
    rep = json.load(open(report))
    log("[node:%s] explored real node: %s in %.1fs; TLC product %d states" % (mode, stats, time.time() - t0, r["distinct"]))
    res = {"stats": stats, "report": rep, "details": details, "tlc": r, "requests": json.load(open(alpha)),
           "nodes": nodes}
    _CACHE[("ex", mode)] = res
    return res


def frame_component(pid, tier):
    viol, cov, ev, nt, samples = [], {}, 0, 0, []
    seen = set()
    # "issue" (invoices issued by the node itself) is a C10 graph only: sign_bolt11_invoice records the issued
    # invoice in memory and leaves the store write to a later request, and issued invoices are not in C11's list
    for mode in (("default", "feelimit", "maxinv", "issue") if pid == "C10" else ("default", "feelimit", "maxinv")):
        v, c, e, n, s = _frame_one(pid, tier, mode)
        for x in v:
            if x["key"] not in seen:
                seen.add(x["key"])
                viol.append(x)
        for k, val in c.items():
            cov[k if mode == "default" else k + "_" + mode] = val
        ev += e
        nt += n
        samples += s if mode == "default" else []
    return viol, cov, ev, nt, samples


def _frame_one(pid, tier, mode):
    ex = extract(tier, mode)
    rep = ex["report"]
    viol = []
    refused = accepted = 0
    sample = []
    with open(ex["nodes"]) as f:
        for line in f:
            row = json.loads(line)
            for e in row["e"]:
                if e[2] == 0:
                    refused += 1
                    if len(sample) < 2:
                        sample.append({"component": "node", "pre": row["pre"], "req": ex["requests"][e[1] - 1],
                                       "refused": True, "changed_mask": e[4]})
                else:
                    accepted += 1
    if pid == "C10":
        for b in rep["frame_bad"]:
            comps = [c for c, m in (("channels", 1), ("node", 2), ("store", 4), ("tracker", 8)) if b["mask"] & m]
            d = ex["details"].get((b["node"], b["ri"]), {})
            fields = sorted(set(".".join(x.split(".")[:2]) for x in d.get("changed", [])))
            opname = b["req"]["op"] + ("[%s]" % b["req"]["inp"] if "inp" in b["req"] else "")
            key = "node:%s:%s:%s" % (opname, "+".join(comps), ",".join(fields))
            viol.append({"key": key, "what": "refused %s changed %s" % (b["req"]["op"], ",".join(fields) or "+".join(comps)),
                         "replay": {"kind": "node-path", "path": d.get("path"), "req": b["req"], "err": d.get("resp", {}).get("err")}})
        cov = {"node_requests": {"impl_states": rep["nodes"], "refused_edges_checked": refused,
                                 "frame_violations": len(rep["frame_bad"]), "spec_divergences": len(rep["divergences"])}}
        return viol, cov, refused, refused, sample
    else:
        for b in rep["restart_bad"]:
            d = ex["details"].get((b["node"], b["ri"]), {})
            fields = sorted(set(_norm_path(x) for x in d.get("restart_diff", ["?"])))
            key = "node:%s:%s" % (b["req"]["op"], ",".join(fields))
            viol.append({"key": key, "what": "after %s the restored signer differs in %s" % (b["req"]["op"], ",".join(fields)),
                         "replay": {"kind": "node-path", "path": d.get("path"), "req": b["req"], "diff": d.get("restart_diff")}})
        if ex["tlc"]["violated"]:
            viol.append({"key": "node:id-reuse", "what": "a channel id at or below a forgotten one was created again",
                         "replay": {"kind": "node-trace", "trace": ex["tlc"]["trace"]}})
        cov = {"node_requests": {"impl_states": rep["nodes"], "edges_checked": accepted + refused,
                                 "restart_violations": len(rep["restart_bad"]), "tainted_states": rep["tainted_states"],
                                 "spec_divergences": len(rep["divergences"])}}
        return viol, cov, accepted + refused, accepted, [dict(s, restart_equal=True) for s in sample[:1]]


def _norm_path(p):
    import re
    parts = p.split(".")
    parts = [("*" if re.fullmatch(r"\d+", x) else x) for x in parts]
    return ".".join(parts[:4])
