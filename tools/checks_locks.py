"""C20: concurrent requests neither deadlock nor break per-channel atomicity.

Leg 1 (deadlock freedom): the lock programs of every request kind are RECORDED from the real code
(traced mutex, --cfg vls_verif); Locks.tla runs every pair (thorough: triple) of programs under all
interleavings; every deadlocked model state is then replayed on real threads with a controller
holding each thread at the model's stop point; a VIOLATION is reported only for a deadlock that
the real code reproduces (both threads stuck, watchdog).
Leg 2 (atomicity): see ConcChannel.tla - concurrent pairs of requests under imposed schedules;
replies and final states must equal one of the sequential orders of Channel.tla."""
import json
import os
import re
import time

import vlib
from vlib import SPEC, log

PROPERTIES = ["C20"]


def _norm(s):
    return re.sub(r"Slot#?\d+", "Slot", re.sub(r"State#\d+", "State", s))


def deadlock_key(d):
    parts = []
    for t in d["threads"]:
        if t["done"]:
            continue
        kind = re.sub(r"\(ch\d\)", "(ch)", t["kind"])
        parts.append("%s holds{%s} wants %s" % (kind, ",".join(sorted(set(_norm(h) for h in t["held"]))),
                                               _norm(t["wants"])))
    return " || ".join(sorted(parts))


def model_deadlocks(programs_file, nt, d, workers=8):
    cfg = os.path.join(d, "Locks_%d.cfg" % nt)
    vlib.write_cfg(cfg, "SPECIFICATION Spec\nCONSTANTS NT = %d\nINVARIANTS ReportDeadlocks\nCHECK_DEADLOCK FALSE\n" % nt)
    r = vlib.tlc("Locks", cfg, env={"LK_PROGRAMS": programs_file}, workers=workers, timeout=3000,
                 name="locks-%d" % nt)
    dl = []
    for m in re.finditer(r'^<<"DEADLOCK", "(.*)">>$', r["out"], re.M):
        dl.append(json.loads(json.loads('"' + m.group(1) + '"')))
    return dl, r


def confirm(binpath, d):
    """replay one model deadlock on real threads; returns the harness verdict"""
    live = [t for t in d["threads"] if not t["done"]]
    if len(live) != 2:
        return {"deadlock": False, "skipped": "needs exactly two blocked threads"}
    a, b = live
    last = None
    for first in ("a", "b"):
        rc, out = vlib.sh([binpath, "confirm", "--a", a["kind"], "--pa", a["acquired"], "--b", b["kind"],
                           "--pb", b["acquired"], "--first", first], env={"RUST_LOG": "off"}, timeout=60)
        lines = [l for l in out.splitlines() if l.startswith("{")]
        if not lines:
            raise vlib.ToolError("locks confirm gave no verdict:\n" + out[-2000:])
        last = json.loads(lines[-1])
        if last["deadlock"]:
            return last
    return last


def run(pid, tier):
    t0 = time.time()
    quick = tier == "quick"
    binpath = vlib.build("locks")
    d = vlib.workdir("locks")
    raw = os.path.join(d, "programs.json")
    vlib.run_bin(binpath, ["record", "--out", raw])
    progs = json.load(open(raw))
    pf = os.path.join(d, "programs_tlc.json")
    json.dump([{"kind": p["kind"], "prog": p["prog"]} for p in progs], open(pf, "w"))
    failed = [p["kind"] for p in progs if not p["result"].get("ok", False)]

    cov = {"legs": {}}
    violations = []
    states = trans = 0
    confirmed = {}
    unconfirmed = {}
    for nt in ([2] if quick else [2, 3]):
        dls, r = model_deadlocks(pf, nt, d, workers=8 if quick else 14)
        states += r["distinct"]
        trans += r["states"]
        by_key = {}
        for x in dls:
            by_key.setdefault(deadlock_key(x), x)
        cov["legs"]["model_NT%d" % nt] = {"programs": len(progs), "states": r["distinct"], "transitions": r["states"],
                                          "deadlocked_states": len(dls), "distinct_lock_cycles": len(by_key)}
        for key, x in sorted(by_key.items()):
            if key in confirmed or key in unconfirmed:
                continue
            v = confirm(binpath, x)
            if v.get("deadlock"):
                confirmed[key] = {"model": x, "real": v}
            else:
                unconfirmed[key] = {"model": x, "real": v}
    for key, c in confirmed.items():
        violations.append({"key": key, "what": "real threads deadlock: " + key,
                           "replay": {"kind": "locks-confirm", "threads": c["model"]["threads"], "real": c["real"]}})
    # a control: two requests on different channels must complete under the same kind of schedule
    control = None
    rc, out = vlib.sh([binpath, "confirm", "--a", "sign_cp(ch1)", "--pa", 3, "--b", "forget_channel(ch2)", "--pb", 2],
                      env={"RUST_LOG": "off"}, timeout=60)
    lines = [l for l in out.splitlines() if l.startswith("{")]
    if lines:
        control = json.loads(lines[-1])
    cov["legs"]["real_confirmation"] = {"model_cycles_replayed": len(confirmed) + len(unconfirmed),
                                        "confirmed_real_deadlocks": len(confirmed),
                                        "not_reproduced": sorted(unconfirmed.keys()),
                                        "control_different_channels_completes": bool(control and control["finished"] == [True, True])}

    # leg 2: atomicity / linearizability of concurrent channel requests
    try:
        import conc
        v2, c2, st2, tr2, traces2 = conc.run(tier)
        violations += v2
        cov["legs"].update(c2)
        states += st2
        trans += tr2
        v3, c3, tr3 = conc.run_node(tier)
        violations += v3
        cov["legs"].update(c3)
        traces2 += tr3
        # cross-channel races on the shared payment ledger (payments component, ConcPayments.tla)
        import payments
        v4, c4, tr4 = payments.conc_component(tier)
        violations += [v for v in v4 if v["key"].startswith("pay-")]
        cov["legs"].update(c4)
        traces2 += tr4
    except ImportError:
        traces2 = 0

    code, unknown, known = vlib.verdict(pid, violations)
    samples = [{"kind": p["kind"], "program": " ".join(("+" if e[0] == "acq" else "-") + e[1] for e in p["prog"])}
               for p in progs[:4]]
    cov.update({"states": max(states, 1), "transitions": max(trans, 1),
                "traces_validated_against_impl": len(progs) + len(confirmed) + len(unconfirmed) + traces2,
                "samples": samples, "exhaustive": True,
                "request_kinds_recorded": [p["kind"] for p in progs],
                "request_kinds_that_were_refused_while_recording": failed,
                "explanation": "lock programs recorded from the real code; all interleavings of pairs/triples model-checked; "
                               "each model deadlock replayed on real threads"})
    vlib.write_evidence(pid, tier, "model_checking", cov,
                        ["the recorded lock programs are schedule-independent for the data situations recorded",
                         "log level 'off' (acquisitions inside log-macro arguments are not executed)",
                         "locks are identified by instance address; classes by payload type name",
                         "the traced mutex wrapper (vls-core/src/verif_sync.rs) behaves like std::sync::Mutex"],
                        time.time() - t0, unknown + known)
    return code


def replay(pid, obj):
    binpath = vlib.build("locks")
    v = confirm(binpath, {"threads": obj["replay"]["threads"]})
    print(json.dumps(v))
    if v.get("deadlock"):
        print("VIOLATION property=%s replay=(reproduced)" % pid)
        return 1
    return 0
