#!/usr/bin/env python3
"""Run every claimed check (quick unless --tier thorough), print exit codes and wall time."""
import json, subprocess, sys, time, os
ROOT = os.path.dirname(os.path.dirname(os.path.abspath(__file__)))
tier = "thorough" if "--tier=thorough" in sys.argv else "quick"
only = [a for a in sys.argv[1:] if a.startswith("C")]
m = json.load(open(os.path.join(ROOT, "MANIFEST.json")))
bad = 0
for c in m["checks"]:
    pid = c["property_id"]
    if only and pid not in only:
        continue
    t = time.time()
    p = subprocess.run(["./check", pid, "--tier", tier], cwd=ROOT, stdout=subprocess.PIPE, stderr=subprocess.STDOUT, text=True)
    lines = [l for l in p.stdout.splitlines() if l.startswith("VIOLATION") or l.startswith("KNOWN-FINDING") or l.startswith("TOOL ERROR")]
    print("%s rc=%d %.0fs %s" % (pid, p.returncode, time.time() - t, (" | " + lines[0][:120]) if lines else ""), flush=True)
    bad += p.returncode != 0
sys.exit(1 if bad else 0)
