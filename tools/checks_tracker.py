"""C13: the chain tracker follows only validated blocks and rejects atomically.

Decided by Tracker.tla:
  leg A  TLC model-checks the specification (MC_Tracker) with the behaviour switches of HEAD and with the
         atomic ("fixed") switches;
  leg B  `tracker explore` extracts the state graph of the REAL ChainTracker<ChainMonitor> (every request of
         the TLC-generated alphabet on every reachable state, probe requests after every refusal); TLC
         (ImplTracker) checks every edge/probe against Step and runs the monitors C13a/C13b/C13c;
         the configurations vary the tracker's mode: trusted oracle set, tip with/without filter header,
         allow_deep_reorgs off/on x remembered-header window empty / one header / full (removals that go
         below the remembered headers; C13a also says what an accepted request leaves as tip/height/window);
  leg C  TLC-simulated behaviours of the model are replayed on long-lived real trackers; TLC (TraceTracker)
         validates every step and runs the monitors along the traces."""
import json
import time

import tracker as trk
import vlib
from vlib import log

PROPERTIES = ["C13"]
INVS = ["C13a", "C13b", "C13c"]


def runs(tier):
    quick = tier == "quick"
    md = 1 if quick else 2
    ext = 0 if quick else 1
    rs = [
        # straddles the retarget boundary 2016; two of three oracles trusted
        ("retarget", {"h0": 2014, "fh": "set", "prewin": 1, "trusted": ["o1", "o2"], "deep": False, "nl": 1,
                      "hmin": 2013, "hmax": 2017 + ext}, md),
        # genesis-like start: tip recorded without filter header (upgrade path), one trusted oracle
        ("nofilter", {"h0": 0, "fh": "zero", "prewin": 0, "trusted": ["o1"], "deep": False, "nl": 1,
                      "hmin": 0, "hmax": 3 + ext}, md),
        # header window full (reorg depth limit): the first new block is a retarget block and pushes the
        # oldest remembered header out; all three oracles trusted (majority = 2)
        ("fullwindow", {"h0": 4031, "fh": "set", "prewin": 100, "trusted": ["o1", "o2", "o3"], "deep": False,
                        "nl": 1, "hmin": 4031, "hmax": 4033}, md),
        # two channels (the proof has to cover the watches of every listener)
        ("twochan", {"h0": 10, "fh": "set", "prewin": 1, "trusted": ["o1", "o2", "o3"], "deep": False,
                     "nl": 2, "hmin": 10, "hmax": 12 + ext}, 1),
    ]
    # ---- deep-reorg mode (allow_deep_reorgs, the testnet default) x remembered-header window
    # nothing remembered (started from a checkpoint): every removal goes below the window; the tip is
    # the retarget block 2016, three more blocks are known to the node below it
    rs.append(("deepempty", {"h0": 2016, "fh": "set", "prewin": 0, "below": 2, "trusted": ["o1", "o2"], "deep": True,
                             "nl": 1, "hmin": 2014, "hmax": 2017 + ext}, md))
    # short window: used up by the first removal, the following ones go below it
    rs.append(("deepshort", {"h0": 10, "fh": "set", "prewin": 1, "below": 1, "trusted": ["o1", "o2", "o3"],
                             "deep": True, "nl": 1, "hmin": 8, "hmax": 11 + ext}, md))
    if not quick:
        # full window with the flag set (the flag must not matter while headers are remembered)
        rs.append(("deepfull", {"h0": 4031, "fh": "set", "prewin": 100, "below": 1, "trusted": ["o1", "o2", "o3"],
                                "deep": True, "nl": 1, "hmin": 4030, "hmax": 4033}, 1))
        # two channels, tip recorded without a filter header, nothing remembered
        rs.append(("deepnofilter", {"h0": 6, "fh": "zero", "prewin": 0, "below": 2, "trusted": ["o1"], "deep": True,
                                    "nl": 2, "hmin": 4, "hmax": 8}, 1))
    if not quick:
        # no trusted oracle configured (any attestation is enough), window of two headers
        rs.append(("untrusted", {"h0": 2015, "fh": "set", "prewin": 2, "trusted": [], "deep": False, "nl": 2,
                                 "hmin": 2014, "hmax": 2017}, 1))
    return rs


def _violations_from_report(ex, rep):
    """one violation per distinct key, each with a shortest request sequence from the initial state"""
    reqs = ex["requests"]
    pth = trk.paths(ex["rows"])
    best = {}

    def consider(key, node, tail, what):
        if node not in pth:
            return
        seq = [reqs[i - 1] for i in pth[node]] + tail
        rank = (len(seq), sum(len(trk.deviations(x)) for x in seq), json.dumps(seq, sort_keys=True))
        if key not in best or rank < best[key]["rank"]:
            best[key] = {"key": key, "what": what, "rank": rank,
                         "replay": {"kind": "tracker-seq", "cfg": ex["cfg"], "requests": seq}}

    rows = ex["rows"]

    def edges(per_node):
        for i, idxs in enumerate(per_node):
            for j in idxs:
                yield (i,) + tuple(rows[i]["e"][j - 1])

    def probes(per_node):
        for i, idxs in enumerate(per_node):
            for j in idxs:
                yield (i,) + tuple(rows[i]["p"][j - 1])

    post_bad = {(i, j) for i, idxs in enumerate(rep["post_bad"]) for j in idxs}
    for i, idxs in enumerate(rep["move_bad"]):
        for j in idxs:
            _to, ri, ok, err, chg = rows[i]["e"][j - 1]
            node = i
            d = {"req": reqs[ri - 1], "ok": ok, "err": err, "chg": chg, "post_bad": (i, j) in post_bad}
            consider(trk.key_move(d), node, [d["req"]],
                     ("C13a: an allowed %s was accepted but tip / height / remembered headers afterwards are not those "
                      "of the %s block: %s" % (d["req"]["op"], "previous" if d["req"]["op"] == "rm" else "new",
                                               json.dumps(d["req"], sort_keys=True))) if d["post_bad"] else
                     "C13a: the tip moved by a request the reference predicate rejects: %s" % json.dumps(d["req"], sort_keys=True))
    for node, _to, ri, ok, err, chg in edges(rep["frame_bad"]):
        d = {"req": reqs[ri - 1], "ok": ok, "err": err, "chg": chg}
        consider(trk.key_frame(d), node, [d["req"]],
                 "C13b: %s refused with %s but %s changed" % (d["req"]["op"], trk.ERR[err], trk.chg_names(chg)))
    for node, qi, ri, ok, err, _to in probes(rep["later_bad"]):
        q, r = reqs[qi - 1], reqs[ri - 1]
        consider(trk.key_later(q, r, ok), node, [q, r],
                 "C13c: after the refused %s (%s) a correct %s %s" % (
                     q["op"], ",".join(trk.deviations(q)) or "-", r["op"],
                     "panics" if ok == 2 else "is refused with " + trk.ERR[err]))
    return [{k: v for k, v in b.items() if k != "rank"} for b in best.values()]


def _violations_from_trace(cfg, steps_file, rep):
    steps = [json.loads(x) for x in open(steps_file)]
    out = []

    def seq_upto(e):
        return [x["req"] for x in steps if x["seq"] == e["seq"] and x["step"] <= e["step"]]

    for d in rep["move_bad"]:
        out.append({"key": trk.key_move({"req": d["req"], "ok": d["resp"][0], "post_bad": d["line"] in rep["post_bad"]}),
                    "what": "C13a on a replayed behaviour",
                    "replay": {"kind": "tracker-seq", "cfg": cfg, "requests": seq_upto(d)}})
    for d in rep["frame_bad"]:
        out.append({"key": trk.key_frame({"req": d["req"], "chg": d["resp"][2]}), "what": "C13b on a replayed behaviour",
                    "replay": {"kind": "tracker-seq", "cfg": cfg, "requests": seq_upto(d)}})
    for d in rep["later_bad"]:
        # the refused requests right before this one; the finding is attributed to the first of them
        # that changed something, else to the first streamed one, else to the last one
        run = []
        i = d["line"] - 2
        while i >= 0 and steps[i]["seq"] == d["seq"] and steps[i]["resp"][0] == 0:
            run.insert(0, steps[i])
            i -= 1
        culprit = ([x for x in run if x["resp"][2] != 0] or [x for x in run if trk.streamed(x["req"])] or run[-1:])[0]
        q = culprit["req"]
        out.append({"key": trk.key_later(q, d["req"], d["resp"][0]), "what": "C13c on a replayed behaviour",
                    "replay": {"kind": "tracker-seq", "cfg": cfg, "requests": seq_upto(d)}})
    return out


def run(pid, tier):
    t0 = time.time()
    quick = tier == "quick"
    binpath = vlib.build("tracker")
    violations = []
    divergences = []
    cov = {"legs": {}}
    samples = []

    # ---- leg A: the model itself, HEAD switches and atomic switches
    consts = {"interval": 4, "maxreorg": 2, "trusted": ["o1", "o2"], "nl": 1, "h0": 2,
              "hmax": 5 if quick else 6, "maxdev": 1 if quick else 2}
    a_head = trk.leg_a("head", consts, ["C13a", "TypeOK"], trk.SWITCHES["popFirst"], trk.SWITCHES["keepDecode"])
    a_head2 = trk.leg_a("head-atomicity", consts, ["C13b", "C13c", "WindowLinked"], trk.SWITCHES["popFirst"],
                        trk.SWITCHES["keepDecode"])
    a_fix = trk.leg_a("atomic", consts, INVS + ["TypeOK", "WindowLinked"], False, False)
    cov["legs"]["A_model_head"] = {"constants": consts, "states": a_head["states"], "distinct": a_head["distinct"],
                                   "depth": a_head["depth"], "violated": a_head["violated"],
                                   "atomicity_invariants_violated_in_model": a_head2["violated"],
                                   "wall_s": round(a_head["wall_s"] + a_head2["wall_s"], 1)}
    cov["legs"]["A_model_atomic_switches"] = {"states": a_fix["states"], "distinct": a_fix["distinct"],
                                              "depth": a_fix["depth"], "violated": a_fix["violated"],
                                              "wall_s": round(a_fix["wall_s"], 1)}
    # deep-reorg mode in the model: allow_deep_reorgs set, the tracker may start with nothing remembered,
    # removals go below the remembered headers
    cd = dict(consts, deep=True, hmax=4 if quick else 5, maxdev=1)
    a_deep = trk.leg_a("atomic-deep", cd, INVS + ["TypeOK", "WindowLinked"], False, False)
    cov["legs"]["A_model_atomic_switches_deep_reorgs"] = {
        "constants": cd, "states": a_deep["states"], "distinct": a_deep["distinct"], "depth": a_deep["depth"],
        "violated": a_deep["violated"], "wall_s": round(a_deep["wall_s"], 1)}
    if a_deep["violated"]:
        log("[C13] leg A: the model with atomic switches and deep reorgs violates %s: the specification itself is wrong"
            % a_deep["violated"])
    if not quick:
        c2 = dict(consts, nl=2, maxdev=1, hmax=5, trusted=["o1", "o2", "o3"])
        a2 = trk.leg_a("atomic-2ch", c2, INVS + ["TypeOK", "WindowLinked"], False, False)
        cov["legs"]["A_model_atomic_switches_two_listeners"] = {
            "constants": c2, "states": a2["states"], "distinct": a2["distinct"], "depth": a2["depth"],
            "violated": a2["violated"], "wall_s": round(a2["wall_s"], 1)}
    if a_head["violated"] or a_head2["violated"]:
        log("[C13] leg A: the MODEL with the switches of HEAD violates %s (hypothesis about the code)" % (
            a_head["violated"] + a_head2["violated"]))
    if a_fix["violated"]:
        log("[C13] leg A: the model with atomic switches violates %s: the specification itself is wrong" % a_fix["violated"])

    # ---- leg B: implementation state graphs
    tot_states = tot_trans = tot_obs = 0
    for name, cfg, maxdev in runs(tier):
        ex = trk.extract(binpath, name, cfg, maxdev, max_states=2000 if quick else 8000)
        # one TLC run: the report (conformance, violating edges/probes) is computed at start-up, then TLC
        # walks the whole product graph x monitors with C13a/b/c as invariants (-continue: an invariant
        # failure does not stop the walk, so the product is always measured completely)
        ri = trk.impl_tlc(ex, INVS, workers=1, tag="-inv")
        rep = ri["report"]
        r = ri
        vs = _violations_from_report(ex, rep)
        if bool(ri["violated"]) != bool(vs):
            raise vlib.ToolError("ImplTracker: invariant verdict %s disagrees with the report (%d findings)" % (
                ri["violated"], len(vs)))
        violations += vs
        ndiv = rep["n_divergent_edges"] + rep["n_divergent_probes"]
        cov["legs"]["B_impl_" + name] = {
            "config": cfg, "max_deviations_per_request": maxdev, "requests_in_alphabet": len(ex["requests"]),
            "impl_states": rep["nodes"], "impl_states_expanded": rep["expanded"], "impl_edges": rep["edges"],
            "accepted_edges": rep["accepted"], "refused_edges": rep["refused"], "probes_after_refusal": rep["probes"],
            "product_states": r["distinct"], "product_transitions": r["states"],
            "state_budget_exhausted": bool(ex["stats"].get("capped")),
            "spec_divergences": ndiv, "move_bad": sum(map(len, rep["move_bad"])),
            "removals_below_window_accepted": rep["deep_retreats"],
            "removals_below_window_accepted_on_supplied_zero_filter_header": rep["deep_retreats_unproved"],
            "frame_bad": sum(map(len, rep["frame_bad"])), "later_bad": sum(map(len, rep["later_bad"])), "invariants_violated": sorted(set(ri["violated"])),
            "wall_s": round(ex["wall_s"] + ri["wall_s"], 1)}
        if rep["accepted"] == 0 or rep["refused"] == 0 or rep["probes"] == 0:
            raise vlib.ToolError("vacuous exploration in run %s" % name)
        if cfg.get("deep") and cfg["prewin"] <= 1 and rep["deep_retreats"] == 0:
            raise vlib.ToolError("run %s: no removal below the remembered headers was accepted (vacuous)" % name)
        tot_states += r["distinct"]
        tot_trans += r["states"]
        tot_obs += rep["edges"] + rep["probes"]
        divergences += [{"run": name, "kind": "edge", **{k: d[k] for k in ("node", "req", "ok", "err", "expected")}}
                        for d in rep["divergent_edges"][:10]]
        divergences += [{"run": name, "kind": "probe", **{k: d[k] for k in ("node", "q", "req", "ok", "err", "expected")}}
                        for d in rep["divergent_probes"][:10]]
        if not samples:
            row = ex["rows"][0]
            for e in row["e"]:
                if len(samples) < 4 and (e[2] == 1 or len(samples) >= 2):
                    samples.append({"state": row["pre"], "request": ex["requests"][e[1] - 1],
                                    "resp": {"ok": e[2], "err": trk.ERR[e[3]]}, "to_state": e[0], "changed": e[4]})

    # ---- leg C: model behaviours replayed on long-lived trackers, validated by TLC
    nsim, depth = (30, 14) if quick else (300, 24)
    simcfgs = [{"interval": trk.INTERVAL, "maxreorg": 100, "trusted": ["o1", "o2"], "nl": 1, "h0": 2014, "prewin": 1,
                "fh": "set", "maxdev": 1},
               # deep-reorg mode on a long-lived tracker: one remembered header, three more below it
               {"interval": trk.INTERVAL, "maxreorg": 100, "trusted": ["o1", "o2"], "nl": 1, "h0": 2017, "prewin": 1,
                "below": 2, "deep": True, "fh": "set", "maxdev": 1}]
    if not quick:
        simcfgs.append({"interval": trk.INTERVAL, "maxreorg": 100, "trusted": ["o1", "o2", "o3"], "nl": 2, "h0": 2012,
                        "prewin": 3, "fh": "zero", "maxdev": 1})
    for i, sc in enumerate(simcfgs):
        d = vlib.workdir("tracker/c-%d" % i)
        seqs, sim = trk.simulate(sc, nsim, depth, vlib.seed(), d)
        cfg = {"h0": sc["h0"], "fh": sc["fh"], "prewin": sc["prewin"], "below": sc.get("below", 0),
               "trusted": sc["trusted"], "deep": bool(sc.get("deep")), "nl": sc["nl"], "hmin": 0, "hmax": 1 << 30}
        steps_file, cfgf, st = trk.run_sequences(binpath, cfg, seqs, d)
        tr = trk.trace_tlc(steps_file, cfgf, st.get("max_reorg", 100), [])
        tri = trk.trace_tlc(steps_file, cfgf, st.get("max_reorg", 100), INVS, tag="-inv")
        trep = tr["report"]
        vs = _violations_from_trace(cfg, steps_file, trep)
        if bool(tri["violated"]) != bool(vs):
            raise vlib.ToolError("TraceTracker: invariant verdict %s disagrees with the report" % tri["violated"])
        violations += vs
        cov["legs"]["C_sim_replay_%d" % i] = {
            "config": cfg, "behaviours": st.get("sequences", 0), "steps": trep["steps"],
            "spec_divergences": len(trep["divergences"]), "move_bad": len(trep["move_bad"]),
            "frame_bad": len(trep["frame_bad"]), "later_bad": len(trep["later_bad"]),
            "invariants_violated": tri["violated"], "wall_s": round(sim["wall_s"] + tr["wall_s"] + tri["wall_s"], 1)}
        tot_obs += trep["steps"]
        tot_states += tr["distinct"]
        tot_trans += tr["states"]
        divergences += [{"run": "sim%d" % i, "kind": "step", **{k: x[k] for k in ("seq", "step", "req", "resp")}}
                        for x in trep["divergences"][:10]]

    code, unknown, known = vlib.verdict(pid, violations)
    if divergences:
        log("[C13] NOTE: %d observations are not behaviours of Tracker.tla (specification needs updating; "
            "not a property violation)" % len(divergences))
    cov.update({
        "states": max(1, tot_states + a_head["distinct"] + a_fix["distinct"]),
        "transitions": max(1, tot_trans + a_head["states"] + a_fix["states"]),
        "traces_validated_against_impl": tot_obs,
        "samples": samples or [{"note": "none"}],
        "exhaustive": not any(v.get("state_budget_exhausted") for v in cov["legs"].values()),
        "spec_divergences": divergences[:40],
        "switches": trk.SWITCHES,
        "finding_keys": sorted({v["key"] for v in violations}),
        "explanation": "TLC (a) model-checks Tracker.tla, (b) walks the product of the state graph extracted from the "
                       "real ChainTracker<ChainMonitor> (every request of the alphabet on every reachable state; "
                       "probe requests on the same object after every refusal) with the C13 monitors, checking each "
                       "implementation edge and probe against Step, (c) validates replayed simulation behaviours",
    })
    vlib.write_evidence(pid, tier, "model_checking", cov,
                        ["regtest network; really mined headers; txoo filters, SPV proofs and schnorr attestations are "
                         "built with the txoo crate (trusted to build honest proofs)",
                         "small scope: at most %d deviations per request, height windows of 3-5 blocks around the "
                         "retarget boundary / genesis / a full header window, at most 2 listeners, 3 oracles" % (
                             1 if quick else 2),
                         "listeners are real ChainMonitors with a dummy commitment point provider: block contents are "
                         "limited to funding / funding-input double spends (closing transactions belong to C14)",
                         "allow_deep_reorgs (testnet default) is explored off and on, with nothing / one header / a full "
                         "window remembered; in deep-reorg mode (nothing remembered) the reference takes the supplied "
                         "previous headers as the record of the previous block, as the flag's contract says: a removal "
                         "on a supplied all-zero filter header is accepted without a proof check (counted per run as "
                         "removals_below_window_accepted_on_supplied_zero_filter_header)",
                         "a panic of the code under test is recorded as data, not as a refusal",
                         "TLC and the Json/IOUtils community modules"],
                        time.time() - t0, unknown + known)
    return code


def replay(pid, obj):
    """Re-run a recorded violating request sequence on one real tracker and let TLC judge."""
    rp = obj["replay"]
    binpath = vlib.build("tracker")
    d = vlib.workdir("tracker/replay")
    steps_file, cfgf, st = trk.run_sequences(binpath, rp["cfg"], [rp["requests"]], d)
    tr = trk.trace_tlc(steps_file, cfgf, st.get("max_reorg", 100), INVS, tag="-inv")
    for x in open(steps_file):
        e = json.loads(x)
        print("  %s -> %s" % (json.dumps({k: v for k, v in e["req"].items() if k not in ("need", "probe")}, sort_keys=True),
                              {"ok": e["resp"][0], "err": trk.ERR[e["resp"][1]], "changed": trk.chg_names(e["resp"][2])}))
    if tr["violated"]:
        print("VIOLATION property=%s replay=%s" % (pid, "(reproduced: %s)" % ",".join(tr["violated"])))
        return 1
    print("not reproduced")
    return 0
