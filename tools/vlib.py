"""Shared machinery of the checks: harness build, TLC runner, evidence, findings, verdicts."""
import json
import os
import re
import shutil
import subprocess
import sys
import time

ROOT = os.path.dirname(os.path.dirname(os.path.abspath(__file__)))
SPEC = os.path.join(ROOT, "spec")
# VERIF_HARNESS_DIR: a private copy of the harness (pointing at a private copy of /repo) used only
# for mutation self-tests; the registered checks always use /verif/harness against /repo itself
HARNESS = os.environ.get("VERIF_HARNESS_DIR") or os.path.join(ROOT, "harness")
WORK = os.path.join(ROOT, "work")
EVIDENCE = os.path.join(ROOT, "evidence")
REPLAYS = os.path.join(ROOT, "replays")
TLA_JAR = "/opt/veriftools/tla/tla2tools.jar:/opt/veriftools/tla/CommunityModules-deps.jar"


class ToolError(Exception):
    pass


def log(*a):
    print(*a, file=sys.stderr, flush=True)


def seed():
    try:
        return int(os.environ.get("VERIF_SEED", "1"))
    except ValueError:
        return 1


def workdir(name):
    d = os.path.join(WORK, name)
    shutil.rmtree(d, ignore_errors=True)
    os.makedirs(d, exist_ok=True)
    return d


def sh(cmd, env=None, cwd=None, timeout=None):
    e = dict(os.environ)
    if env:
        e.update({k: str(v) for k, v in env.items()})
    try:
        p = subprocess.run([str(c) for c in cmd], cwd=cwd, env=e, stdout=subprocess.PIPE, stderr=subprocess.STDOUT,
                           timeout=timeout, text=True, errors="replace")
    except subprocess.TimeoutExpired as ex:
        raise ToolError("timeout: %s\n%s" % (" ".join(map(str, cmd)), (ex.stdout or "")[-2000:]))
    return p.returncode, p.stdout


def ensure_lock():
    """The harness workspace resolves against /repo's lock file (offline)."""
    src = "/repo/Cargo.lock"
    dst = os.path.join(HARNESS, "Cargo.lock")
    if not os.path.exists(dst):
        shutil.copy(src, dst)


def build(bin_name, profile_env=None):
    """(Re)build one harness binary against /repo's current working tree."""
    ensure_lock()
    t0 = time.time()
    env = {"CARGO_NET_OFFLINE": "true", "RUSTFLAGS": os.environ.get("VERIF_RUSTFLAGS", "")}
    if not env["RUSTFLAGS"]:
        del env["RUSTFLAGS"]
    if profile_env:
        env.update(profile_env)
    rc, out = sh(["cargo", "build", "--offline", "--quiet", "--bin", bin_name], cwd=HARNESS, env=env,
                 timeout=3600)
    if rc != 0:
        errs = [l for l in out.splitlines() if l.startswith("error")][:5]
        raise ToolError("harness build failed (%s):\n%s\n%s" % (bin_name, "\n".join(errs), out[-3000:]))
    log("[build] %s ok in %.1fs" % (bin_name, time.time() - t0))
    return os.path.join(HARNESS, "target", "debug", bin_name)


def run_bin(path, args, env=None, timeout=3600):
    e = {"RUST_LOG": "off", "RUST_BACKTRACE": "0"}
    if env:
        e.update(env)
    rc, out = sh([path] + [str(a) for a in args], env=e, timeout=timeout)
    if rc != 0:
        raise ToolError("harness %s %s failed rc=%d:\n%s" % (path, args, rc, out[-3000:]))
    last = [l for l in out.splitlines() if l.startswith("{")]
    return json.loads(last[-1]) if last else {}


_INV_RE = re.compile(r"Error: Invariant (\S+) is violated")
_PROP_RE = re.compile(r"Error: (?:Action|Temporal) propert(?:y|ies) (\S+) (?:is|were) violated")
_STATES_RE = re.compile(r"(\d+) states generated, (\d+) distinct states found")
_DEPTH_RE = re.compile(r"depth of the complete state graph search is (\d+)")


def tlc(module, cfg, env=None, workers=8, extra=None, timeout=1800, name=None, java_opts="-Xss1g",
        heap=None):
    """Run TLC on spec/<module>.tla with config file `cfg` (path). Returns a dict."""
    name = name or module
    meta = os.path.join(WORK, "tlc-" + name)
    shutil.rmtree(meta, ignore_errors=True)
    trace = os.path.join(WORK, "trace-" + name + ".json")
    if os.path.exists(trace):
        os.remove(trace)
    cmd = ["java", "-XX:+UseParallelGC"]
    cmd.append("-Xmx" + (heap or "8g"))
    cmd += java_opts.split()
    cmd += ["-cp", TLA_JAR, "tlc2.TLC", "-workers", str(workers), "-metadir", meta, "-cleanup",
            "-noGenerateSpecTE", "-dumpTrace", "json", trace, "-config", cfg]
    cmd += (extra or [])
    cmd.append(os.path.join(SPEC, module + ".tla"))
    t0 = time.time()
    rc, out = sh(cmd, env=env, cwd=SPEC, timeout=timeout)
    shutil.rmtree(meta, ignore_errors=True)
    res = {"rc": rc, "out": out, "wall_s": time.time() - t0, "violated": [], "states": 0, "distinct": 0,
           "depth": 0, "trace": None, "cmd": " ".join(cmd[-8:])}
    res["violated"] = _INV_RE.findall(out) + _PROP_RE.findall(out)
    m = _STATES_RE.findall(out)
    if m:
        res["states"], res["distinct"] = int(m[-1][0]), int(m[-1][1])
    m = _DEPTH_RE.findall(out)
    if m:
        res["depth"] = int(m[-1])
    if os.path.exists(trace):
        try:
            res["trace"] = json.load(open(trace))
        except Exception:
            res["trace"] = None
    ok_end = "Model checking completed. No error has been found." in out or res["violated"] \
        or "Finished in" in out
    hard = [l for l in out.splitlines() if l.startswith("Error:") and "is violated" not in l
            and "were violated" not in l and "behavior up to this point" not in l
            and "The behavior" not in l]
    if (not ok_end) or (hard and not res["violated"]):
        raise ToolError("TLC failed on %s:\n%s" % (module, out[-4000:]))
    return res


def coverage_actions(out):
    """Parse `-coverage` output: {action name: (distinct, total)}"""
    acts = {}
    for m in re.finditer(r"<(\w+) line \d+, col \d+ to line \d+, col \d+ of module (\w+)>: (\d+):(\d+)", out):
        acts[m.group(1)] = (int(m.group(3)), int(m.group(4)))
    return acts


# ------------------------------------------------------------------------------------------
# findings, verdicts, evidence

def known_findings():
    p = os.path.join(ROOT, "known_findings.json")
    if not os.path.exists(p):
        return []
    return json.load(open(p)).get("findings", [])


def write_replay(pid, key, obj):
    os.makedirs(REPLAYS, exist_ok=True)
    safe = re.sub(r"[^A-Za-z0-9_.-]+", "_", key)[:80]
    p = os.path.join(REPLAYS, "%s-%s.json" % (pid, safe))
    with open(p, "w") as f:
        json.dump(obj, f, indent=1, sort_keys=True)
    return p


def verdict(pid, violations):
    """violations: list of {key, what, replay(obj)}.  Prints KNOWN-FINDING / VIOLATION lines.
    Returns (exit_code, n_unknown, n_known)."""
    known = {f["key"]: f for f in known_findings() if f.get("property") == pid and f.get("status") == "known"}
    seen = set()
    unknown = 0
    nknown = 0
    for v in violations:
        if v["key"] in seen:
            continue
        seen.add(v["key"])
        if v["key"] in known:
            print("KNOWN-FINDING: property=%s %s [%s]" % (pid, known[v["key"]].get("what", v["what"]), v["key"]))
            nknown += 1
        else:
            path = write_replay(pid, v["key"], {"property": pid, "key": v["key"], "what": v["what"],
                                                "replay": v.get("replay")})
            print("VIOLATION property=%s replay=%s" % (pid, path))
            log("  key=%s what=%s" % (v["key"], v["what"]))
            unknown += 1
    sys.stdout.flush()
    return (1 if unknown else 0), unknown, nknown


def write_evidence(pid, tier, level, coverage, assumptions, wall_s, violations):
    os.makedirs(EVIDENCE, exist_ok=True)
    ev = {"property_id": pid, "tier": tier, "seed": seed(), "level": level, "coverage": coverage,
          "assumptions": assumptions, "wall_s": round(wall_s, 2), "violations": violations}
    with open(os.path.join(EVIDENCE, pid + ".json"), "w") as f:
        json.dump(ev, f, indent=1, sort_keys=True)
    return ev


def merge_nodes(out_dir, dest):
    """Concatenate the explorer's per-thread files into one file ordered by state id."""
    rows = []
    for fn in sorted(os.listdir(out_dir)):
        if fn.startswith("edges-") and fn.endswith(".ndjson"):
            with open(os.path.join(out_dir, fn)) as f:
                for line in f:
                    if line.strip():
                        rows.append(json.loads(line))
    rows.sort(key=lambda r: r["id"])
    ids = [r["id"] for r in rows]
    if ids != list(range(len(rows))):
        # states discovered but not expanded because of a cap: add empty rows
        have = {r["id"]: r for r in rows}
        n = max(ids) + 1 if ids else 0
        for r in list(rows):
            for e in r["edges"]:
                n = max(n, e["to"] + 1)
        rows = []
        for i in range(n):
            rows.append(have.get(i, {"id": i, "key": "", "pre": None, "expanded": False, "edges": []}))
    with open(dest, "w") as f:
        for r in rows:
            f.write(json.dumps(r) + "\n")
    return rows


def write_cfg(path, text):
    with open(path, "w") as f:
        f.write(text)
    return path
