#!/bin/bash
# Lead-side verification of a seeded change on a private snapshot, so that several can run at once and /repo stays
# clean:  seedpar.sh <round> <PID> <slug> <check> [<check> ...]
# private repo = the seeding worktree /tmp/seed<round>-<PID> (a worktree of /repo at HEAD), private /verif copy with
# the harness pointed at it.  tools/confirm_seeds.py re-runs the catching checks against /repo itself afterwards.
set -e
RND=$1; PID=$2; SLUG=$3; shift 3
SV=/tmp/sv$RND-$PID
rm -rf $SV
rsync -a --exclude work --exclude replays --exclude .git --exclude seeded /verif/ $SV/
sed -i "s#/repo/#/tmp/seed$RND-$PID/#g" $SV/harness/Cargo.toml $SV/harness/lssclient/Cargo.toml $SV/harness/src/bin/auth.rs
SEED_REPO=/tmp/seed$RND-$PID SEED_VERIF=$SV python3 /verif/tools/seedtest.py $PID@$RND $SLUG "$@" > /tmp/seedout$RND/$PID/leadtest.log 2>&1 || true
tail -25 /tmp/seedout$RND/$PID/leadtest.log
rm -rf $SV
