"""Channel enforcement state machine: legs A, B, C shared by C01, C02, C03 (and C10/C11 parts)."""
import json
import os
import re
import time

import vlib
from vlib import SPEC, WORK, log

# behaviour switches of Channel.tla, i.e. what the model says the code does at HEAD
SWITCHES = json.load(open(os.path.join(vlib.ROOT, "spec", "switches.json")))


def _env_switches():
    return {"CH_REVOKE_CHECKS_CLOSED": "true" if SWITCHES["revokeChecksClosed"] else "false",
            "CH_ATOMIC_REVOCATION": "true" if SWITCHES["atomicRevocation"] else "false"}


def _tla_bool(b):
    return "TRUE" if b else "FALSE"


def leg_a(mon, n, invariants, workers=8, props=None, phase="ready", timeout=3000):
    """TLC on the model itself."""
    d = os.path.join(WORK, "chan-a-%s" % mon)
    os.makedirs(d, exist_ok=True)
    cfg = os.path.join(d, "MC_Channel_%s.cfg" % mon)
    text = "SPECIFICATION Spec\nCONSTANTS\n  N = %d\n  RevokeChecksClosed = %s\n  AtomicRevocation = %s\n" \
           "  StartPhase = \"%s\"\n  Mon = \"%s\"\nCONSTRAINT Bound\nVIEW View\nINVARIANTS %s\n%sCHECK_DEADLOCK FALSE\n" % (
               n, _tla_bool(SWITCHES["revokeChecksClosed"]), _tla_bool(SWITCHES["atomicRevocation"]),
               phase, mon, " ".join(invariants), ("PROPERTIES %s\n" % " ".join(props)) if props else "")
    vlib.write_cfg(cfg, text)
    r = vlib.tlc("MC_Channel", cfg, workers=workers, extra=["-coverage", "1"], timeout=timeout,
                 name="mc-channel-" + mon)
    return r


def alphabet(n, contents, side, dest, base=0):
    cfg = os.path.join(SPEC, "ChannelAlphabet.cfg")
    vlib.tlc("ChannelAlphabet", cfg, env={"CH_OUT": dest, "CH_N": n, "CH_CONTENTS": contents, "CH_SIDE": side,
                                          "CH_BASE": base},
             workers=1, timeout=300, name="alphabet")
    return json.load(open(dest))


_EXTRACT_CACHE = {}


def extract(binpath, n, contents, side, phase="ready", threads=16, base=0):
    """Leg B step 1: exhaustive exploration of the implementation's state graph.
    base > 0 (side "deepcp"): the counterparty side starts after `base` honest commitment cycles."""
    key = (n, contents, side, phase, base)
    if key in _EXTRACT_CACHE:
        return _EXTRACT_CACHE[key]
    d = vlib.workdir("chan-b-%s-%s-%s-%d%s" % (side, phase, contents, n, ("-base%d" % base) if base else ""))
    alpha = os.path.join(d, "alphabet.json")
    reqs = alphabet(n, contents, side, alpha, base)
    t0 = time.time()
    stats = vlib.run_bin(binpath, ["explore", "--alphabet", alpha, "--n", n, "--out", os.path.join(d, "ex"),
                                   "--phase", phase, "--threads", threads, "--base", base])
    nodes = os.path.join(d, "nodes.ndjson")
    rows = vlib.merge_nodes(os.path.join(d, "ex"), nodes)
    details = []
    for fn in sorted(os.listdir(os.path.join(d, "ex"))):
        if fn.startswith("details-"):
            with open(os.path.join(d, "ex", fn)) as f:
                details += [json.loads(l) for l in f if l.strip()]
    res = {"dir": d, "alphabet": alpha, "requests": reqs, "nodes": nodes, "stats": stats, "rows": len(rows),
           "details": details, "wall_s": time.time() - t0, "n": n, "side": side, "phase": phase,
           "contents": contents, "base": base}
    log("[chan] explored impl side=%s phase=%s N=%d base=%d: %s in %.1fs" % (side, phase, n, base, stats, res["wall_s"]))
    _EXTRACT_CACHE[key] = res
    return res


def extract_handler(n, threads=16):
    """Leg B at protocol-handler level: real ChannelHandlers (protocol versions 4, 5, 6) over the
    cloud-staged transactional store, vlsd-style enter/handle/prepare/commit per request."""
    key = ("handler", n)
    if key in _EXTRACT_CACHE:
        return _EXTRACT_CACHE[key]
    binpath = vlib.build("hand")
    d = vlib.workdir("chan-h-%d" % n)
    alpha = os.path.join(d, "alphabet.json")
    reqs = alphabet(n, "full", "handler", alpha)
    t0 = time.time()
    stats = vlib.run_bin(binpath, ["explore", "--alphabet", alpha, "--n", n, "--out", os.path.join(d, "ex"),
                                   "--threads", threads], timeout=3000)
    nodes = os.path.join(d, "nodes.ndjson")
    rows = vlib.merge_nodes(os.path.join(d, "ex"), nodes)
    details = []
    for fn in sorted(os.listdir(os.path.join(d, "ex"))):
        if fn.startswith("details-"):
            with open(os.path.join(d, "ex", fn)) as f:
                details += [json.loads(l) for l in f if l.strip()]
    res = {"dir": d, "alphabet": alpha, "requests": reqs, "nodes": nodes, "stats": stats, "rows": len(rows),
           "details": details, "wall_s": time.time() - t0, "n": n, "side": "handler", "phase": "ready",
           "contents": "full"}
    log("[chan] explored real protocol handlers N=%d: %s in %.1fs" % (n, stats, res["wall_s"]))
    _EXTRACT_CACHE[key] = res
    return res


def impl_tlc(ex, mon, invariants, workers=8, timeout=3000):
    """Leg B step 2: TLC on the extracted implementation graph (conformance + monitors)."""
    d = ex["dir"]
    cfg = os.path.join(d, "impl_%s.cfg" % mon)
    vlib.write_cfg(cfg, "SPECIFICATION Spec\nVIEW View\n%sCHECK_DEADLOCK FALSE\n" % (
        ("INVARIANTS %s\n" % " ".join(invariants)) if invariants else ""))
    report = os.path.join(d, "report_%s.json" % mon)
    env = {"CH_MON": mon, "CH_ALPHABET": ex["alphabet"], "CH_NODES": ex["nodes"], "CH_REPORT": report,
           "CH_BASE": ex.get("base", 0)}
    env.update(_env_switches())
    r = vlib.tlc("ImplChannel", cfg, env=env, workers=workers, timeout=timeout, name="impl-channel-" + mon)
    r["report"] = json.load(open(report))
    return r


def trace_requests(trace):
    """request sequence of a TLC counterexample of ImplChannel / MC_Channel"""
    seq = []
    if not trace:
        return seq
    for step in trace["counterexample"]["action"]:
        st = step[2][1]
        last = st.get("last", {})
        if "req" in last:
            seq.append({"req": last["req"], "ok": last.get("ok"), "sec": last.get("sec")})
        elif "r" in last:
            seq.append({"req": last["r"], "ok": last.get("ok")})
    return seq


def seq_key(inv, seq):
    """canonical key of a violating history: failed monitor + request kinds with numbers made
    relative to the last request's number"""
    if not seq:
        return inv + ":<empty>"
    base = seq[-1]["req"].get("n", 0)
    parts = []
    for s in seq:
        r = s["req"]
        p = r["op"]
        if "n" in r:
            p += "(%+d)" % (r["n"] - base)
        if not s.get("ok", True):
            p += "!"
        parts.append(p)
    return inv + ":" + ";".join(parts)


def run_sequences(binpath, seqs, n, out, phase="ready"):
    """Leg C: replay request sequences through the real implementation."""
    d = os.path.dirname(out)
    sf = os.path.join(d, "seqs.ndjson")
    with open(sf, "w") as f:
        for s in seqs:
            f.write(json.dumps(s) + "\n")
    return vlib.run_bin(binpath, ["run", "--seqs", sf, "--n", n, "--out", out, "--phase", phase])


def simulate(n, num, depth, seed, dest_dir):
    """TLC simulation of the model: `num` behaviours of `depth` requests each (as request lists)."""
    cfg = os.path.join(dest_dir, "SimChannel.cfg")
    out = os.path.join(dest_dir, "sim.ndjson")
    if os.path.exists(out):
        os.remove(out)
    vlib.write_cfg(cfg, "SPECIFICATION Spec\nCONSTANTS\n  N = %d\n  RevokeChecksClosed = %s\n  AtomicRevocation = %s\n"
                        "  Depth = %d\nINVARIANTS Emit\nCHECK_DEADLOCK FALSE\n" % (
                            n, _tla_bool(SWITCHES["revokeChecksClosed"]), _tla_bool(SWITCHES["atomicRevocation"]), depth))
    r = vlib.tlc("SimChannel", cfg, env={"CH_SIM_OUT": out}, workers=1,
                 extra=["-simulate", "num=%d" % num, "-depth", str(depth + 2), "-seed", str(seed)],
                 timeout=1800, name="sim-channel")
    # TLC evaluates the invariant on every candidate successor of the last step: keep one
    # sequence per simulated behaviour (= per distinct prefix)
    seqs = []
    seen = set()
    for m in re.finditer(r'^<<"SIM", "(.*)">>$', r["out"], re.M):
        sq = json.loads(json.loads('"' + m.group(1) + '"'))
        k = json.dumps(sq[:-1], sort_keys=True)
        if k not in seen:
            seen.add(k)
            seqs.append(sq)
    return seqs, r


def trace_tlc(steps_file, mon, invariants, timeout=1800):
    """Leg C step 2: TLC validates recorded implementation steps (conformance + monitors)."""
    d = os.path.dirname(steps_file)
    cfg = os.path.join(d, "trace_%s.cfg" % mon)
    vlib.write_cfg(cfg, "SPECIFICATION Spec\n%sCHECK_DEADLOCK FALSE\n" % (
        ("INVARIANTS %s\n" % " ".join(invariants)) if invariants else ""))
    report = os.path.join(d, "trace_report_%s.json" % mon)
    env = {"CH_MON": mon, "CH_STEPS": steps_file, "CH_REPORT": report}
    env.update(_env_switches())
    r = vlib.tlc("TraceChannel", cfg, env=env, workers=1, timeout=timeout, name="trace-channel-" + mon)
    r["report"] = json.load(open(report))
    return r


def holder_abs_proof_and_refinement(n, workers=8):
    """C01/C02 beyond the bound: (1) TLAPS proves the inductive invariant of HolderAbs.tla (all
    commitment numbers) and that it implies C01 and C02; (2) TLC checks that Channel.tla with the
    ghost monitor "all" refines HolderAbs (every step is a HolderAbs step or a stutter)."""
    t0 = time.time()
    obligations = 0
    for mod in ("HolderAbs.tla", "CpAbs.tla"):
        rc, out = vlib.sh(["tlapm", "--threads", "8", "--cleanfp", mod], cwd=SPEC, timeout=1200)
        m = re.search(r"All (\d+) obligations? proved", out)
        if not m:
            raise vlib.ToolError("tlapm did not prove %s:\n%s" % (mod, out[-3000:]))
        obligations += int(m.group(1))
    d = os.path.join(WORK, "chan-a-refine")
    os.makedirs(d, exist_ok=True)
    cfg = os.path.join(d, "refine.cfg")
    vlib.write_cfg(cfg, "SPECIFICATION Spec\nCONSTANTS\n  N = %d\n  RevokeChecksClosed = %s\n  AtomicRevocation = %s\n"
                        "  StartPhase = \"ready\"\n  Mon = \"all\"\nCONSTRAINT Bound\nVIEW View\nINVARIANTS C01 C02\n"
                        "PROPERTIES RefinesHolderAbs RefinesCpAbs\nCHECK_DEADLOCK FALSE\n" % (
                            n, _tla_bool(SWITCHES["revokeChecksClosed"]), _tla_bool(SWITCHES["atomicRevocation"])))
    r = vlib.tlc("MC_Channel", cfg, workers=workers, timeout=3000, name="mc-channel-refine")
    return {"tlaps_obligations": obligations, "tlaps_discharged": obligations,
            "refinement_N": n, "refinement_states": r["distinct"], "refinement_transitions": r["states"],
            "refinement_violated": r["violated"], "wall_s": round(time.time() - t0, 1),
            "checker_cmd": "tlapm --threads 8 --cleanfp spec/HolderAbs.tla spec/CpAbs.tla ; tlc MC_Channel (PROPERTIES RefinesHolderAbs RefinesCpAbs)"}
