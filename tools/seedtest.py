#!/usr/bin/env python3
"""Lead-side verification of a seeded change: seedtest.py <PID> <slug> <check> [<check> ...]
1. in the seeding worktree /tmp/seed-<PID>: clean tree, apply patch + demo, run the crate's tests
   (existing tests must pass, the demo must fail), revert the patch, the demo must pass;
2. apply the patch to /repo, run the named checks (quick), undo;
3. store patch, demo, meta (+ what was observed) under /verif/seeded/<PID>-<slug>/."""
import json, os, re, subprocess, sys, shutil
pid, slug, checks = sys.argv[1], sys.argv[2], sys.argv[3:]
# SEED_REPO / SEED_VERIF: run against a private snapshot of /repo and a private copy of /verif (used while a long
# run occupies /repo); the stored result says so and is confirmed against /repo itself afterwards
REPO = os.environ.get("SEED_REPO", "/repo")
VERIF = os.environ.get("SEED_VERIF", "/verif")
rnd = ""
if "@" in pid:
    pid, rnd = pid.split("@")
wt = "/tmp/seed%s-%s" % (rnd, pid)
out = "/tmp/seedout%s/%s" % (rnd, pid)
meta = json.load(open(out + "/meta.json"))
def sh(cmd, cwd=None, timeout=3600):
    p = subprocess.run(cmd, shell=True, cwd=cwd, stdout=subprocess.PIPE, stderr=subprocess.STDOUT, text=True, timeout=timeout)
    return p.returncode, p.stdout
res = {}
sh("git reset -q --hard HEAD && git clean -fdq -e target", cwd=wt)
rc, o = sh("git apply %s/patch.diff && git apply %s/demo.diff" % (out, out), cwd=wt)
assert rc == 0, o
demo_cmd = meta["demo_cmd"]
pkg = re.search(r"-p (\S+)", demo_cmd).group(1)
extra = " --features redb-kvv" if pkg == "vls-persist" else ""
full_cmd = "CARGO_TARGET_DIR=%s/target cargo test --offline -p %s%s 2>&1" % (wt, pkg, extra) if "--test " in demo_cmd else \
           "CARGO_TARGET_DIR=%s/target cargo test --offline -p %s --lib 2>&1" % (wt, pkg)
rc, o = sh(full_cmd, cwd=wt)
results = re.findall(r"test result: (\w+)\. (\d+) passed; (\d+) failed", o)
failed = re.findall(r"^test (\S+) \.\.\. FAILED", o, re.M)
res["with_patch"] = {"results": results, "failed_tests": failed}
sh("git apply -R %s/patch.diff" % out, cwd=wt)
rc2, o2 = sh(demo_cmd + " 2>&1", cwd=wt)
res["without_patch_demo"] = re.findall(r"test result: (\w+)\. (\d+) passed; (\d+) failed", o2)
print(json.dumps(res, indent=1))
ok_existing = all(("seeded" in f or "demo" in f) for f in failed) and len(failed) >= 1
ok_demo_pass = rc2 == 0
print("existing tests pass & only demo fails with patch:", ok_existing, "| demo passes without patch:", ok_demo_pass)
chk = {}
rc, o = sh("git -C %s apply %s/patch.diff" % (REPO, out))
assert rc == 0, o
try:
    for c in checks:
        rc, o = sh("./check %s --tier quick 2>&1" % c, cwd=VERIF, timeout=3600)
        open(out + "/check-%s.log" % c, "w").write(o)
        v = [l for l in o.splitlines() if l.startswith("VIOLATION") or l.startswith("KNOWN-FINDING") or l.strip().startswith("key=")]
        chk[c + " quick"] = {"exit": rc, "lines": [x[:400] for x in v[:8]]}
        print(c, "exit", rc); print("\n".join(x[:300] for x in v[:6]))
finally:
    print(sh("git -C %s checkout -- . && git -C %s status --short" % (REPO, REPO))[1])
    sh("rm -rf %s/replays/*" % VERIF)
d = "/verif/seeded/%s-%s" % (pid, slug)
os.makedirs(d, exist_ok=True)
for f in ("patch.diff", "demo.diff"):
    shutil.copy(out + "/" + f, d + "/" + f)
meta["lead_verification"] = {"seeding_worktree": res, "existing_tests_pass_only_demo_fails_with_patch": ok_existing,
                             "demo_passes_without_patch": ok_demo_pass, "checks_run": chk, "applied_to": REPO,
                             "caught": any(v["exit"] == 1 for v in chk.values())}
json.dump(meta, open(d + "/meta.json", "w"), indent=1)
