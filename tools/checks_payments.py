"""C06: approved invoices are never overpaid in flight; unbacked payments are refused.
Decided by Payments.tla: leg A (TLC on the model), leg B (TLC on the state graph extracted from a real node
with several funded channels: conformance of every edge with Step + product with the ghost ledger),
leg C (TLC-simulated behaviours over a large alphabet replayed on fresh real nodes, validated by TLC)."""
import json
import os
import time

import payments
import vlib
from vlib import log

PROPERTIES = ["C06"]

# the known class of defect (hypothesis 2 of DESIGN.md section 6): named by its class, see payments.seq_key
STALE = "revoke-applies-stale-validation"

#            leg A configurations      leg B (cfg, fee, pct)                                leg C (name, fee, pct, num, depth)
TIERS = {
    # ("vel" / "velx" / "sim2v": the node's policy has a finite payment velocity limit - the configuration names it -
    #  so that approvals are DECLINED by add_invoice / add_keysend once the window is full)
    "quick": {"a": [("pay", 0, 10), ("route", 0, 10), ("issue", 0, 10), ("vel", 0, 10)],
              "b": [("pay", 0, 10), ("route", 0, 10), ("pay", 1, 100), ("issue", 0, 10), ("vel", 0, 10)],
              "c": [("sim2", 0, 10, 40, 40), ("sim2v", 0, 10, 12, 40)]},
    "thorough": {"a": [("pay", 0, 10), ("route", 0, 10), ("loop", 0, 10), ("three", 0, 10), ("parts", 0, 10),
                       ("pay", 1, 100), ("route", 1, 100), ("issuex", 0, 10), ("vel", 0, 10), ("velx", 0, 10)],
                 "b": [("pay", 0, 10), ("route", 0, 10), ("pay", 1, 100), ("pay", 1, 10), ("route", 1, 100),
                       ("loop", 0, 10), ("three", 0, 10), ("parts", 0, 10), ("issue", 0, 10), ("issuex", 0, 10),
                       ("vel", 0, 10), ("velx", 0, 10)],
                 "c": [("sim2", 0, 10, 150, 50), ("sim3", 0, 10, 100, 50), ("sim2", 1, 100, 100, 50),
                       ("sim2v", 0, 10, 100, 50)]},
}


def _private():
    """A mutation self-test (VERIF_HARNESS_DIR set) must not leave replays / evidence in the registered places."""
    if payments.PRIVATE:
        vlib.REPLAYS = os.path.join(vlib.WORK, "payments", "private-replays")
        vlib.EVIDENCE = os.path.join(vlib.WORK, "payments", "private-evidence")


def _assumed_known():
    """self-test only: keys to treat like entries of known_findings.json (the registered check never does)"""
    if not payments.PRIVATE:
        return set()
    return set(k for k in os.environ.get("PM_ASSUME_KNOWN", "").split(",") if k)


def _vlim(item):
    """the payment velocity limit of the policy a configuration / sequence item / replay names (0 = unlimited)"""
    return item.get("vlim", 0)


def _confirm(binpath, item, fee, pct, name):
    """re-execute a violating request sequence on a fresh real node and let TLC judge the recorded steps"""
    d = payments.wd("confirm-" + name)
    steps = os.path.join(d, "steps.ndjson")
    payments.run_sequences(binpath, [item], steps, fee, pct)
    tr = payments.trace_tlc(steps, "ab", fee, pct, "", invs=["C06a", "C06b"], vlim=_vlim(item))
    return tr["violated"], [json.loads(x) for x in open(steps)]


def _violation(binpath, inv, cls, seq, ex_or_item, fee, pct, where):
    reqs = [s["req"] for s in seq]
    item = {"chans": ex_or_item["chans"], "hashes": ex_or_item["hashes"], "reqs": reqs, "vlim": _vlim(ex_or_item)}
    violated, steps = _confirm(binpath, item, fee, pct, "x")
    if not violated:
        raise vlib.ToolError("a violating history found by %s does not reproduce on a fresh node: %s" % (
            where, payments.describe(seq)))
    seq2 = [{"req": s["req"], "ok": s["resp"]["ok"], "flag": s["resp"]["flag"]} for s in steps]
    key = payments.seq_key(inv, seq2, cls)
    what = "%s fails on the real node after: %s" % (violated[0], payments.describe(seq2))
    if cls == STALE:
        what = ("a revocation applies to the ledger a holder commitment that was validated against an older ledger: "
                "more in flight than invoice + incoming + allowance after: %s" % payments.describe(seq2))
    if item["vlim"]:
        what += " [policy: payment velocity limit of %d unit(s) per window]" % item["vlim"]
    what += " [found by %s]" % where
    return {"key": key, "what": what,
            "replay": {"kind": "payments-seq", "chans": item["chans"], "hashes": item["hashes"], "fee": fee, "pct": pct,
                       "vlim": item["vlim"], "requests": reqs, "found_by": where}}


def run(pid, tier):
    _private()
    t0 = time.time()
    plan = TIERS[tier]
    binpath = vlib.build("payments")
    sw = payments.SWITCHES
    violations, divergences, notes = [], [], []
    truncated = False
    cov = {"legs": {}}
    tot_states = tot_trans = tot_edges = 0
    samples = []

    # ---- leg A: the model itself, with the switch as the code behaves and as repaired
    for cfg, fee, pct in plan["a"]:
        for rv in sorted({sw["revokeValidates"], True}):
            a = payments.leg_a(cfg, fee, pct, rv, "ab", ["C06a", "C06b", "TypeOK"], props=["Frame"])
            cov["legs"]["A_model_%s_fee%d_%s" % (cfg, fee, "repaired" if rv and not sw["revokeValidates"] else "as_code")] = {
                "states": a["distinct"], "transitions": a["states"], "depth": a["depth"], "violated": a["violated"],
                "wall_s": round(a["wall_s"], 1)}
            tot_states += a["distinct"]
            tot_trans += a["states"]
            if a["violated"]:
                seq = payments.trace_requests(a["trace"])
                txt = "leg A: the MODEL (%s, revokeValidates=%s) violates %s: %s" % (cfg, rv, a["violated"], payments.describe(seq))
                log("[C06] " + txt + " (a hypothesis about the code; leg B decides)")
                notes.append(txt)

    # ---- leg B: state graph of the real node
    for cfg, fee, pct in plan["b"]:
        ex = payments.explore(binpath, cfg, fee, pct, max_states=30000 if tier == "quick" else 120000)
        truncated = truncated or ex["truncated"]
        tag = "B_impl_%s_fee%d_pct%d" % (cfg, fee, pct)
        r1 = payments.impl_tlc(ex, "ab", "stale-revoke", ["C06a", "C06b"], True)
        rep = r1["report"]
        leg = {"impl_states": rep["nodes"], "impl_edges": rep["edges"], "accepted_edges": rep["accepted"],
               "requests_in_alphabet": len(ex["requests"]), "spec_divergences": rep["ndivergent"],
               "impl_stricter": rep["impl_stricter"], "impl_laxer": rep["impl_laxer"],
               "refused_but_changed": len(rep["frame_bad"]), "stale_revoke_edges": rep["stale_revoke_edges"],
               "states_with_value_in_flight_for_an_approved_hash": rep["in_flight_states"],
               "states_on_the_bound": rep["on_bound_states"], "states_routing": rep["routed_states"],
               "states_with_pending_holder_commitment": rep["pending_states"],
               "product_states": r1["distinct"], "product_transitions": r1["states"], "violated": list(r1["violated"]),
               "refusal_kinds": ex["stats"].get("refusals", {}), "explore_wall_s": round(ex["wall_s"], 1)}
        tot_states += r1["distinct"]
        tot_trans += r1["states"]
        tot_edges += rep["edges"]
        divergences += [dict(run=tag, **d) for d in rep["divergences"][:6]]
        if rep["in_flight_states"] == 0:
            raise vlib.ToolError("vacuous exploration: no state of %s puts value in flight for an approved hash" % tag)
        if r1["violated"]:
            seq = payments.trace_requests(r1["trace"])
            violations.append(_violation(binpath, r1["violated"][0], None, seq, ex, fee, pct, tag))
        if rep["stale_revoke_edges"] > 0:
            r2 = payments.impl_tlc(ex, "a", "", ["C06aStale"], False)
            leg["stale_class_product_states"] = r2["distinct"]
            tot_states += r2["distinct"]
            tot_trans += r2["states"]
            if r2["violated"]:
                leg["violated"].append("C06a@stale-revocation")
                seq = payments.trace_requests(r2["trace"])
                violations.append(_violation(binpath, "C06a", STALE, seq, ex, fee, pct, tag))
        cov["legs"][tag] = leg
        if not samples:
            samples = _samples(ex)
        for dt in ex["details"][:3]:
            notes.append("%s: %s" % (tag, json.dumps(dt)[:400]))

    # ---- leg C: simulated model behaviours over the large alphabet, replayed and validated
    csteps = 0
    for name, fee, pct, num, depth in plan["c"]:
        d = payments.wd("c-%s-f%d" % (name, fee))
        seqs, sim = payments.simulate(name, fee, pct, num, depth, vlib.seed(), d)
        steps_file = os.path.join(d, "steps.ndjson")
        rs = payments.run_sequences(binpath, seqs, steps_file, fee, pct)
        vlim = _vlim(seqs[0]) if seqs else 0
        t1 = payments.trace_tlc(steps_file, "ab", fee, pct, "stale-revoke", invs=["C06a", "C06b"], vlim=vlim)
        trep = t1["report"]
        tag = "C_sim_%s_fee%d_pct%d" % (name, fee, pct)
        leg = {"behaviours": rs.get("sequences", 0), "steps": trep["steps"], "accepted_steps": trep["accepted"],
               "state_changing_steps": trep["changed"], "stale_revoke_steps": trep["stale_steps"],
               "steps_with_value_in_flight_for_an_approved_hash": trep["in_flight_steps"],
               "spec_divergences": trep["ndivergent"], "broken": trep["broken"], "violated": list(t1["violated"]),
               "payment_velocity_limit": vlim,
               "approval_requests_answered_false": sum(1 for x in open(steps_file) if '"flag":0' in x.replace(" ", ""))}
        csteps += trep["steps"]
        tot_states += t1["distinct"]
        tot_trans += t1["states"]
        divergences += [dict(run=tag, **{k: x[k] for k in ("seq", "step", "req", "resp", "pre", "post", "expected")})
                        for x in trep["divergences"][:6]]
        allsteps = None
        runs = [(t1, None)]
        if trep["stale_steps"] > 0:
            t2 = payments.trace_tlc(steps_file, "a", fee, pct, "", invs=["C06aStale"], vlim=vlim)
            runs.append((t2, STALE))
            tot_states += t2["distinct"]
            tot_trans += t2["states"]
        for tr, cls in runs:
            if not tr["violated"]:
                continue
            if cls:
                leg["violated"].append("C06a@stale-revocation")
            allsteps = allsteps or [json.loads(x) for x in open(steps_file)]
            line = tr["trace"]["counterexample"]["action"][-1][2][1]["l"] - 1
            e = allsteps[line - 1]
            seq = [{"req": x["req"], "ok": x["resp"]["ok"]} for x in allsteps if x["seq"] == e["seq"] and x["step"] <= e["step"]]
            seq = _minimise(binpath, seqs[e["seq"]], seq, fee, pct, cls)
            inv = "C06a" if cls else tr["violated"][0]
            violations.append(_violation(binpath, inv, cls, seq, seqs[e["seq"]], fee, pct, tag))
        cov["legs"][tag] = leg

    # ---- leg D: pairs of requests executed concurrently under imposed schedules (shared with C20): C06 reports
    #      an overpayment / unbacked payment that is reached only concurrently; non-linearizable outcomes as
    #      such are C20's business and are only counted here
    cviol, ccov, cruns = payments.conc_component(tier)
    cov["legs"]["D_concurrent_pairs"] = ccov["atomicity_payment_ledger"]
    cov["legs"]["D_concurrent_pairs_enforce_balance"] = ccov.get("atomicity_payment_ledger_enforce", {})
    violations += [v for v in cviol if v["key"].startswith("C06")]
    if any(not v["key"].startswith("C06") for v in cviol):
        notes.append("concurrency leg: %d non-linearizable / stuck outcomes (reported by C20): %s" % (
            sum(1 for v in cviol if not v["key"].startswith("C06")),
            sorted(set(v["key"] for v in cviol if not v["key"].startswith("C06")))[:6]))

    # ---- verdict
    assumed = _assumed_known()
    shown = []
    said = set()
    for v in violations:
        if v["key"] in assumed:
            if v["key"] in said:
                continue
            said.add(v["key"])
            print("KNOWN-FINDING: property=%s (assumed known for this self-test) %s [%s]" % (pid, v["what"][:160], v["key"]))
        else:
            shown.append(v)
    code, unknown, known = vlib.verdict(pid, shown)
    if divergences:
        log("[%s] NOTE: %d recorded implementation steps are not steps of Payments.tla (the specification needs "
            "updating; not a property violation)" % (pid, len(divergences)))
    cov.update({
        "states": max(1, tot_states), "transitions": max(1, tot_trans),
        "traces_validated_against_impl": tot_edges + csteps + cruns, "concurrent_runs_judged": cruns,
        "impl_edges_checked_against_Step": tot_edges, "replayed_simulation_steps": csteps,
        "samples": samples or [{"note": "no accepted edge"}],
        "exhaustive": not truncated,
        "spec_divergences": divergences[:30],
        "notes": notes[:20],
        "switches": sw,
        "explanation": "TLC (a) model-checks Payments.tla with the behaviour switch as the code is and as repaired, (b) loads "
                       "the state graph extracted from a real node with two or three funded channels (every request of the "
                       "TLC-generated alphabet on every reachable state; states re-created by re-executing their request "
                       "path, real restarts included), checks every edge against Step and explores the product of that "
                       "graph with the ghost ledger of C06 (clauses a and b), (c) validates TLC-simulated behaviours over "
                       "the large alphabet (45 contents, 2 hashes, invoices/keysends/ticks/restarts) replayed on fresh real "
                       "nodes.  Configurations vel / velx / sim2v run the node under a finite payment velocity limit "
                       "(policy global_velocity_control), so that approvals are declined by the node itself (Ok(false)) and "
                       "the hash of a declined / refused / expired approval is then offered in outgoing HTLCs.  The known class (a revocation applies a holder commitment validated against an older ledger) "
                       "is judged in a separate run so that it cannot hide other violations.",
    })
    vlib.write_evidence(pid, tier, "model_checking", cov,
                        ["amounts are multiples of one unit (10 000 sat); the routing-fee allowance is 0 (default policy: "
                         "222 sat < one unit) or one unit; max_feerate_percentage 10 or 100",
                         "payment velocity: unlimited (default policy) or 1-2 units per hourly window; the clock moves only by "
                         "the Tick request (3 days: past every prune time and the whole velocity window)",
                         "policy default enforce_balance = false (the excess_amount register is not exercised)",
                         "commitment numbers are abstracted: the harness presents the next number (and the counterparty "
                         "revocation before the next counterparty commitment); retries present the current one",
                         "all HTLC expiries are valid and satisfy the cltv delta between incoming and outgoing",
                         "small scope: 2-3 channels, 1-2 payment hashes, <= 2 HTLCs per commitment, amounts 1..3 units",
                         "counterparty signatures come from the repository's test_utils (checked by the code under test)",
                         "TLC and the Json/IOUtils community modules"],
                        time.time() - t0, unknown + known + (len(violations) - len(shown)))
    return code


def _samples(ex, k=3):
    out = []
    with open(ex["nodes"]) as f:
        for line in f:
            row = json.loads(line)
            for e in row["e"]:
                r = ex["requests"][e[1] - 1]
                if e[2] == 1 and e[0] != row["id"] and r["op"] in ("SignCp", "Revoke") and any(
                        v["amt"] > 0 for v in row["pre"]["inv"].values()):
                    out.append({"state": row["pre"], "request": r, "accepted": True, "to_state": e[0]})
                    break
            if len(out) >= k:
                break
    return out


def _minimise(binpath, item, seq, fee, pct, cls):
    """delta-debugging by re-execution: drop chunks of requests while the same monitor still fails on a fresh real
    node; all candidates of a round are executed in one harness run and judged in one TLC run"""
    reqs = [s["req"] for s in seq]

    def failing(cands):
        d = payments.wd("min")
        steps = os.path.join(d, "steps.ndjson")
        payments.run_sequences(binpath, [{"chans": item["chans"], "hashes": item["hashes"], "reqs": c, "vlim": _vlim(item)}
                                         for c in cands], steps, fee, pct)
        tr = payments.trace_tlc(steps, "ab", fee, pct, "", invs=[], judge="stale" if cls else "any", vlim=_vlim(item))
        return set(tr["report"]["bad_seqs"])

    k = max(1, len(reqs) // 2)
    rounds = 0
    while rounds < 30 and len(reqs) > 1:
        rounds += 1
        cands = [reqs[:i] + reqs[i + k:] for i in range(0, len(reqs), k)]
        cands = [c for c in cands if c]
        bad = failing(cands)
        if bad:
            reqs = cands[min(bad)]
            k = max(1, min(k, len(reqs) // 2))
        elif k == 1:
            break
        else:
            k = max(1, k // 2)
    return [{"req": r, "ok": True} for r in reqs]


def replay(pid, obj):
    """Re-run a recorded violating request sequence on a fresh real node and let TLC judge."""
    _private()
    rp = obj["replay"]
    if rp.get("kind") == "payments-conc":
        return payments.conc_replay(pid, rp)
    binpath = vlib.build("payments")
    d = payments.wd("replay")
    steps = os.path.join(d, "steps.ndjson")
    payments.run_sequences(binpath, [{"chans": rp["chans"], "hashes": rp["hashes"], "reqs": rp["requests"],
                                      "vlim": _vlim(rp)}], steps, rp["fee"], rp["pct"])
    tr = payments.trace_tlc(steps, "ab", rp["fee"], rp["pct"], "", invs=["C06a", "C06b"], vlim=_vlim(rp))
    for x in open(steps):
        e = json.loads(x)
        print("  %s -> %s" % (json.dumps(e["req"], sort_keys=True), json.dumps(e["resp"], sort_keys=True)))
    if tr["violated"]:
        print("VIOLATION property=%s replay=%s" % (pid, "(reproduced: %s)" % tr["violated"][0]))
        return 1
    print("not reproduced")
    return 0
