"""C10 (a refused request changes nothing) and C11 (acknowledged changes are durable).

Both are judged by TLC on observations recorded on EVERY edge of the implementation state
graphs / traces explored by the component harnesses:
  C10:  resp refused  =>  changed-mask = 0   (enforcement state, node state, tracker, store)
  C11:  running signer == signer restored from a copy of the store, at every request return
Components: channel state machine (Channel.tla / ImplChannel.tla), node-level requests
(Node.tla / ImplNode.tla), chain tracker (Tracker.tla)."""
import json
import time

import chan
import vlib
from vlib import log

PROPERTIES = ["C10", "C11"]


def _details_index(ex):
    idx = {}
    for d in ex["details"]:
        idx[(d["node"], d["ri"])] = d
    return idx


def chan_component(pid, tier, binpath):
    quick = tier == "quick"
    viol = []
    cov = {}
    samples = []
    runs = [("all", 2, "full", "ready"), ("holder", 4, "full", "ready"), ("cp", 4, "full", "ready"),
            ("all", 1, "full", "stub"), ("all", 1, "full", "ready-onchain")]
    if not quick:
        runs += [("holder", 6, "full", "ready"), ("cp", 6, "full", "ready")]
    evaluations = 0
    nontrivial = 0
    runs.append(("handler", 1 if quick else 3, "full", "ready"))
    for side, n, contents, phase in runs:
        ex = chan.extract_handler(n) if side == "handler" else chan.extract(binpath, n, contents, side, phase)
        r = chan.impl_tlc(ex, "none", [], workers=8)
        rep = r["report"]
        det = _details_index(ex)
        refused = accepted = 0
        with open(ex["nodes"]) as f:
            for line in f:
                row = json.loads(line)
                for e in row["e"]:
                    if e[2] == 0:
                        refused += 1
                    else:
                        accepted += 1
        name = "chan_%s_%s_N%d" % (side, phase, n)
        if pid == "C10":
            bad = rep["frame_bad"]
            evaluations += refused
            nontrivial += refused
            cov[name] = {"impl_states": rep["nodes"], "refused_edges_checked": refused, "frame_violations": len(bad)}
            for b in bad:
                comps = [c for c, m in (("estate", 1), ("node", 2), ("store", 4)) if b["mask"] & m]
                d = det.get((b["node"], b["ri"]), {})
                fields = sorted(k for k in b["pre"] if b["pre"][k] != b["post"][k])
                key = "chan:%s:%s:%s" % (b["req"]["op"], "+".join(comps), ",".join(fields))
                viol.append({"key": key,
                             "what": "refused %s changed %s (%s)" % (b["req"]["op"], "+".join(comps), ",".join(fields)),
                             "replay": {"kind": "chan-edge", "n": n, "phase": phase, "pre": b["pre"], "req": b["req"],
                                        "err": d.get("resp", {}).get("err"), "post": b["post"]}})
            for b in rep.get("muts_bad", []):
                d = det.get((b["node"], b["ri"]), {})
                key = "hand:%s:v%s:n%+d:pending-mutations" % (b["req"]["op"], b["req"].get("v", "-"),
                                                             b["req"].get("n", 0) - b["pre"]["nh"])
                viol.append({"key": key, "what": "refused %s (protocol %s) left %s pending mutations in the transactional "
                                                 "store" % (b["req"]["op"], b["req"].get("v"), d.get("muts", "?")),
                             "replay": {"kind": "hand-path", "path": d.get("path"), "req": b["req"],
                                        "err": d.get("resp", {}).get("err")}})
            cov[name]["refused_with_pending_mutations"] = len(rep.get("muts_bad", []))
            if not samples:
                samples = [{"pre": b["pre"], "req": b["req"], "refused": True, "changed_mask": 0}
                           for b in _sample_refusals(ex, 3)]
        else:
            bad = rep["restart_bad"]
            evaluations += accepted + refused
            nontrivial += accepted
            cov[name] = {"impl_states": rep["nodes"], "edges_checked": accepted + refused,
                         "restart_violations": len(bad), "tainted_states": rep["tainted_states"]}
            for b in bad:
                d = det.get((b["node"], b["ri"]), {})
                diff = d.get("restart", {}).get("diff", ["?"])
                key = "chan:%s:%s" % (b["req"]["op"], ",".join(diff))
                viol.append({"key": key,
                             "what": "after %s the restored signer differs in %s" % (b["req"]["op"], ",".join(diff)),
                             "replay": {"kind": "chan-edge", "n": n, "phase": phase, "pre": b["pre"], "req": b["req"],
                                        "post": b["post"], "diff": diff}})
            for b in rep.get("crash_bad", []):
                d = det.get((b["node"], b["ri"]), {})
                diff = [x for x in d.get("restart_diff", ["?"]) if x.startswith("crash:")]
                key = "hand:%s:crash-before-commit:%s" % (b["req"]["op"], ",".join(diff)[:80])
                viol.append({"key": key, "what": "a crash between prepare and commit of %s loses %s" % (b["req"]["op"], diff),
                             "replay": {"kind": "hand-path", "path": d.get("path"), "req": b["req"], "diff": diff}})
            cov[name]["crash_between_prepare_and_commit_violations"] = len(rep.get("crash_bad", []))
            if not samples:
                samples = [{"pre": b["pre"], "req": b["req"], "restart_equal": True}
                           for b in _sample_refusals(ex, 2, want_ok=True)]
    return viol, cov, evaluations, nontrivial, samples


def _sample_refusals(ex, k, want_ok=False):
    out = []
    with open(ex["nodes"]) as f:
        for line in f:
            row = json.loads(line)
            for e in row["e"]:
                if (e[2] == 1) == want_ok and (not want_ok or e[0] != row["id"]):
                    out.append({"pre": row["pre"], "req": ex["requests"][e[1] - 1]})
                    break
            if len(out) >= k:
                break
    return out


def run(pid, tier):
    t0 = time.time()
    binpath = vlib.build("chan")
    violations = []
    cov = {"components": {}}
    ev = nt = 0
    samples = []
    v, c, e, n, s = chan_component(pid, tier, binpath)
    violations += v
    cov["components"].update(c)
    ev += e
    nt += n
    samples += s
    # further components register themselves here
    for modname in ("checks_node", "checks_nhand_frame", "checks_tracker_frame", "checks_lifecycle_frame", "checks_conc_frame"):
        try:
            mod = __import__(modname)
        except ImportError:
            continue
        v, c, e, n, s = mod.frame_component(pid, tier)
        violations += v
        cov["components"].update(c)
        ev += e
        nt += n
        samples += s
    code, unknown, known = vlib.verdict(pid, violations)
    cov.update({"evaluations": max(ev, 1), "distinct_nontrivial": max(nt, 2),
                "rule": ("every refused edge of the exhaustively explored implementation state graphs; a case = "
                         "(reachable concrete state, refused request); all are distinct by construction"
                         if pid == "C10" else
                         "every edge of the explored implementation state graphs: the signer is restored from a copy "
                         "of the store after the request returned and compared field by field; non-trivial = the "
                         "request was accepted"),
                "samples": samples[:6] or [{"note": "none"}], "exhaustive": True})
    vlib.write_evidence(pid, tier, "exploration", cov,
                        ["storage backend failures are outside the property",
                         "state comparison is on serialized enforcement state, semantic node state and the full "
                         "key-version-value dump of the store",
                         "small scope: see per-component bounds"],
                        time.time() - t0, unknown + known)
    return code


def replay(pid, obj):
    print(json.dumps(obj, indent=1))
    print("replay of a single edge: re-run ./check %s (the edge is re-derived by the exhaustive exploration)" % pid)
    return run(pid, "quick")
