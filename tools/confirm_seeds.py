#!/usr/bin/env python3
"""Re-run, against /repo itself, the quick checks of every stored seed whose last verification ran on a private
snapshot (meta.lead_verification.applied_to != /repo): apply patch, run the checks that caught it, revert."""
import json, os, subprocess, sys, glob
ROOT = "/verif"
def sh(cmd, cwd=None, timeout=3600):
    p = subprocess.run(cmd, shell=True, cwd=cwd, stdout=subprocess.PIPE, stderr=subprocess.STDOUT, text=True, timeout=timeout)
    return p.returncode, p.stdout
only = sys.argv[1:]
for d in sorted(glob.glob(ROOT + "/seeded/*")):
    mp = d + "/meta.json"
    m = json.load(open(mp))
    lv = m.get("lead_verification", {})
    if lv.get("applied_to", "/repo") == "/repo" and not lv.get("after_strengthening_unconfirmed"):
        if not only or os.path.basename(d) not in only:
            continue
    if only and os.path.basename(d) not in only:
        continue
    checks = sorted({k.split()[0] for k in lv.get("checks_run", {})} | {k.split()[0] for k in lv.get("after_strengthening", {}).get("checks_run", {})})
    if not checks:
        checks = [m["property"]]
    rc, o = sh("git -C /repo status --short")
    assert o.strip() == "", "/repo not clean: " + o
    rc, o = sh("git -C /repo apply %s/patch.diff" % d)
    assert rc == 0, o
    res = {}
    try:
        for c in checks:
            rc, o = sh("./check %s --tier quick 2>&1" % c, cwd=ROOT)
            keys = [l.strip()[:200] for l in o.splitlines() if l.strip().startswith("key=")]
            res[c + " quick"] = {"exit": rc, "keys": keys[:4]}
    finally:
        sh("git -C /repo checkout -- .")
        sh("find /verif/replays -type f -delete")
    lv["confirmed_on_repo"] = res
    lv["applied_to"] = "/repo"
    lv["caught"] = any(v["exit"] == 1 for v in res.values())
    m["lead_verification"] = lv
    json.dump(m, open(mp, "w"), indent=1)
    print(os.path.basename(d), {k: v["exit"] for k, v in res.items()}, flush=True)
