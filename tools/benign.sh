#!/bin/bash
# benign.sh <area> <n> <check> ... : apply /tmp/benign/<area>/change<n>.diff to a scratch worktree, run the quick
# checks against it on a private /verif copy; every check must exit 0 (a non-breaking change must raise no alarm)
A=$1; N=$2; shift 2
WT=/tmp/ben-$A; SV=/tmp/svb-$A
[ -d $WT ] || git -C /repo worktree add --detach $WT HEAD >/dev/null 2>&1
git -C $WT reset -q --hard HEAD; git -C $WT apply /tmp/benign/$A/change$N.diff || { echo "apply failed"; exit 3; }
rm -rf $SV; rsync -a --exclude work --exclude replays --exclude .git --exclude seeded /verif/ $SV/
sed -i "s#/repo/#$WT/#g" $SV/harness/Cargo.toml $SV/harness/lssclient/Cargo.toml $SV/harness/src/bin/auth.rs
for c in "$@"; do
  (cd $SV && ./check $c --tier quick > /tmp/benign/$A/change$N-$c.log 2>&1; echo "benign $A$N $c exit $?"; grep -E "^VIOLATION|^\s*key=|divergen" /tmp/benign/$A/change$N-$c.log | cut -c1-260 | head -6)
done
