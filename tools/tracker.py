"""Chain tracker (C13): legs A, B, C around Tracker.tla."""
import json
import os
import re
import time

import vlib
from vlib import SPEC, WORK, log

# what the model says the code does at HEAD (see Tracker.tla: K.popFirst / K.keepDecode)
SWITCHES = json.load(open(os.path.join(vlib.ROOT, "spec", "TrackerSwitches.json")))
if os.environ.get("VERIF_TRACKER_SWITCHES"):      # mutation self-tests against a patched private copy
    SWITCHES.update(json.loads(os.environ["VERIF_TRACKER_SWITCHES"]))
INTERVAL = 2016                      # bitcoin::constants::DIFFCHANGE_INTERVAL
ERR = ["", "Orphan", "InvalidChain", "InvalidBlock", "Decode", "TooDeep", "InvalidProof", "panic"]
DEFAULT = {"link": "tip", "pow": "ok", "db": 0, "pf": "good", "att": ["o1", "o2", "o3"]}


def _b(x):
    return "TRUE" if x else "FALSE"


def _set(xs):
    return "{" + ", ".join('"%s"' % x for x in xs) + "}"


def _env(extra=None):
    e = {"TR_INTERVAL": INTERVAL, "TR_POP_FIRST": "true" if SWITCHES["popFirst"] else "false",
         "TR_KEEP_DECODE": "true" if SWITCHES["keepDecode"] else "false"}
    e.update(extra or {})
    return e


def leg_a(name, consts, invariants, pop_first, keep_decode, workers=8, timeout=1500):
    """TLC on the model itself."""
    d = os.path.join(WORK, "tracker", "a-" + name)
    os.makedirs(d, exist_ok=True)
    cfg = os.path.join(d, "MC_Tracker.cfg")
    c = dict(consts)
    text = ("SPECIFICATION Spec\nCONSTANTS\n  Interval = %d\n  MaxReorg = %d\n  Trusted = %s\n  NL = %d\n  H0 = %d\n"
            "  HMax = %d\n  MaxDev = %d\n  Deep = %s\n  PopFirst = %s\n  KeepDecode = %s\nCONSTRAINT Bound\nVIEW View\n"
            "INVARIANTS %s\nCHECK_DEADLOCK FALSE\n" % (
                c["interval"], c["maxreorg"], _set(c["trusted"]), c["nl"], c["h0"], c["hmax"], c["maxdev"],
                _b(c.get("deep", False)), _b(pop_first), _b(keep_decode), " ".join(invariants)))
    vlib.write_cfg(cfg, text)
    return vlib.tlc("MC_Tracker", cfg, workers=workers, extra=["-coverage", "1"], timeout=timeout,
                    name="mc-tracker-" + name)


_ALPHA = {}


def alphabet(maxdev, nl):
    key = (maxdev, nl)
    if key not in _ALPHA:
        d = os.path.join(WORK, "tracker")
        os.makedirs(d, exist_ok=True)
        dest = os.path.join(d, "alphabet-%d-%d.json" % key)
        vlib.tlc("TrackerAlphabet", os.path.join(SPEC, "TrackerAlphabet.cfg"),
                 env={"TR_OUT": dest, "TR_MAXDEV": maxdev, "TR_NL": nl}, workers=1, timeout=600,
                 name="tracker-alphabet")
        _ALPHA[key] = (dest, json.load(open(dest)))
    return _ALPHA[key]


def extract(binpath, name, cfg, maxdev, threads=8, max_states=20000):
    """Leg B step 1: exhaustive exploration of the real tracker's state graph."""
    d = vlib.workdir(os.path.join("tracker", "b-" + name))
    alpha, reqs = alphabet(maxdev, cfg["nl"])
    cfgf = os.path.join(d, "cfg.json")
    json.dump(cfg, open(cfgf, "w"))
    t0 = time.time()
    stats = vlib.run_bin(binpath, ["explore", "--cfg", cfgf, "--alphabet", alpha, "--out", os.path.join(d, "ex"),
                                   "--threads", threads, "--max-states", max_states])
    nodes = os.path.join(d, "nodes.ndjson")
    rows = vlib.merge_nodes(os.path.join(d, "ex"), nodes)
    details = []
    for fn in sorted(os.listdir(os.path.join(d, "ex"))):
        if fn.startswith("details-"):
            with open(os.path.join(d, "ex", fn)) as f:
                details += [json.loads(l) for l in f if l.strip()]
    res = {"dir": d, "name": name, "cfg": cfg, "cfgfile": cfgf, "alphabet": alpha, "requests": reqs, "nodes": nodes,
           "stats": stats, "rows": rows, "details": details, "wall_s": time.time() - t0,
           "maxreorg": stats.get("max_reorg", 100)}
    log("[tracker] explored impl %s: %s in %.1fs" % (name, stats, res["wall_s"]))
    return res


def impl_tlc(ex, invariants, workers=8, timeout=3000, tag="", report=True):
    """Leg B step 2: TLC on the extracted implementation graph (conformance + monitors)."""
    d = ex["dir"]
    cfg = os.path.join(d, "impl%s.cfg" % tag)
    vlib.write_cfg(cfg, "SPECIFICATION Spec\nVIEW View\n%sCHECK_DEADLOCK FALSE\n" % (
        ("INVARIANTS %s\n" % " ".join(invariants)) if invariants else ""))
    report = os.path.join(d, "report%s.json" % tag) if report else None
    env = _env({"TR_NODES": ex["nodes"], "TR_ALPHABET": ex["alphabet"], "TR_CFG": ex["cfgfile"],
                "TR_MAXREORG": ex["maxreorg"], "TR_REPORT": report if report else "-"})
    r = vlib.tlc("ImplTracker", cfg, env=env, workers=workers, timeout=timeout, name="impl-tracker-" + ex["name"] + tag,
                 extra=["-continue"] if invariants else None)
    r["out"] = r["out"][-3000:]
    r["report"] = json.load(open(report)) if report else None
    return r


def paths(rows):
    """shortest accepted-request path (list of request indices) from state 0 to every state"""
    parent = {0: None}
    order = [0]
    i = 0
    while i < len(order):
        n = order[i]
        i += 1
        for e in rows[n]["e"]:
            if e[0] >= 0 and e[0] not in parent and e[0] != n:
                parent[e[0]] = (n, e[1])
                order.append(e[0])
    out = {}
    for n in parent:
        seq = []
        m = n
        while parent[m] is not None:
            seq.append(parent[m][1])
            m = parent[m][0]
        out[n] = list(reversed(seq))
    return out


def deviations(r):
    dev = [k for k in ("link", "pow", "db", "pf", "att") if r[k] != DEFAULT[k]]
    if r.get("t", "same") != "same":
        dev.append("late")
    if r["kind"] != "compact":
        dev.append(r["kind"])
    if r["op"] == "rm" and r["prev"] != "right":
        dev.append("prev=" + r["prev"])
    return dev


def streamed(r):
    return r["kind"].startswith("stream")


def chg_names(mask):
    return "+".join(n for b, n in ((1, "tip"), (2, "win"), (4, "watches"), (8, "monitors")) if mask & b) or "none"


def key_move(d):
    r = d["req"]
    if d["ok"] == 1 and d.get("post_bad"):
        # TLC: the request was allowed, but the tip / height / remembered headers after it are not
        # those of the previous (rm) / new (add) block
        return "C13a:%s:accepted-but-wrong-tip" % r["op"]
    return "C13a:%s:%s:accepted" % (r["op"], ",".join(deviations(r)) or "none") if d["ok"] == 1 else \
        "C13a:%s:tip-moved-without-accept" % r["op"]


def key_frame(d):
    return "C13b:%s:refused-but-changed:%s" % (d["req"]["op"], chg_names(d["chg"]))


def key_later(q, r, ok):
    return "C13c:after-refused-%s%s:%s%s:%s" % (q["op"], "-streamed" if streamed(q) else "", r["op"],
                                                "-streamed" if streamed(r) else "", "panic" if ok == 2 else "refused")


def simulate(consts, num, depth, seed, dest_dir):
    """TLC simulation of the model: `num` behaviours of `depth` requests (as request lists)."""
    cfg = os.path.join(dest_dir, "SimTracker.cfg")
    c = consts
    vlib.write_cfg(cfg, "SPECIFICATION Spec\nCONSTANTS\n  Interval = %d\n  MaxReorg = %d\n  Trusted = %s\n  NL = %d\n"
                        "  H0 = %d\n  PreWin = %d\n  Below = %d\n  Deep = %s\n  TipFh = \"%s\"\n  MaxDev = %d\n"
                        "  PopFirst = %s\n  KeepDecode = %s\n"
                        "  Depth = %d\nINVARIANTS Emit\nCHECK_DEADLOCK FALSE\n" % (
                            c["interval"], c["maxreorg"], _set(c["trusted"]), c["nl"], c["h0"], c["prewin"],
                            c.get("below", 0), _b(c.get("deep", False)),
                            "zero" if c["fh"] == "zero" else "ok", c["maxdev"], _b(SWITCHES["popFirst"]),
                            _b(SWITCHES["keepDecode"]), depth))
    r = vlib.tlc("SimTracker", cfg, workers=1,
                 extra=["-simulate", "num=%d" % num, "-depth", str(depth + 2), "-seed", str(seed)],
                 timeout=1800, name="sim-tracker")
    seqs = []
    seen = set()
    for m in re.finditer(r'^<<"SIM", "(.*)">>$', r["out"], re.M):
        sq = json.loads(json.loads('"' + m.group(1) + '"'))
        k = json.dumps(sq[:-1], sort_keys=True)
        if k not in seen:
            seen.add(k)
            seqs.append(sq)
    r["out"] = r["out"][-2000:]
    return seqs, r


def run_sequences(binpath, cfg, seqs, d):
    """Leg C: replay request sequences on one long-lived real tracker each."""
    cfgf = os.path.join(d, "cfg.json")
    json.dump(cfg, open(cfgf, "w"))
    sf = os.path.join(d, "seqs.ndjson")
    with open(sf, "w") as f:
        for s in seqs:
            f.write(json.dumps(s) + "\n")
    out = os.path.join(d, "steps.ndjson")
    stats = vlib.run_bin(binpath, ["run", "--cfg", cfgf, "--seqs", sf, "--out", out])
    return out, cfgf, stats


def trace_tlc(steps_file, cfgfile, maxreorg, invariants, timeout=1800, tag=""):
    """Leg C step 2: TLC validates the recorded steps (conformance + monitors)."""
    d = os.path.dirname(steps_file)
    cfg = os.path.join(d, "trace%s.cfg" % tag)
    vlib.write_cfg(cfg, "SPECIFICATION Spec\n%sCHECK_DEADLOCK FALSE\n" % (
        ("INVARIANTS %s\n" % " ".join(invariants)) if invariants else ""))
    report = os.path.join(d, "trace_report%s.json" % tag)
    if os.path.exists(report):
        os.remove(report)
    env = _env({"TR_STEPS": steps_file, "TR_CFG": cfgfile, "TR_MAXREORG": maxreorg, "TR_REPORT": report})
    r = vlib.tlc("TraceTracker", cfg, env=env, workers=1, timeout=timeout, name="trace-tracker" + tag)
    r["report"] = json.load(open(report)) if os.path.exists(report) else None
    return r
