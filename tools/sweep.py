"""Sweep / second-level HTLC transaction validation (C09): legs A, B, C around spec/Sweep.tla."""
import json
import os
import re

import vlib
from vlib import SPEC, log

SWITCHES = json.load(open(os.path.join(vlib.ROOT, "spec", "sweep_switches.json")))


def _tla_bool(b):
    return "TRUE" if b else "FALSE"


def leg_a(d, hmax, tier, multi_input, workers=8, timeout=1500):
    """TLC on the model itself: every request of the matrix in every reachable (height, allowlist) state."""
    cfg = os.path.join(d, "MC_Sweep_%s.cfg" % ("multi" if multi_input else "single"))
    vlib.write_cfg(cfg, "SPECIFICATION Spec\nCONSTANTS\n  HMax = %d\n  Tier = \"%s\"\n  SignedInputSeq = %s\n"
                        "  MultiInput = %s\nINVARIANTS C09 TagSound TypeOK\nCHECK_DEADLOCK FALSE\n" % (
                            hmax, tier, _tla_bool(SWITCHES["signedInputSeq"]), _tla_bool(multi_input)))
    return vlib.tlc("MC_Sweep", cfg, workers=workers, timeout=timeout,
                    name="mc-sweep-" + ("multi" if multi_input else "single"))


def model_cex_summary(r):
    """the violating query of a leg-A counterexample (a hypothesis about the code)"""
    if not r.get("trace"):
        return None
    try:
        st = r["trace"]["counterexample"]["state"][-1][1]
        q = st["last"]["q"]
        return {"api": q.get("api"), "ct": q.get("ct"), "input": q.get("input"), "seqs": q.get("seqs"),
                "tag": st["last"]["tag"], "env": st["env"]}
    except Exception:
        return {"note": "counterexample found (trace not parsed)"}


def cases(d, tier):
    """Leg B step 1: the behaviours TLC generates from the matrix."""
    dest = os.path.join(d, "cases.json")
    vlib.tlc("SweepCases", os.path.join(SPEC, "SweepCases.cfg"), env={"SWEEP_OUT": dest, "SWEEP_TIER": tier},
             workers=1, timeout=900, name="sweep-cases")
    return dest


def simulate(d, tier, hmax, num, depth, seed):
    """Leg C step 1: TLC simulation of the model: `num` behaviours of `depth` operations."""
    cfg = os.path.join(d, "SimSweep.cfg")
    vlib.write_cfg(cfg, "SPECIFICATION Spec\nCONSTANTS\n  HMax = %d\n  Tier = \"%s\"\n  Depth = %d\n"
                        "INVARIANTS Emit\nCHECK_DEADLOCK FALSE\n" % (hmax, tier, depth))
    r = vlib.tlc("SimSweep", cfg, workers=1, extra=["-simulate", "num=%d" % num, "-depth", str(depth + 2),
                                                    "-seed", str(seed)], timeout=1500, name="sim-sweep")
    # TLC evaluates the invariant on every candidate successor of the last step: one sequence per prefix
    seqs, seen = [], set()
    for m in re.finditer(r'^<<"SIM", "(.*)">>$', r["out"], re.M):
        sq = json.loads(json.loads('"' + m.group(1) + '"'))
        k = json.dumps(sq[:-1], sort_keys=True)
        if k not in seen:
            seen.add(k)
            seqs.append(sq)
    return seqs


def ctx_of(cases_file):
    return json.load(open(cases_file))["ctx"]


def write_doc(path, ctx, behaviours):
    with open(path, "w") as f:
        json.dump({"ctx": ctx, "behaviours": [{"ops": b} for b in behaviours]}, f)
    return path


def run_impl(binpath, cases_file, log_file):
    """drive the real crates with the generated behaviours; one ndjson record per operation"""
    return vlib.run_bin(binpath, ["run", "--cases", cases_file, "--out", log_file], timeout=3000)


def judge(d, name, cases_file, log_file, workers=1, timeout=2400):
    """TLC re-judges every logged concrete case (ImplSweep): monitor, conformance, coverage."""
    cfg = os.path.join(d, "impl_%s.cfg" % name)
    vlib.write_cfg(cfg, "SPECIFICATION Spec\nINVARIANTS C09\nCHECK_DEADLOCK FALSE\n")
    report = os.path.join(d, "report_%s.json" % name)
    if os.path.exists(report):
        os.remove(report)
    env = {"SWEEP_LOG": log_file, "SWEEP_CASES": cases_file, "SWEEP_REPORT": report,
           "SWEEP_SIGNED_INPUT_SEQ": "true" if SWITCHES["signedInputSeq"] else "false"}
    r = vlib.tlc("ImplSweep", cfg, env=env, workers=workers, timeout=timeout, name="impl-sweep-" + name,
                 heap="6g")
    r["report"] = json.load(open(report))
    return r


_FAMILY = re.compile(r"^(sweep\.sequence|sweep\.locktime)\.\w+$")


def finding_key(v):
    """canonical key of a violating input class: what went wrong, the reference rule(s) that failed
    (sequence / locktime rules without the entry point), the edge class"""
    rules = sorted({_FAMILY.sub(r"\1", r) for r in v["rules"]})
    if v["kind"] == "signature":
        return "signature:%s:%s:%s" % (v["api"], v["resp"].get("sig"), v["resp"].get("typ"))
    return "granted:%s:%s" % ("+".join(rules), v["class"])


def replay_ops(cases_doc, v):
    """environment prefix of the behaviour + the violating request"""
    ops = cases_doc["behaviours"][v["b"] - 1]["ops"]
    pre = [o for o in ops[:v["i"] - 1] if o["op"] != "sign"]
    return pre + [ops[v["i"] - 1]]
