"""Protocol-handler level component of C10 (a refused request changes nothing) and C11 (acknowledged changes are
durable): the node-level requests of Node.tla sent as real protocol messages (NewChannel, SetupChannel +
ValidateCommitmentTx2, ForgetChannel, PreapproveInvoice, PreapproveKeysend, SignWithdrawal, GetHeartbeat) through
vls-protocol-signer's RootHandler / ChannelHandler and its approver, over the cloud-staged transactional store, each
message handled the way vlsd does: enter / handle / prepare / commit.

Judged by TLC (ImplNode.tla, ND_LEVEL = handler) on every edge of the explored implementation state graph:
  C10  reply refused  =>  nothing changed (channels, node state, tracker, store)  AND  prepare() returned no mutations
  C11  a signer restored from the committed local store equals the running one; a signer restored from the local store
       as it was BEFORE commit equals the pre-request signer, with the prepared mutations added the post-request one;
       the id rule (no channel id at or below a forgotten one is created again)
Conformance with Node!HStep is reported (spec_divergences), not judged."""
import json

import nhand
import vlib

PROPERTIES = []


def _fields(d):
    return sorted(set(".".join(x.split(".")[:2]) for x in d.get("changed", [])))


def frame_component(pid, tier):
    if pid not in ("C10", "C11"):
        return [], {}, 0, 0, []
    viol, cov, samples = [], {}, []
    evaluations = nontrivial = 0
    seen = set()

    def add(key, what, replay):
        if key not in seen:
            seen.add(key)
            viol.append({"key": key, "what": what, "replay": replay})

    for name, level, approver, max_chans in nhand.runs(tier):
        ex = nhand.extract(name, level, approver, max_chans)
        rep = ex["report"]
        refused = accepted = with_muts = panics = 0
        with open(ex["nodes"]) as f:
            for line in f:
                row = json.loads(line)
                for e in row["e"]:
                    if e[2] == 0:
                        refused += 1
                        if len(samples) < 2 and e[4] == 0:
                            samples.append({"component": "nhand", "pre": row["pre"], "req": ex["requests"][e[1] - 1],
                                            "refused": True, "changed_mask": e[4], "mutations": e[6]})
                    else:
                        accepted += 1
                        with_muts += 1 if e[6] else 0
        panics = sum(1 for d in ex["details"].values() if str(d.get("resp", {}).get("err", "")).startswith("PANIC"))
        if refused == 0 or with_muts == 0:
            raise vlib.ToolError("vacuous nhand exploration %s: %d refused edges, %d accepted edges with mutations" % (
                name, refused, with_muts))
        cname = "nhand_" + name
        if pid == "C10":
            evaluations += refused
            nontrivial += refused
            bad = {}
            for b in rep["frame_bad"] + rep["muts_bad"]:
                bad[(b["node"], b["ri"])] = b
            for (node, ri), b in sorted(bad.items()):
                d = ex["details"].get((node, ri), {})
                cs = nhand.comps(b["mask"]) + (["pending"] if b["muts"] > 0 else [])
                fields = _fields(d) + nhand.store_kinds(set(d.get("store_changed", [])) | set(d.get("mut_keys", [])))
                key = "nhand:%s:%s:%s" % (nhand.opname(b["req"]), "+".join(cs), ",".join(fields))
                what = "refused %s (%s) changed %s" % (nhand.opname(b["req"]), str(d.get("resp", {}).get("err", ""))[:90],
                                                       ",".join(fields) or "+".join(cs))
                if b["muts"] > 0:
                    what += "; prepare() returned %d mutations %s, which are sent to the cloud and committed" % (
                        b["muts"], nhand.store_kinds(d.get("mut_keys", [])))
                add(key, what, nhand.replay_of(d, b))
            cov[cname] = {"impl_states": rep["nodes"], "edges": rep["edges"], "refused_edges_checked": refused,
                          "frame_violations": len(rep["frame_bad"]), "refused_with_pending_mutations": len(rep["muts_bad"]),
                          "panics": panics, "spec_divergences": len(rep["divergences"]), "approver": approver,
                          "requests": len(ex["requests"])}
        else:
            evaluations += accepted + refused
            nontrivial += accepted
            for b in rep["restart_bad"]:
                d = ex["details"].get((b["node"], b["ri"]), {})
                fields = sorted(set(nhand.norm_path(x) for x in d.get("restart_diff", ["?"])))
                add("nhand:%s:%s" % (nhand.opname(b["req"]), ",".join(fields)),
                    "after %s the signer restored from the committed store differs in %s" % (nhand.opname(b["req"]), ",".join(fields)),
                    dict(nhand.replay_of(d, b), diff=d.get("restart_diff")))
            for b in rep["crash_bad"]:
                d = ex["details"].get((b["node"], b["ri"]), {})
                fields = sorted(set(nhand.norm_path(x) for x in d.get("crash_diff", ["?"])))
                add("nhand:%s:crash-before-commit:%s" % (nhand.opname(b["req"]), ",".join(fields)[:120]),
                    "a crash between prepare and commit of %s: the restored signer differs in %s" % (
                        nhand.opname(b["req"]), ",".join(fields)),
                    dict(nhand.replay_of(d, b), diff=d.get("crash_diff")))
            if ex["tlc"]["violated"]:
                add("nhand:id-reuse", "a channel id at or below a forgotten one was created again",
                    {"kind": "nhand-trace", "trace": ex["tlc"]["trace"]})
            cov[cname] = {"impl_states": rep["nodes"], "edges_checked": accepted + refused,
                          "accepted_edges_with_mutations": with_muts, "restart_violations": len(rep["restart_bad"]),
                          "crash_between_prepare_and_commit_violations": len(rep["crash_bad"]),
                          "tainted_states": rep["tainted_states"], "panics": panics,
                          "spec_divergences": len(rep["divergences"]), "approver": approver, "requests": len(ex["requests"])}
    if pid == "C11":
        samples = [dict(s, restart_equal=True, crash_equal=True) for s in samples[:1]]
    return viol, cov, evaluations, nontrivial, samples
