"""C16: the key-version-value stores never roll back and agree with each other.

Decided by KVV.tla (legs A, B, C):
  A  TLC model-checks the specification of the three backends (MC_KVV)
  B  the state graphs of the REAL MemoryKVVStore + RedbKVVStore (lockstep) and of the REAL
     CloudKVVStore<MemoryKVVStore> are extracted exhaustively over a TLC-generated alphabet; TLC checks
     every edge against the specification and evaluates the C16 monitor clauses on every edge
     (ImplKVV / ImplKVVCloud)
  C  TLC-simulated behaviours over larger alphabets are replayed through the real stores and
     validated as traces (SimKVV / TraceKVV)
A violation is a monitor clause that fails on behaviour observed from the real stores."""
import json
import time

import kvv
import vlib
from vlib import log

PROPERTIES = ["C16"]


def _req_str(r):
    op = r["op"]
    if op == "Batch":
        return "put_batch[%s]" % ", ".join("(%s,%d,%r)" % (e["k"], e["v"], e["x"]) for e in r["es"])
    if op == "PutV":
        return "put_with_version(%s,%d,%r)" % (r["k"], r["v"], r["x"])
    if op == "Put":
        return "put(%s,%r)" % (r["k"], r["x"])
    if op in ("Delete", "Get", "GetVersion"):
        return "%s(%s)" % ({"Delete": "delete", "Get": "get", "GetVersion": "get_version"}[op], r["k"])
    if op == "GetPrefix":
        return "get_prefix(%r)" % r["p"]
    return op.lower()


def _hist_str(hist):
    out = []
    for h in hist:
        resp = ",".join("%s=%s" % (k, v) for k, v in sorted(h.get("resp", {}).items()))
        out.append("%s -> %s" % (_req_str(h["req"]), resp))
    return " ; ".join(out)


def _samples(ex, k=3):
    """a few accepted, state-changing edges of the extracted graph, written out"""
    out = []
    resps = json.load(open(ex["resps"]))
    for row in ex["rows"]:
        for e in row["e"]:
            if e[0] != row["id"] and resps[e[2] - 1][0] == "ok":
                post = ex["rows"][e[0]]
                if ex["kind"] == "pair":
                    out.append({"graph": "memory+redb", "state": {"mem": row["m"]["t"], "redb": row["r"]["t"]},
                                "request": ex["requests"][e[1] - 1],
                                "responses": {"mem": resps[e[2] - 1], "redb": resps[e[3] - 1]},
                                "to_state": {"mem": post["m"]["t"], "redb": post["r"]["t"]}})
                else:
                    out.append({"graph": "cloud", "state": row["o"], "request": ex["requests"][e[1] - 1],
                                "response": resps[e[2] - 1], "to_state": post["o"]})
                break
        if len(out) >= k:
            break
    return out


def _violation(cls, hist, graph, leg, extra=None):
    reqs = [h["req"] for h in hist]
    rp = {"kind": "kvv-seq", "graph": graph, "class": cls, "requests": reqs, "leg": leg,
          "history": [{"req": _req_str(h["req"]), "resp": h.get("resp")} for h in hist]}
    if extra:
        rp.update(extra)
    return {"key": "C16:" + cls,
            "what": "%s on the real %s store(s) after: %s" % (cls, "memory/redb" if graph == "pair" else "cloud",
                                                             _hist_str(hist)),
            "replay": rp}


def run(pid, tier):
    t0 = time.time()
    quick = tier == "quick"
    binpath = vlib.build("kvv")
    violations = []
    divergences = []
    cov = {"legs": {}}
    tot_states = tot_trans = tot_edges = 0
    samples = []

    # ---- leg A: the model itself
    model_classes = {}
    for kind, nkeys, maxver, maxw in ([("pair", 2, 2, 1), ("cloud", 2, 1, 1)] if quick else
                                       [("pair", 2, 3, 1), ("pair", 3, 2, 1), ("cloud", 2, 2, 1)]):
        a = kvv.leg_a(kind, nkeys, maxver, maxw, workers=8)
        cov["legs"]["A_model_%s_K%d_V%d" % (kind, nkeys, maxver)] = {
            "states": a["states"], "distinct": a["distinct"], "depth": a["depth"], "tlc_runs": a["runs"],
            "classes_exhibited_by_model": sorted(set(c for c, _ in a["classes"])),
            "other_invariants_violated": a["violated"], "wall_s": round(a["wall_s"], 1)}
        tot_states += a["distinct"]
        tot_trans += a["states"]
        for c, h in a["classes"]:
            model_classes.setdefault(c, h)
        if a["violated"]:
            log("[C16] leg A: structural invariant %s of the MODEL fails (%s)" % (a["violated"], kind))
    if model_classes:
        log("[C16] leg A: the MODEL exhibits %s (hypotheses about the code, decided by leg B)" % sorted(model_classes))

    # ---- leg B: implementation state graphs
    impl_classes = set()
    runs = [("pair", 2, 2, 1), ("cloud", 2, 1, 1)] if quick else \
           [("pair", 2, 3, 1), ("pair", 3, 2, 1), ("cloud", 2, 1, 2), ("cloud", 2, 2, 1)]
    # state caps: about three times what the stores have at HEAD (a faulty store can have many more)
    caps = {("pair", 2, 2): 400, ("pair", 2, 3): 700, ("pair", 3, 2): 5000, ("cloud", 2, 1): 20000,
            ("cloud", 2, 2): 400000}
    adir = vlib.workdir("kvv-alphabets")
    afiles = ["%s/alphabet-%d.json" % (adir, i) for i in range(len(runs))]
    kvv.alphabets([(k, n, v, f) for (k, n, v, _), f in zip(runs, afiles)])
    for (kind, nkeys, maxver, maxw), af in zip(runs, afiles):
        ex = kvv.extract(binpath, kind, nkeys, maxver, maxw, threads=8, alpha_from=af,
                         max_states=caps.get((kind, nkeys, maxver), 100000))
        r = kvv.impl_tlc(ex, workers=8)
        rep = r["report"]
        name = "B_impl_%s_K%d_V%d_W%d" % (kind, nkeys, maxver, maxw)
        cov["legs"][name] = {
            "impl_states": rep["nodes"], "impl_states_expanded": rep["expanded"], "impl_edges": rep["edges"],
            "requests_in_alphabet": len(ex["requests"]), "product_states": r["distinct"],
            "product_transitions": r["states"], "spec_divergences": len(rep["divergences"]),
            "malformed_dumps": rep["malformed"], "violation_classes": sorted(set(c for c, _ in r["classes"])),
            "exploration_complete": r["complete"], "tlc_runs": r["runs"],
            "truncated_by_state_cap": bool(ex["stats"].get("truncated")), "truncated_edges": rep["truncated_edges"],
            "wall_s": round(r["wall_s"] + ex["wall_s"], 1)}
        if kind == "pair":
            cov["legs"][name]["edges_flagged_by_some_clause"] = rep["flagged_edges"]
            cov["legs"][name]["redb_instances_built"] = ex["stats"].get("redb_rebuilds")
        else:
            cov["legs"][name]["refused_batches_that_staged_a_prefix"] = rep["partial_batches"]
        tot_states += r["distinct"]
        tot_trans += r["states"]
        tot_edges += rep["edges"]
        divergences += [{"run": name, **d} for d in rep["divergences"][:10]]
        if len(samples) < 4:
            samples += _samples(ex, 2)
        for c, hist in r["classes"]:
            impl_classes.add(c)
            violations.append(_violation(c, hist, kind, "B", {"nkeys": nkeys, "maxver": maxver}))
        ex["rows"] = None

    # ---- leg C: model behaviours replayed through the real stores, validated by TLC
    d = vlib.workdir("kvv-c")
    nsim, depth, nk, mv = (12, 20, 3, 3) if quick else (120, 40, 3, 4)
    seqs = []
    for kind in ("pair", "cloud"):
        sq, _ = kvv.simulate(kind, nk, mv, nsim, depth, vlib.seed(), d)
        seqs += sq
    steps_file = d + "/steps.ndjson"
    rs = kvv.run_sequences(binpath, seqs, steps_file)
    tr = kvv.trace_tlc(steps_file)
    trep = tr["report"]
    cov["legs"]["C_sim_replay"] = {"behaviours": rs.get("sequences", 0), "steps": trep["steps"], "keys": nk,
                                   "maxver": mv, "spec_divergences": len(trep["divergences"]),
                                   "violation_classes": sorted(set(c for c, _ in tr["classes"])),
                                   "wall_s": round(tr["wall_s"], 1)}
    divergences += [{"run": "sim", **x} for x in trep["divergences"][:10]]
    recorded = {}
    if tr["classes"]:
        for line in open(steps_file):
            e = json.loads(line)
            recorded[(e["seq"], e["step"])] = {b: e[b]["resp"][0] for b in ("m", "r", "c") if b in e}
    for c, where in tr["classes"]:
        impl_classes.add(c)
        sq = seqs[where["seq"]]
        hist = [{"req": q, "resp": recorded.get((where["seq"], i), {})}
                for i, q in enumerate(sq["reqs"][:where["step"] + 1])]
        violations.append(_violation(c, hist, sq["kind"], "C"))

    code, unknown, known = vlib.verdict(pid, violations)
    if divergences:
        log("[C16] NOTE: %d implementation edges are not edges of KVV.tla (specification needs updating; "
            "not a property violation)" % len(divergences))
    cov.update({
        "states": max(1, tot_states),
        "transitions": max(1, tot_trans),
        "traces_validated_against_impl": tot_edges + trep["steps"],
        "samples": samples or [{"note": "no accepted edge"}],
        "exhaustive": True,
        "spec_divergences": divergences[:40],
        "violation_classes_on_real_code": sorted(impl_classes),
        "model_only_classes": sorted(set(model_classes) - impl_classes),
        "classes_the_model_lacks": sorted(impl_classes - set(model_classes)),
        "switches": kvv.SWITCHES,
        "explanation": "TLC (a) model-checks KVV.tla (memory+redb in lockstep; cloud store), (b) loads the state "
                       "graphs extracted from the real MemoryKVVStore/RedbKVVStore pair and the real "
                       "CloudKVVStore (every request of a TLC-generated alphabet on every reachable concrete "
                       "state, real reopen of the redb file), checks each edge against MemStep/RedbStep/CloudStep "
                       "and evaluates the C16 monitor clauses on every reachable edge, (c) validates replayed "
                       "simulation behaviours over larger alphabets",
    })
    vlib.write_evidence(pid, tier, "model_checking", cov,
                        ["small scope: keys {k, kk(, l)} (k is a prefix of kk), versions up to the stated bound, values "
                         "{a, b, tombstone}, batches of at most 2 entries (duplicate keys allowed)",
                         "clear_database, reset_versions, put_batch_unlogged and storage failures are outside the property",
                         "the observation of a store is its public API: get_prefix(\"\") dump, get and get_version of "
                         "every key of the universe; a disk-store state is re-created by re-executing its request path",
                         "a duplicate-key batch is judged against the pre-state for 'write at the current version'; a "
                         "commit is compared with the last prepare() only if no write was accepted in between",
                         "TLC and the Json/IOUtils community modules"],
                        time.time() - t0, unknown + known)
    return code


def replay(pid, obj):
    """Re-run a recorded violating request sequence on the real stores and let TLC judge."""
    rp = obj["replay"]
    binpath = vlib.build("kvv")
    d = vlib.workdir("kvv-replay")
    steps_file = d + "/steps.ndjson"
    kvv.run_sequences(binpath, [{"kind": rp["graph"], "reqs": rp["requests"]}], steps_file)
    tr = kvv.trace_tlc(steps_file)
    for x in open(steps_file):
        e = json.loads(x)
        resp = {b: e[b]["resp"] for b in ("m", "r", "c") if b in e}
        print("  %s -> %s" % (_req_str(e["req"]), json.dumps(resp, sort_keys=True)))
    classes = sorted(set(c for c, _ in tr["classes"]))
    if classes:
        print("  violated clauses: %s" % ", ".join(classes))
        print("VIOLATION property=%s replay=%s" % (pid, "(reproduced)"))
        return 1
    print("not reproduced")
    return 0
