"""C04: commitment signatures bind to the BOLT-3 transaction of the validated content.

Decided by spec/CommitTx.tla:
  leg A  MC_CommitTx     TLC enumerates the matrix (channel setups x commitment contents x single-field mutations
                         of the canonical transaction and of the witness scripts x histories: fresh number / retry,
                         each also with a SIGNER RESTART before the judged requests), writes it for the harness and
                         model-checks the code-shaped StepSem / StepRaw against the reference on every case
  bind   harness `committx run`: every base through the real sign_counterparty_commitment_tx_phase2 (semantic)
                         and every mutation through the real sign_counterparty_commitment_tx (raw) of a real
                         channel whose state was reached through the public API (histories with a restart: on the
                         signer restored from a copy of its store); the canonical bytes are also
                         built with LDK's CommitmentTransaction from the model's numbers; signatures are
                         verified with secp256k1 against the sighashes of the canonical / submitted bytes
  leg B  ImplCommitTx    TLC re-judges every logged concrete case with the reference predicate and the signature
                         monitors (invariant C04), compares every real verdict with the code-shaped model
                         (divergences), counts per-rule sole refusals (vacuity guard) and checks the
                         concretisation (model Canon = harness bytes = LDK bytes)
Python only orchestrates, counts and formats."""
import json
import os
import re
import time

import vlib
from vlib import log

PROPERTIES = ["C04"]
PRIVATE = bool(os.environ.get("VERIF_HARNESS_DIR"))
# what the code-shaped model says the code does (conformance only; the monitors do not depend on it)
SWITCHES = json.load(open(os.path.join(vlib.ROOT, "spec", "committx_switches.json")))


def _sw():
    return {"CT_VOUT_TRUNC": "true" if SWITCHES["voutTruncated"] else "false"}


def _private_outputs():
    """A mutation self-test (VERIF_HARNESS_DIR set) must not leave replays / evidence in the registered places."""
    if PRIVATE:
        vlib.REPLAYS = os.path.join(vlib.WORK, "committx", "private-replays")
        vlib.EVIDENCE = os.path.join(vlib.WORK, "committx", "private-evidence")


def _wd(name):
    return vlib.workdir("committx-%s%s" % (name, "-private" if PRIVATE else ""))


def policy_bounds(binpath, d):
    """The contest-delay bounds of the real policy and real setup_channel probes around them (judged by an
    ASSUME of MC_CommitTx, which resolves the matrix' delay names min / mid / max against this file)."""
    bf = os.path.join(d, "bounds.json")
    vlib.run_bin(binpath, ["bounds", "--out", bf], timeout=600)
    return bf


def leg_a(d, tier, timeout, bounds_file):
    """TLC: enumerate the matrix, write the cases, model-check every case on the code-shaped model."""
    cases = os.path.join(d, "cases.ndjson")
    r = vlib.tlc("MC_CommitTx", os.path.join(vlib.SPEC, "MC_CommitTx.cfg"),
                 env=dict(_sw(), CT_TIER=tier, CT_OUT=cases, CT_BOUNDS=bounds_file),
                 workers=8, timeout=timeout, extra=["-continue", "-seed", str(vlib.seed())],
                 name="mc-committx-%s%s" % (tier, "-private" if PRIVATE else ""))
    m = re.search(r'<<"CT_MATRIX", (\d+), (\d+), (\d+), (\d+)>>', r["out"])
    if not m:
        raise vlib.ToolError("MC_CommitTx printed no matrix statistics:\n" + r["out"][-2000:])
    r["matrix"] = {"bases": int(m.group(1)), "cases": int(m.group(2)), "retries": int(m.group(3)),
                   "restart_bases": int(m.group(4))}
    if "TypeOK" in r["violated"]:
        raise vlib.ToolError("MC_CommitTx: TypeOK violated")
    r["cases_file"] = cases
    return r


def run_impl(binpath, cases_file, log_file, threads=8):
    return vlib.run_bin(binpath, ["run", "--cases", cases_file, "--out", log_file, "--threads", threads], timeout=3000)


def judge(d, name, log_file, timeout=2400):
    cfg = vlib.write_cfg(os.path.join(d, "impl_%s.cfg" % name), "SPECIFICATION Spec\nINVARIANTS C04\nCHECK_DEADLOCK FALSE\n")
    report = os.path.join(d, "report_%s.json" % name)
    if os.path.exists(report):
        os.remove(report)
    r = vlib.tlc("ImplCommitTx", cfg, env=dict(_sw(), CT_LOG=log_file, CT_REPORT=report), workers=1, timeout=timeout,
                 name="impl-committx-%s%s" % (name, "-private" if PRIVATE else ""), heap="8g")
    r["report"] = json.load(open(report))
    return r


def _one(m):
    s = m["k"] if m["k"] != "out" else "out.%s" % m["f"]
    if m["k"] in ("lt", "seq", "op"):
        s += "." + m["f"]
    return s


def _mut_name(v):
    m, w = v.get("m"), v.get("w")
    if v.get("ep"):
        return "retry.%s.%s" % (v["ep"], v["kind"])
    if m is None:
        return "semantic"
    s = _one(m)
    if v.get("m2") and v["m2"]["k"] != "none":
        s += "&" + _one(v["m2"])
    if w["k"] != "none" or w["base"] != "sub":
        s += "/ws.%s%s" % (w["k"], "" if w["base"] == "sub" else "(canonical scripts)")
    return s


def finding_key(v):
    """canonical key of a violating input class: what went wrong, the reference rules the accepted transaction
    breaks, the kind of mutation, the edge class of the setup, the history when it is not a fresh commitment"""
    kinds = "+".join(sorted(v["kinds"]))
    rules = "+".join(sorted(v["rules"])) or "-"
    # the holder-selected delay is the one inside the counterparty's commitment; the other delay names the class
    # only when the first is an ordinary value
    dn = [(f, v["S"].get(n)) for f, n in (("hdelay", "hdn"), ("cdelay", "cdn")) if v["S"].get(n) in ("min", "max")]
    edges = (["wide_vout"] if v["S"]["fo"]["i"] > 65535 else []) + ["%s=%s" % x for x in dn[:1]]
    if v.get("ep"):
        # a second request for an already signed number: neither the delay class of the setup nor the history
        # of the base's raw requests distinguishes the finding
        edges = edges[:1] if edges[:1] == ["wide_vout"] else []
    edge = ",".join(edges) or "-"
    # a history with a signer restart always names the class (also for a second request)
    plain = v["hist"] == "fresh" or (v.get("ep") and not v["hist"].startswith("restart"))
    return "%s:%s:%s:%s%s" % (kinds, rules, _mut_name(v), edge, "" if plain else ":" + v["hist"])


def _base_line(cases_file, b):
    with open(cases_file) as f:
        for line in f:
            if line.strip():
                c = json.loads(line)
                if c["b"] == b:
                    return c
    return None


def _violations(rep, cases_file):
    out, seen = [], set()
    for v in list(rep["base_violations"]) + list(rep["retry_violations"]) + list(rep["violations"]):
        key = finding_key(v)
        if key in seen:
            continue
        seen.add(key)
        base = _base_line(cases_file, v["b"])
        if base is None:
            raise vlib.ToolError("violating record refers to an unknown base %s" % v["b"])
        # the replay is the base with the one violating request (a semantic violation needs none)
        base["muts"] = [x for x in base["muts"] if x["id"] == v["id"]]
        base["retries"] = [x for x in base["retries"] if x["id"] == v["id"]]
        if v.get("ep"):
            what = "%s entry point, RETRY of %s/%s n=%s with %s: %s; expected %s; first response %s; retry response %s; " \
                   "recorded content afterwards %s" % (
                       v["ep"], v["name"], v["ct"], v["C"]["n"], v["kind"], ", ".join(v["kinds"]), v["expected"],
                       json.dumps(v["first"], sort_keys=True)[:200], json.dumps(v["resp"], sort_keys=True)[:300],
                       json.dumps(v["recorded"], sort_keys=True)[:200])
        elif v["id"] == 0:
            what = "semantic entry point %s/%s (%s): %s; sem=%s retry=%s" % (
                v["name"], v["ct"], v["hist"], ", ".join(v["kinds"]), json.dumps(v["sem"], sort_keys=True)[:300],
                json.dumps(v["sem2"], sort_keys=True)[:200])
        else:
            what = "raw entry point %s/%s (%s) mutation %s: %s; reference rules broken: %s; real response %s" % (
                v["name"], v["ct"], v["hist"], _mut_name(v), ", ".join(v["kinds"]), ", ".join(v["rules"]) or "none",
                json.dumps(v["resp"], sort_keys=True))
        out.append({"key": key, "what": what, "replay": {"kind": "committx-base", "base": base, "expect_kinds": v["kinds"]}})
    return out


def run(pid, tier):
    _private_outputs()
    t0 = time.time()
    quick = tier == "quick"
    binpath = vlib.build("committx")
    d = _wd(tier)

    # ---- leg A: the matrix, and the model on it
    bf = policy_bounds(binpath, d)
    a = leg_a(d, tier, 600 if quick else 3000, bf)
    hyp = None
    if a["violated"]:
        hyp = {"invariants": sorted(set(a["violated"])), "note": "the code-shaped MODEL violates the property on a case of the matrix: "
               "a hypothesis about the code, decided by leg B"}
        log("[C04] leg A: %s" % json.dumps(hyp))

    # ---- bind: every case through the real entry points
    lf = os.path.join(d, "log.ndjson")
    runb = run_impl(binpath, a["cases_file"], lf)
    done = runb.get("raw", 0) + runb.get("retries", 0) + runb.get("skipped", 0)
    if done != a["matrix"]["cases"] + a["matrix"]["retries"] or runb.get("bases") != a["matrix"]["bases"]:
        raise vlib.ToolError("the harness executed %s of %s requests" % (done, a["matrix"]["cases"] + a["matrix"]["retries"]))

    # ---- leg B: TLC re-judges every logged concrete case
    b = judge(d, "B", lf)
    rep = b["report"]
    if rep["nconc_bad"]:
        raise vlib.ToolError("concretisation check failed (model Canon / harness bytes / LDK bytes / requested mutation "
                             "disagree): %s" % json.dumps({"raw": rep["conc_bad"][:2], "bases": rep["conc_bad_bases"][:2]})[:3000])
    if rep["uncovered"]:
        raise vlib.ToolError("vacuity guard: rules that were never the sole reason of a real refusal: %s" % rep["uncovered"])
    if not rep["granted_canonical_request"] or not rep["sem_ok"] or not rep["htlc_sigs"]:
        raise vlib.ToolError("vacuity guard: no canonical request was granted / no signature was returned")
    if not rep["retries_identical_same_signatures"] or not rep["retries_changed_refused"]:
        raise vlib.ToolError("vacuity guard (retries): no identical retry returned the first signatures / no changed retry was refused")
    if not a["matrix"]["restart_bases"] or not rep["restart_bases"]:
        raise vlib.ToolError("vacuity guard (restarts): the matrix has no base with a signer restart")
    if not (rep["restart_sem_ok"] and rep["restart_sem_retry_ok"] and rep["restart_htlc_sigs"] and rep["restart_raw_granted"]
            and rep["restart_retries_accepted"]):
        raise vlib.ToolError("vacuity guard (restarts): a restored signer never answered a semantic request / a retry / "
                             "a raw request with a signature: %s" % json.dumps({k: v for k, v in rep.items() if k.startswith("restart_")}))
    viols = _violations(rep, a["cases_file"])
    if bool(viols) != bool(b["violated"]):
        raise vlib.ToolError("ImplCommitTx: invariant verdict %s and report (%d violations) disagree" % (b["violated"], len(viols)))
    code, unknown, known = vlib.verdict(pid, viols)
    if rep["ndivergent"]:
        log("[C04] NOTE: %d real verdicts differ from the code-shaped StepRaw / StepSem of CommitTx.tla (the "
            "specification needs updating; not a property violation): %s" % (rep["ndivergent"], json.dumps(rep["divergence_kinds"] + rep["base_divergence_kinds"] + rep["retry_divergence_kinds"])))

    samples = [{"base": s["name"], "commitment_type": s["ct"], "mutation": _mut_name(s), "submitted_transaction": s["tx"],
                "reference_rules_broken": s["rules"], "real": s["resp"]} for s in rep["sample"]]
    cov = {
        "legs": {
            "A_model": {"bases": a["matrix"]["bases"], "cases": a["matrix"]["cases"], "states": a["states"],
                        "distinct": a["distinct"], "violated": sorted(set(a["violated"])),
                        "wall_s": round(a["wall_s"], 1)},
            "B_real_entry_points": {
                "bases": rep["bases"], "bases_refused_by_setup_channel": rep["setup_refused"],
                "requests_not_made_for_them": rep["skipped"], "raw_requests_judged": rep["raw"], "semantic_accepted": rep["sem_ok"],
                "semantic_retries_accepted": rep["sem_retry_ok"], "htlc_signatures_verified": rep["htlc_sigs"],
                "bases_with_signer_restart": rep["restart_bases"],
                "semantic_accepted_by_restored_signer": rep["restart_sem_ok"],
                "semantic_with_htlc_signatures_by_restored_signer": rep["restart_htlc_sigs"],
                "semantic_retry_of_number_signed_before_restart_accepted": rep["restart_sem_retry_ok"],
                "raw_granted_by_restored_signer": rep["restart_raw_granted"],
                "retries_accepted_by_restored_signer": rep["restart_retries_accepted"],
                "raw_granted": rep["granted"], "raw_granted_canonical_request": rep["granted_canonical_request"],
                "raw_granted_by_mutation": rep["granted_kinds"], "reference_must_refuse": rep["must_refuse"],
                "real_verdict_tags": rep["real_tags"], "violating_records": rep["nviolations"],
                "impl_stricter": rep["nstricter"], "impl_stricter_kinds": rep["stricter_kinds"],
                "spec_divergences": rep["ndivergent"],
                "spec_divergence_kinds": rep["divergence_kinds"] + rep["base_divergence_kinds"] + rep["retry_divergence_kinds"],
                "retries_judged": rep["retries"], "retries_accepted": rep["retries_accepted"],
                "retries_identical_accepted": rep["retries_identical_accepted"],
                "retries_identical_with_the_first_signatures": rep["retries_identical_same_signatures"],
                "retries_changed_refused": rep["retries_changed_refused"],
                "retries_changed_accepted": rep["retries_changed_accepted"],
                "retries_after_which_the_recorded_content_changed": rep["retries_recorded_changed"],
                "retry_verdicts": rep["retry_kinds"],
                "sole_reason_refusals_per_rule": rep["sole"], "rules_never_sole_reason": rep["uncovered"],
                "panics_recorded": runb.get("panics"), "tlc_states": b["distinct"], "wall_s": round(b["wall_s"], 1)},
        },
        "states": max(1, a["distinct"] + b["distinct"]),
        "transitions": max(1, a["states"] + b["states"]),
        "traces_validated_against_impl": rep["raw"] + rep["bases"] + rep["retries"],
        "samples": samples or [{"note": "no sample"}],
        "evaluations": rep["raw"] + rep["bases"] + rep["retries"],
        "distinct_nontrivial": rep["distinct_nontrivial"],
        "rule": "one evaluation = one request submitted to a real entry point (semantic per base, raw per mutation) and "
                "re-judged by TLC on its logged concrete values; distinct = distinct (setup, content, history, submitted "
                "transaction, witness scripts) records counted by TLC; non-trivial = not the unmutated canonical request",
        "exhaustive": True,
        "switches": SWITCHES,
        "contest_delay_bounds": {k: v for k, v in json.load(open(bf)).items() if k != "probes"},
        "setup_channel_probes": len(json.load(open(bf))["probes"]),
        "impl_stricter": rep["nstricter"],
        "spec_divergences": (rep["divergences"] + rep["base_divergences"])[:10],
        "model_only_counterexample": hyp if (hyp and not viols) else None,
        "explanation": "TLC (a) enumerates channel setups x commitment contents x single-field mutations and model-checks "
                       "the code-shaped raw / semantic entry points against the reference on every case, (b) the harness "
                       "runs every case against the real sign_counterparty_commitment_tx_phase2 / "
                       "sign_counterparty_commitment_tx of a real channel and verifies the returned signatures against "
                       "the canonical bytes (cross-built with LDK) and the submitted bytes, (c) TLC re-judges every "
                       "logged concrete case: raw Ok on a non-canonical transaction, a signature that is not for the "
                       "canonical transaction, or semantic-accepted content whose canonical transaction the raw entry "
                       "point refuses or signs differently is a violation; (d) for a subset of setups x contents the "
                       "signer is restored from a copy of its store (after set-up and the preceding commitments, or "
                       "after the first request for the number) and all requests are made on the restored signer: the "
                       "same monitors judge them (CommitTx!Restart)",
    }
    vlib.write_evidence(pid, tier, "model_checking", cov,
                        ["byte-exact serialisation, SHA-256, RIPEMD-160 and secp256k1 ECDSA are outside TLA+: the abstract "
                         "transaction is bound to bytes by the harness encoder (LDK's script builders, rust-bitcoin "
                         "serialisation) which is cross-checked per base against LDK's CommitmentTransaction / "
                         "build_htlc_transaction built from the model's numbers; hashes are treated as injective",
                         "scripts are classified by how the harness constructed them (template + named keys); the order of "
                         "equal-amount outputs is judged on a logged 48-bit prefix of the scriptPubKey",
                         "the two balances of a raw request are read from the submitted transaction (the raw API has no "
                         "other source), so a change of a main output's value is another content, not a forgery; fee and "
                         "trimming are C05's",
                         "commitment types static_remotekey and anchors_zero_fee_htlc (the others are refused by "
                         "setup_channel); commitment numbers 0..3, at most 4 HTLCs, default regtest policy; both contest "
                         "delays at the smallest / an ordinary (144) / the largest value setup_channel accepts (bounds read "
                         "from the real policy, min-1 and max+1 shown refused by real setup_channel calls)",
                         "restarts: the signer is restored with Node::restore_nodes from a copy of the in-memory KVV store "
                         "(JSON format) at two points of a base's history (before the first request for the number / "
                         "after it); restarts between the raw requests of one base are not explored",
                         "TLC and the Json/IOUtils community modules"],
                        time.time() - t0, unknown + known)
    return code


def replay(pid, obj):
    """Re-run a recorded violating case on the real implementation and let TLC judge it."""
    _private_outputs()
    rp = obj["replay"]
    binpath = vlib.build("committx")
    d = _wd("replay")
    cf = os.path.join(d, "cases.ndjson")
    with open(cf, "w") as f:
        f.write(json.dumps(rp["base"]) + "\n")
    lf = os.path.join(d, "log.ndjson")
    run_impl(binpath, cf, lf, threads=1)
    r = judge(d, "replay", lf)
    for line in open(lf):
        e = json.loads(line)
        if e["k"] == "base":
            print("  base %s/%s n=%s: semantic -> %s ; retry -> %s" % (e["name"], e["S"]["ct"], e["C"]["n"],
                                                                        json.dumps(e["sem"], sort_keys=True),
                                                                        json.dumps(e["sem2"], sort_keys=True)))
        elif e["k"] == "raw":
            print("  raw  %s -> %s" % (_mut_name(e), json.dumps(e["resp"], sort_keys=True)))
        elif e["k"] == "retry":
            print("  %s -> %s ; recorded %s" % (_mut_name(e), json.dumps(e["resp"], sort_keys=True), json.dumps(e["rec"], sort_keys=True)))
    rep = r["report"]
    keys = {finding_key(v) for v in list(rep["base_violations"]) + list(rep["retry_violations"]) + list(rep["violations"])}
    if r["violated"] and (obj.get("key") in keys or not obj.get("key")):
        print("VIOLATION property=%s replay=%s" % (pid, "(reproduced)"))
        return 1
    print("not reproduced")
    return 0
