----------------------------- MODULE TraceAuth ------------------------------
(***************************************************************************)
(* Leg C (impl -> spec): validates steps recorded from the real             *)
(* implementation (`auth run`: TLC-simulated sessions, replay files;        *)
(* `auth walk`: seeded random sessions).  One record per step:              *)
(*   [seq, step, pre, req, resp, post]                                      *)
(* Every step is compared with Auth!Step, the monitors of C17 run along     *)
(* each sequence (invariants C17a C17b C17c) and on every step (Report).    *)
(***************************************************************************)
EXTENDS Auth, Json, IOUtils, SequencesExt

Steps == ndJsonDeserialize(IOEnv.AUTH_STEPS)
K     == [W |-> 8, framed |-> IOEnv.AUTH_FRAMED = "true"]
Idx   == DOMAIN Steps

\* every step is judged once
J == [i \in Idx |-> Judge(Steps[i].pre, Steps[i].req, Steps[i].resp.ok, K)]

VARIABLES l, g
Init == l = 1 /\ g = InitGhost
Next == /\ l <= Len(Steps)
        /\ g' = GhostJ(IF Steps[l].step = 0 THEN InitGhost ELSE g, Steps[l].resp.ok, J[l])
        /\ l' = l + 1
Spec == Init /\ [][Next]_<<l, g>>

C17a == Inv_C17a(g)
C17b == Inv_C17b(g)
C17c == Inv_C17c(g)

IsCheck(i)  == Steps[i].req.op # "NewNonce"
Conforms(i) == LET e == Steps[i] IN
               /\ Applicable(e.pre, e.req)
               /\ J[i].exp = e.resp.ok /\ e.resp.aux = 1
               /\ NextS(e.pre, e.req) = e.post
Divergent == {i \in Idx : ~Conforms(i)}
Broken    == {i \in Idx : i > 1 /\ Steps[i].step > 0 /\ Steps[i].pre # Steps[i - 1].post}
Violating == {i \in Idx : Steps[i].resp.ok /\ J[i].mon # "ok"}
RefusedMods == {i \in Idx : ~Steps[i].resp.ok /\ J[i].mon # "ok"}
ImplStricter == {i \in Idx : IsCheck(i) /\ ~Steps[i].resp.ok /\ J[i].mon = "ok"}
KeyAt(i)  == J[i].key
Keys      == {KeyAt(i) : i \in Violating}

Describe(i) == LET e == Steps[i] IN
  [line |-> i, seq |-> e.seq, step |-> e.step, n |-> e.pre.n, req |-> e.req, ok |-> e.resp.ok, aux |-> e.resp.aux,
   expected_ok |-> J[i].exp,
   verdict |-> IF e.req.op = "NewNonce" THEN [mon |-> "ok", rel |-> "legit"] ELSE Verdict(e.pre, e.req, K)]
First(S, k) == LET q == SetToSeq(S) IN SubSeq(q, 1, IF Len(q) < k THEN Len(q) ELSE k)

Report == [ steps |-> Len(Steps),
            accepted |-> Cardinality({i \in Idx : IsCheck(i) /\ Steps[i].resp.ok}),
            refused_modifications |-> Cardinality(RefusedMods),
            max_n |-> FoldLeft(LAMBDA acc, e : IF e.post.n > acc THEN e.post.n ELSE acc, 0, Steps),
            sample_refused |-> First({Describe(i) : i \in RefusedMods}, 2),
            impl_stricter |-> First({Describe(i) : i \in ImplStricter}, 20),
            divergence_count |-> Cardinality(Divergent),
            divergences |-> First({Describe(i) : i \in Divergent}, 20),
            broken      |-> First({Describe(i) : i \in Broken}, 20),
            violation_count |-> Cardinality(Violating),
            violations  |-> SetToSeq({ [key |-> k,
                                        count |-> Cardinality({i \in Violating : KeyAt(i) = k}),
                                        example |-> Describe(CHOOSE i \in Violating : KeyAt(i) = k)] : k \in Keys }) ]
ASSUME JsonSerialize(IOEnv.AUTH_REPORT, Report)
=============================================================================
