------------------------------ MODULE MC_Keys ------------------------------
(* Leg A: TLC explores the Keys model itself (design level).                 *)
(*                                                                          *)
(* After every state-changing request everything observable is observed      *)
(* (observations never change the state, so this loses no behaviour and the  *)
(* ghost becomes a function of the request history alone).                   *)
(* Style = "native" / "ldk": the invariants must hold.                       *)
(* Style = "lnd": C18a must FAIL (basepoints come from a per-process          *)
(* counter) - the check uses that run as the vacuity guard of its monitors.  *)
EXTENDS Keys

CONSTANTS Style,      \* "native" | "ldk" | "lnd"
          NIds, NMax, \* channel ids 1..NIds, commitment numbers 0..NMax
          Fam,        \* id family (decides the dbid ranks): "low" | "peer0" ..
          Side        \* "life": channel life cycle;  "tree": compact store of released secrets

VARIABLES s, g, last

K == [style |-> Style, nids |-> NIds, nmax |-> NMax, oid |-> OidOf(Fam)]
All == Requests(K, {"id0", "perm"}, {"A", "B"})
Control == {r \in All : r.op \notin ObsOps /\ r.op \in (IF Side = "life" THEN LifeOps ELSE TreeOps)}
Watch   == {r \in All : r.op \in {"Basepoints", "Point", "Secret", "Provide"}}

SelfId(i) == i
Observable(st) ==
  UNION { LET o == Step(st, r, K) IN
          IF r.op = "Provide" THEN {} ELSE ObsOf("m", SelfId, r, o.resp.ok, o.resp.a) : r \in Watch }

RECURSIVE Run(_, _)
Run(st, rs) == IF rs = <<>> THEN st ELSE Run(Step(st, Head(rs), K).s, Tail(rs))
\* tree side: every channel ready and advanced (secrets 0..NMax released)
Prepared == Run(Init0(K), [k \in 1..(3 * NIds) |->
               LET i == ((k - 1) \div 3) + 1 IN
               CASE (k - 1) % 3 = 0 -> [op |-> "New", id |-> i]
                 [] (k - 1) % 3 = 1 -> [op |-> "Setup", id |-> i, al |-> FALSE, v |-> "A"]
                 [] OTHER           -> [op |-> "Advance", id |-> i]])

MCInit == /\ s = IF Side = "tree" THEN Prepared ELSE Init0(K)
          /\ g = Ghost(InitGhost, Observable(s))
          /\ last = [op |-> "init"]

MCNext == \E r \in Control :
            LET o == Step(s, r, K) IN
            /\ s' = o.s
            /\ g' = Ghost(g, Observable(o.s) \cup ObsOf("m", SelfId, r, o.resp.ok, o.resp.a))
            /\ last' = [r |-> r, ok |-> o.resp.ok]

Spec == MCInit /\ [][MCNext]_<<s, g, last>>
View == <<s, g>>

C18a == Inv_Stable(g)
C18b == Inv_Distinct(g)

\* C18c at design level: a store filled in order with a channel's own secrets accepts the
\* next one and returns every earlier one
OwnSlots(i) == [k \in 1..Len(s.st[i]) |-> <<s.st[i][k], s.st[i][k].n>>]
C18c == \A i \in Ids(K) :
          LET sl == OwnSlots(i)
              Own(v, n) == v = [t |-> IdName(i), n |-> n] IN
          (AllOwn(sl, Own) /\ InOrderShape(sl)) =>
             /\ \A n \in 0..MaxN(sl) : Ch!SecGet(s.st[i], n) = [t |-> IdName(i), n |-> n]
             /\ (MaxN(sl) + 1 <= NMax /\ Secret(s, i, MaxN(sl) + 1, "id0").resp.ok)
                   => Provide(s, i, MaxN(sl) + 1, i).resp.ok

TypeOK == /\ \A i \in Ids(K) : s.ch[i].ph \in {"none", "stub", "ready"}
          /\ \A i \in Ids(K) : s.ch[i].ph # "ready" => s.ch[i].nh = 0
          /\ s.hwm \in 0..NIds
=============================================================================
