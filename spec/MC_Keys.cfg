SPECIFICATION Spec
CONSTANTS
  Style = "native"
  NIds = 2
  NMax = 1
  Fam = "low"
  Side = "life"
VIEW View
INVARIANTS C18a C18b C18c TypeOK
CHECK_DEADLOCK FALSE
