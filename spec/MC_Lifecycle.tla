----------------------------- MODULE MC_Lifecycle -----------------------------
(***************************************************************************)
(* Leg A: TLC explores Lifecycle.tla itself with small constants (the depth  *)
(* D that buries an event, the stub age S and the header window W are        *)
(* parameters of the specification; the implementation graph of leg B is     *)
(* checked against the same text with the real values 100 / 106 / 100).      *)
(* Invariants: the property (C15a, C15b) over the ghost variables, which are *)
(* computed from observations only; agreement of the monitor's is_done with  *)
(* the reference predicate on the environment's chain (ModelAgrees).         *)
(* The Never* predicates are vacuity guards: the check runs them expecting   *)
(* a counterexample (a witness that the situation is reachable).             *)
(* Very deep burial: DX abstracts MAX_CLOSING_DEPTH (> D), Around the offsets *)
(* of the Bury sizes around D and DX; the run "deep" (one channel, single     *)
(* blocks) reaches every partly swept close buried by DX and more, where      *)
(* C15a / ModelAgrees say the channel is kept.  BuryLemma: the closed form of *)
(* Bury(k) used by Step equals k single empty blocks.                         *)
(***************************************************************************)
EXTENDS Lifecycle
CONSTANTS D, S, W, MaxD, Cd, Kinds, Pairs, BurySizes, Rev, MaxH, Crash, DX, Around
K == WithDeep(WithCrash(MkK(D, S, W, MaxD, Cd, Kinds, Pairs, BurySizes, Rev, TRUE, "compact", TRUE), Crash), DX, Around)

VARIABLES s, g, last
Init == s = InitState(K) /\ g = InitGhost /\ last = [op |-> "init"]
Next == \E r \in Requests(K) :
          /\ Enabled(K, s, r)
          /\ LET o == Step(K, s, r) IN
             /\ s' = o.s
             /\ g' = IF o.rc = "panic" THEN g ELSE Ghost(K, g, r, o.rc, Obs(s), Obs(o.s))
             /\ last' = [r |-> r, rc |-> o.rc]
Spec == Init /\ [][Next]_<<s, g, last>>
View == <<s, g>>
Bound == s.h <= MaxH

C15a == Inv_C15a(g)
C15b == Inv_C15b(g)
C15c == Inv_C15c(g)
TypeOK ==
  /\ s.h >= 0 /\ s.hw >= 0 /\ s.hw <= K.W /\ s.hw <= s.h
  /\ g.h = s.h /\ g.ev = s.ev
  /\ \A d \in DOMAIN s.chans : s.chans[d].ph = "ready" => d \in s.su
  /\ g.fmax = s.mark
\* the monitor's view agrees with the reference on the environment's chain
ModelAgrees == \A d \in DOMAIN s.chans :
                 s.chans[d].ph = "ready" => (IsDone(K, s.chans[d], s.h) <=> (s.chans[d].fg /\ RefDone(K, s.ev, s.h, d)))
\* the closed form of Bury(k) is k single empty blocks
BuryLemma == \A k \in BurySet(K) : BuryK(K, s, k) = Repeat(K, s, "C", k)
\* a refusal changes nothing
Frame == [][ last'.rc # "ok" /\ last'.r.op \notin {"Unbury"} => s' = s ]_<<s, g, last>>

\* vacuity guards (each is expected to be VIOLATED: the counterexample is a witness)
vars == <<s, g, last>>
NeverPrunedReady == [][~(last'.r.op = "Heartbeat" /\ \E d \in DOMAIN s.chans : s.chans[d].ph = "ready" /\ s'.chans[d].ph = "none")]_vars
NeverPrunedStub  == [][~(last'.r.op = "Heartbeat" /\ \E d \in DOMAIN s.chans : s.chans[d].ph = "stub" /\ s'.chans[d].ph = "none")]_vars
NeverRefusedNew  == [][~(last'.r.op = "New" /\ last'.rc = "err")]_vars
NeverTooDeep     == [][~(last'.r.op = "Disconnect" /\ last'.rc = "err" /\ s.h > 0)]_vars
NeverKeptAtDm1   == [][~(last'.r.op = "Heartbeat" /\ \E d \in DOMAIN s.chans :
                          LET c == s.chans[d] IN c.ph = "ready" /\ c.fg /\ s'.chans[d].ph = "ready"
                                                 /\ DepthOf(s.h, Max2(Max2(c.dsh, c.mch), c.csh)) = K.D - 1)]_vars
\* a forgotten channel whose unilateral close has only the main output swept is kept at DX confirmations and more
NeverKeptBeyondDX == [][~(last'.r.op = "Heartbeat" /\ \E d \in DOMAIN s.chans :
                          LET c == s.chans[d] IN c.ph = "ready" /\ c.fg /\ s'.chans[d].ph = "ready"
                                                 /\ c.oosh # -1 /\ c.csh = -1 /\ DepthOf(s.h, c.oosh) >= K.DX)]_vars
=============================================================================
