-------------------------- MODULE MutualCloseCases --------------------------
(* Prints the case matrix of MutualClose.tla as JSON (IOEnv.MCL_OUT): the      *)
(* abstract channel states with the concrete commitment contents the harness   *)
(* has to bring about through the public API, and for every state the close    *)
(* requests with their concrete satoshi amounts.  The harness runs exactly     *)
(* these cases against the real crates (leg B).                                *)
(* IOEnv.MCL_TIER = "quick" | "thorough";  IOEnv.MCL_MAGS e.g. "n,g" / "n,g,a" *)
(* IOEnv.MCL_PART_K / MCL_PART_N: this process prints the requests of the      *)
(* states whose index is K modulo N (several TLC processes share the work).    *)
EXTENDS MutualClose, Json, IOUtils, SequencesExt

Tier == IOEnv.MCL_TIER
Mags == IF IOEnv.MCL_MAGS = "n" THEN {"n"} ELSE IF IOEnv.MCL_MAGS = "n,g" THEN {"n", "g"} ELSE {"n", "g", "a"}

\* two-deviation states the quick tier always includes: the counterparty's stale commitment is still
\* held and the two current commitments disagree
StaleStates == {[GoodState(d, p) EXCEPT !.hist = "updp", !.skew = k] : d \in {"out", "in"}, p \in {1, 2}, k \in {"2e", "2e1"}}

\* (states, request distance) blocks: wide in one dimension, narrow in the other
Blocks == IF Tier = "thorough"
          THEN << [S |-> AbsStates(2, Mags), k |-> 1],
                  [S |-> {s \in AbsStates(2, Mags) : s.pol = 1 /\ s.dir = "out"} \cup AbsStates(1, Mags), k |-> 2] >>
          ELSE << [S |-> AbsStates(1, Mags) \cup StaleStates, k |-> 1],
                  [S |-> {s \in AbsStates(1, Mags) : s.pol = 1 /\ s = [GoodState(s.dir, 1) EXCEPT !.mag = s.mag]},
                   k |-> 2] >>

\* every tier also runs the "guess" block (states whose two commitments disagree, phase-1 requests)
StateSeq == SetToSeq(UNION {Blocks[b].S : b \in DOMAIN Blocks} \cup GuessStates)
KOf(s) == IF \E b \in DOMAIN Blocks : Blocks[b].k = 2 /\ s \in Blocks[b].S THEN 2
          ELSE IF \E b \in DOMAIN Blocks : s \in Blocks[b].S THEN 1 ELSE 0

Cont(c) == [h |-> c.h, c |-> c.c, n |-> c.n]
StateRec(k) ==
  LET s == StateSeq[k] P == Pol(s.pol) IN
  [sid |-> k, abs |-> s, out |-> s.dir = "out", chv |-> Chv(s.mag),
   eps |-> P.eps, minr |-> P.minr, maxr |-> P.maxr, upfront |-> s.upfront, hist |-> s.hist, pre |-> s.pre,
   c0 |-> Cont(Content0(s)), ch |-> Cont(ContentH(s)), cc |-> Cont(ContentC(s)),
   good |-> LET c == ConcReq(s, GoodReq(s, "p2")) IN
            [vh |-> c.a.vh, vc |-> c.a.vc, hs |-> c.a.sh.id, cs |-> c.a.sc.id, hint |-> c.a.hint,
             allow |-> SetToSeq(c.allow)]]

PartK == CHOOSE x \in 0..63 : ToString(x) = IOEnv.MCL_PART_K
PartN == CHOOSE x \in 1..64 : ToString(x) = IOEnv.MCL_PART_N
Mine == {k \in DOMAIN StateSeq : k % PartN = PartK}

CaseRec(k, r, c) ==
  << k, r.entry, SetToSeq(r.allow), c.a.vh, c.a.vc, c.a.sh.id, c.a.sc.id, c.a.hint, r.order, r.hintpos, r.form,
     <<r.d, r.fee, r.hscr, r.cscr, r.hopt, r.copt>> >>

CasesOf(k) == LET s == StateSeq[k]
                   cs == {<<r, ConcReq(s, r)>> : r \in PlausibleReqs(s, KOf(s)) \cup GuessReqsOf(s, Tier = "thorough")} IN
               {CaseRec(k, p[1], p[2]) : p \in {x \in cs : x[2].ok}}
Cases == SetToSeq(UNION {CasesOf(k) : k \in Mine})

VARIABLE x
Init == x = 0
Next == UNCHANGED x
ASSUME JsonSerialize(IOEnv.MCL_OUT, [states |-> [k \in DOMAIN StateSeq |-> StateRec(k)], cases |-> Cases])
=============================================================================
