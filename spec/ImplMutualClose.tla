--------------------------- MODULE ImplMutualClose ---------------------------
(***************************************************************************)
(* Leg B of C07: every close request the harness ran against the REAL        *)
(* crates (`mutualclose run`: channel states reached through the public API  *)
(* by commitment updates, then sign_mutual_close_tx / _phase2) is loaded     *)
(* here with the CONCRETE values the harness used and observed, and          *)
(*   1. re-judged by the reference predicate MustRefuse evaluated on those   *)
(*      concrete values (the arithmetic oracle is this TLA+ text); the       *)
(*      property monitor is Verdict: a VIOLATION iff the real code signed    *)
(*      what must be refused, or the signature is not over the canonical     *)
(*      closing transaction, or the channel is not (durably) marked closed;  *)
(*   2. compared with ImplStep (conformance; divergences are reported, they  *)
(*      are not alarms);                                                     *)
(*   3. counted: real refusals the reference does not demand (impl_stricter),*)
(*      and for every rule the refusals of which it is the SOLE reason       *)
(*      (vacuity guard of the self-test).                                    *)
(* One log record per case:                                                  *)
(*   [i, sid, w |-> world as observed (commitments read back from the real   *)
(*    enforcement state, allowlist as configured), q |-> the request as      *)
(*    built, obs |-> [ok, tag, sig, closed, closedr, changed, err]]          *)
(* IOEnv: MCL_LOG (ndjson), MCL_REPORT (json), MCL_SATURATE (behaviour switch)*)
(***************************************************************************)
EXTENDS MutualClose, Json, IOUtils, SequencesExt

Log == ndJsonDeserialize(IOEnv.MCL_LOG)

K == [saturate |-> IOEnv.MCL_SATURATE = "true"]          \* behaviour switch: what the code does at HEAD

WorldOfRec(e) == [out |-> e.w.out, chv |-> e.w.chv, upfront |-> e.w.upfront,
                  eps |-> e.w.eps, minr |-> e.w.minr, maxr |-> e.w.maxr,
                  hc |-> e.w.hc, cc |-> e.w.cc, allow |-> ToSet(e.w.allow)]
ReqOfRec(e) == IF e.q.entry = "p2" THEN [entry |-> "p2", a |-> e.q.a]
               ELSE [entry |-> "p1", outs |-> e.q.outs, npaths |-> e.q.npaths, canon |-> e.q.canon]

Judge(e) ==
  LET w == WorldOfRec(e)
      q == ReqOfRec(e)
      fs == FailSets(w, q)
      must == MustRefuseF(fs)
      impl == ImplStep(w, q, K) IN
  [v |-> VerdictF(must, e.obs), must |-> must,
   sole |-> SoleRulesF(fs),
   fail |-> IF must THEN MinFailF(fs) ELSE {},
   impl |-> impl,
   conf |-> impl.ok = e.obs.ok /\ impl.tag = e.obs.tag]

VARIABLE i
Init == i \in DOMAIN Log
Next == UNCHANGED i
Spec == Init /\ [][Next]_i

\* the property monitor, on observations of the real implementation only
\* (one TLC state per executed case; the workers evaluate the monitor in parallel)
C07 == LET e == Log[i] IN ~IsViolation(Verdict(WorldOfRec(e), ReqOfRec(e), e.obs))

---------------------------------------------------------------------------
\* the report: ONE pass over the log, every case judged once (TLC does not memoise function applications);
\* at most 3 examples are kept per distinct kind of violation
One(b) == IF b THEN 1 ELSE 0
Acc0 == [line |-> 0, accepted |-> 0, signed_ok |-> 0, refused |-> 0, must_refuse |-> 0, impl_stricter |-> 0,
         panics |-> 0, changed_on_refusal |-> 0, sole |-> [r \in RuleNames |-> 0],
         fallback_signed |-> 0, fallback_refused_dest |-> 0, both_attempts_failed |-> 0,
         nviolations |-> 0, violations |-> <<>>, ndivergent |-> 0, divergences |-> <<>>]
StepAcc(acc, e) ==
  LET j == Judge(e)
      n == acc.line + 1
      bad == IsViolation(j.v)
      vrec == [line |-> n, i |-> e.i, v |-> j.v, fail |-> SetToSeq(j.fail),
               note |-> FeeNote(WorldOfRec(e), ReqOfRec(e)), tag |-> e.obs.tag, sig |-> e.obs.sig]
      same(x) == x.v = j.v /\ x.fail = SetToSeq(j.fail) /\ x.sig = e.obs.sig /\ x.note = vrec.note
      keep == bad /\ Cardinality({k \in DOMAIN acc.violations : same(acc.violations[k])}) < 3 IN
  [line |-> n,
   accepted |-> acc.accepted + One(e.obs.ok),
   signed_ok |-> acc.signed_ok + One(j.v = "signed_ok"),
   refused |-> acc.refused + One(~e.obs.ok),
   must_refuse |-> acc.must_refuse + One(j.must),
   impl_stricter |-> acc.impl_stricter + One(~e.obs.ok /\ ~j.must),
   panics |-> acc.panics + One(e.obs.tag = "panic"),
   changed_on_refusal |-> acc.changed_on_refusal + One(~e.obs.ok /\ e.obs.changed),
   sole |-> [r \in RuleNames |-> acc.sole[r] + One(~e.obs.ok /\ r \in j.sole)],
   \* phase 1, two-attempt decoding (per the code-shaped model, on cases where the real verdict agrees):
   \* signed on the FALLBACK assignment / refused although the fallback's values fit, because of ITS destination
   fallback_signed |-> acc.fallback_signed + One(e.obs.ok /\ j.conf /\ j.impl.attempt = "unlikely"),
   fallback_refused_dest |-> acc.fallback_refused_dest
                             + One(~e.obs.ok /\ j.conf /\ j.impl.attempt = "both_failed"
                                   /\ j.impl.utag \in {"dest", "upfront"}),
   both_attempts_failed |-> acc.both_attempts_failed + One(j.impl.attempt = "both_failed"),
   nviolations |-> acc.nviolations + One(bad),
   violations |-> IF keep THEN Append(acc.violations, vrec) ELSE acc.violations,
   ndivergent |-> acc.ndivergent + One(~j.conf),
   divergences |-> IF ~j.conf /\ Len(acc.divergences) < 40
                   THEN Append(acc.divergences, [line |-> n, i |-> e.i,
                                                 real |-> [ok |-> e.obs.ok, tag |-> e.obs.tag],
                                                 expected |-> j.impl, err |-> e.obs.err])
                   ELSE acc.divergences]

Report == LET r == FoldLeft(StepAcc, Acc0, Log) IN
          [cases |-> r.line] @@ [f \in (DOMAIN r) \ {"line"} |-> r[f]]

ASSUME JsonSerialize(IOEnv.MCL_REPORT, Report)
=============================================================================
