--------------------------- MODULE ImplMutualClose ---------------------------
(***************************************************************************)
(* Leg B of C07: every close request the harness ran against the REAL        *)
(* crates (`mutualclose run`: channel states reached through the public API  *)
(* by commitment updates, then sign_mutual_close_tx / _phase2) is loaded     *)
(* here with the CONCRETE values the harness used and observed, and          *)
(*   1. re-judged by the reference predicate MustRefuse evaluated on those   *)
(*      concrete values (the arithmetic oracle is this TLA+ text); the       *)
(*      property monitor is Verdict: a VIOLATION iff the real code signed    *)
(*      what must be refused, or the signature is not over the canonical     *)
(*      closing transaction, or the channel is not (durably) marked closed;  *)
(*   2. compared with ImplStep (conformance; divergences are reported, they  *)
(*      are not alarms);                                                     *)
(*   3. counted: real refusals the reference does not demand (impl_stricter),*)
(*      and for every rule the refusals of which it is the SOLE reason       *)
(*      (vacuity guard of the self-test).                                    *)
(* One log record per case:                                                  *)
(*   [i, sid, w |-> world as observed (commitments read back from the real   *)
(*    enforcement state, allowlist as configured), q |-> the request as      *)
(*    built, obs |-> [ok, tag, sig, closed, closedr, changed, err]]          *)
(* IOEnv: MCL_LOG (ndjson), MCL_REPORT (json)                                *)
(***************************************************************************)
EXTENDS MutualClose, Json, IOUtils, SequencesExt

Log == ndJsonDeserialize(IOEnv.MCL_LOG)

WorldOfRec(e) == [out |-> e.w.out, chv |-> e.w.chv, upfront |-> e.w.upfront,
                  eps |-> e.w.eps, minr |-> e.w.minr, maxr |-> e.w.maxr,
                  hc |-> e.w.hc, cc |-> e.w.cc, allow |-> ToSet(e.w.allow)]
ReqOfRec(e) == IF e.q.entry = "p2" THEN [entry |-> "p2", a |-> e.q.a]
               ELSE [entry |-> "p1", outs |-> e.q.outs, npaths |-> e.q.npaths, canon |-> e.q.canon]

Judge(e) ==
  LET w == WorldOfRec(e)
      q == ReqOfRec(e)
      must == MustRefuse(w, q)
      impl == ImplStep(w, q) IN
  [v |-> Verdict(w, q, e.obs), must |-> must,
   sole |-> IF must THEN SoleRules(w, q) ELSE {},
   fail |-> IF must THEN MinFail(w, q) ELSE {},
   impl |-> impl,
   conf |-> impl.ok = e.obs.ok /\ impl.tag = e.obs.tag]

\* (TLCEval: the function is computed once, not re-evaluated at every application)
J == TLCEval([i \in DOMAIN Log |-> Judge(Log[i])])

VARIABLE i
Init == i \in DOMAIN Log
Next == UNCHANGED i
Spec == Init /\ [][Next]_i

\* the property monitor, on observations of the real implementation only
C07 == ~IsViolation(J[i].v)

---------------------------------------------------------------------------
Idx == DOMAIN Log
Count(P(_)) == Cardinality({k \in Idx : P(k)})
Viol == {k \in Idx : IsViolation(J[k].v)}
Div  == {k \in Idx : ~J[k].conf}
First(S, n) == LET q == SetToSeq(S) IN [k \in 1..(IF Len(q) < n THEN Len(q) ELSE n) |-> q[k]]

Report ==
  [ cases        |-> Len(Log),
    accepted     |-> Count(LAMBDA k : Log[k].obs.ok),
    signed_ok    |-> Count(LAMBDA k : J[k].v = "signed_ok"),
    refused      |-> Count(LAMBDA k : ~Log[k].obs.ok),
    must_refuse  |-> Count(LAMBDA k : J[k].must),
    impl_stricter |-> Count(LAMBDA k : ~Log[k].obs.ok /\ ~J[k].must),
    panics       |-> Count(LAMBDA k : Log[k].obs.tag = "panic"),
    changed_on_refusal |-> Count(LAMBDA k : ~Log[k].obs.ok /\ Log[k].obs.changed),
    sole         |-> [r \in RuleNames |-> Count(LAMBDA k : ~Log[k].obs.ok /\ r \in J[k].sole)],
    violations   |-> [k \in DOMAIN First(Viol, 200) |->
                        LET n == First(Viol, 200)[k] IN
                        [line |-> n, i |-> Log[n].i, v |-> J[n].v, fail |-> SetToSeq(J[n].fail),
                         tag |-> Log[n].obs.tag, sig |-> Log[n].obs.sig]],
    nviolations  |-> Cardinality(Viol),
    ndivergent   |-> Cardinality(Div),
    divergences  |-> [k \in DOMAIN First(Div, 40) |->
                        LET n == First(Div, 40)[k] IN
                        [line |-> n, i |-> Log[n].i, real |-> [ok |-> Log[n].obs.ok, tag |-> Log[n].obs.tag],
                         expected |-> J[n].impl, err |-> Log[n].obs.err]] ]

ASSUME JsonSerialize(IOEnv.MCL_REPORT, Report)
=============================================================================
