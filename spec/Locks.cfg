SPECIFICATION Spec
CONSTANTS NT = 2
INVARIANTS ReportDeadlocks
CHECK_DEADLOCK FALSE
