SPECIFICATION Spec
CONSTANTS
  D = 3
  S = 3
  W = 4
  MaxD = 2
  Cd = {1}
  Kinds = {"F", "X", "M", "U", "S", "H", "L"}
  Pairs = "dep"
  BurySizes = {2}
  Rev = TRUE
  MaxH = 6
  Crash = FALSE
  DX = 5
  Around = {}
VIEW View
CONSTRAINT Bound
INVARIANTS C15a C15b TypeOK ModelAgrees BuryLemma
PROPERTIES Frame
CHECK_DEADLOCK FALSE
