----------------------------- MODULE MC_Velocity -----------------------------
(***************************************************************************)
(* Leg A of C12: TLC explores the Velocity model itself (design level).     *)
(* One run covers several parameter sets (chosen in Init); for each one     *)
(* every non-decreasing timestamp sequence (deltas 0 .. full expiry + 1),   *)
(* every amount 0 .. L+1 plus the saturating extremes, and a restart        *)
(* between any two requests.  State space is finite modulo Norm (VIEW).     *)
(*                                                                         *)
(* Group = "sound": bare controls, and the node with a restart that keeps   *)
(*                  the persisted controls and a persisting                 *)
(*                  check_onchain_tx - C12 must hold (the algorithm and     *)
(*                  the intended persistence discipline are right);         *)
(*         "head":  the node with the switches set to what the code does    *)
(*                  (KeepAtHead, PersistFeeAtHead) - a counterexample here  *)
(*                  is a HYPOTHESIS about the code that leg B confirms or   *)
(*                  refutes on the real crates.                             *)
(***************************************************************************)
EXTENDS Velocity

CONSTANTS Group, Size, KeepAtHead, PersistFeeAtHead

VARIABLES cfg, s, g, last

Par(level, pay, fee, keep, pf) == [level |-> level, pay |-> pay, fee |-> fee, keep |-> keep, persistFee |-> pf,
                                   ns |-> 0]

StructReqs(p) == {Req("Insert", dt, a) : dt \in AllDts(p), a \in Amounts(p, {TOP - 1, TOP})} \cup {RestartReq}
PayReqs(p)     == {Req(op, dt, a) : op \in {"AddInvoice", "AddKeysend"}, dt \in AllDts(p), a \in Amounts(p, {TOP})}
FeeReqs(f)     == {Req("Onchain", dt, a) : dt \in AllDts(f), a \in Amounts(f, {})}
MixedReqs(p, f) == {Req("AddKeysend", dt, a) : dt \in EdgeDts(p), a \in {1, p.L}}
                     \cup {Req("Onchain", dt, a) : dt \in EdgeDts(f), a \in {1, f.L}}

StructCfg(p) == [P |-> Par("struct", p, Unl(p.B, p.K), TRUE, TRUE), reqs |-> StructReqs(p)]
\* node-level parameter sets: only payments / only on-chain fees / both (smaller alphabet)
NodeCfg(mode, p, f, kp, pf) ==
  [P |-> Par("node", p, f, kp, pf),
   reqs |-> {RestartReq} \cup (CASE mode = "pay" -> PayReqs(p) [] mode = "fee" -> FeeReqs(f)
                                  [] OTHER -> MixedReqs(p, f))]

SmallStruct == << StructCfg(Ctl(2, 3, 4)), StructCfg(Ctl(3, 2, 5)), StructCfg(Ctl(1, 4, 3)),
                  StructCfg(Ctl(2, 2, TOP - 1)), StructCfg(Ctl(1, 1, 2)) >>
LargeStruct == << StructCfg(Ctl(3, 3, 5)), StructCfg(Ctl(2, 5, 4)), StructCfg(Ctl(4, 2, 6)),
                  StructCfg(Ctl(3, 3, TOP - 2)) >>
NodeSets == IF Size = "large"
            THEN << <<"pay", Ctl(2, 4, 3), Unl(2, 4)>>, <<"pay", Ctl(3, 3, 3), Ctl(3, 3, 50)>>,
                    <<"fee", Unl(2, 4), Ctl(2, 4, 3)>>,
                    <<"mixed", Ctl(2, 3, 3), Ctl(2, 3, 2)>>, <<"mixed", Ctl(1, 4, 2), Ctl(2, 2, 2)>> >>
            ELSE << <<"pay", Ctl(2, 3, 3), Unl(2, 3)>>, <<"fee", Unl(2, 3), Ctl(2, 3, 3)>>,
                    <<"mixed", Ctl(2, 3, 2), Ctl(2, 3, 2)>> >>
\* retries: one named invoice hash and one named keysend hash besides fresh ones, submitted through
\* the node (Add*) and through the approver (Propose*), same or another amount, restart anywhere
RetryCfg(p, kp, pf) ==
  [P |-> [Par("node", p, Unl(p.B, p.K), kp, pf) EXCEPT !.ns = 1],
   reqs |-> {RestartReq} \cup {ReqH(op, dt, a, h) : op \in InvoiceOps \cup KeysendOps, dt \in {0, 1, W(p), p.K * p.B},
                                                   a \in {1, p.L}, h \in {0, 1}}]
NodeCfgs(kp, pf) == [i \in DOMAIN NodeSets |-> NodeCfg(NodeSets[i][1], NodeSets[i][2], NodeSets[i][3], kp, pf)]
                      \o << RetryCfg(Ctl(2, 3, 2), kp, pf) >>

Configs == IF Group = "sound"
           THEN SmallStruct \o (IF Size = "large" THEN LargeStruct ELSE <<>>) \o NodeCfgs(TRUE, TRUE)
           ELSE NodeCfgs(KeepAtHead, PersistFeeAtHead)

P == Configs[cfg].P

Init == /\ cfg \in DOMAIN Configs
        /\ s = InitState(Configs[cfg].P)
        /\ g = InitGhost(Configs[cfg].P)
        /\ last = [op |-> "init", dt |-> 0, a |-> 0, h |-> 0, ok |-> 1]

Next == \E r \in Configs[cfg].reqs :
          LET o == Step(s, r, P) IN
          /\ s' = o.s
          /\ g' = Ghost(g, r, o.resp, P)
          /\ last' = [op |-> r.op, dt |-> r.dt, a |-> r.a, h |-> r.h, ok |-> Code(o.resp)]
          /\ UNCHANGED cfg

Spec == Init /\ [][Next]_<<cfg, s, g, last>>
View == <<cfg, Norm(s, P), g>>

\* exploration bound (needed only under a near-u64::MAX limit, where small amounts pile up
\* for ever): states holding a small bucket value above 3 are not expanded
SmallOK(b) == \A i \in 1..Len(b) : b[i] <= 3 \/ IsTop(b[i])
Bound == /\ (IsTop(P.pay.L) => SmallOK(s.pay.b))
         /\ (IsTop(P.fee.L) => SmallOK(s.fee.b))

C12         == Inv_C12(g, P)
\* the property in the words of its statement (every window); same predicate as C12
C12_windows == Inv_C12_windows(g, P)

\* structural facts the argument for C12 rests on
TypeOK == /\ Len(s.pay.b) = P.pay.K /\ Len(s.fee.b) = P.fee.K
          /\ s.pay.start <= s.now /\ s.fee.start <= s.now
          /\ s.pay.start % P.pay.B = 0 /\ s.fee.start % P.fee.B = 0
          /\ \A i \in 1..P.pay.K : s.pay.b[i] >= 0 /\ s.pay.b[i] <= TOP
\* what the control has counted covers everything approved in the window (sound groups only)
Covers == /\ (P.pay.L < TOP => CapSum(g.pay, 1, Len(g.pay)) <= Velocity(Rotate(s.pay, P.pay, s.now).b))
          /\ (P.fee.L < TOP => CapSum(g.fee, 1, Len(g.fee)) <= Velocity(Rotate(s.fee, P.fee, s.now).b))
\* a refused request changes nothing observable (C10 at design level, modulo the lazy rotation)
Frame == [][ (last'.ok # 1) => (Norm(s', P) = Norm([s EXCEPT !.now = s'.now], P)) ]_<<cfg, s, g, last>>
=============================================================================
