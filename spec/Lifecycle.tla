------------------------------ MODULE Lifecycle ------------------------------
(***************************************************************************)
(* Channel life cycle of the validating signer (property C15):              *)
(*   vls-core/src/node.rs     new_channel / find_or_create_channel,         *)
(*                            setup_channel, forget_channel, get_heartbeat  *)
(*                            -> prune_channels, restore (restart),         *)
(*                            dbid_high_water_mark                          *)
(*   vls-core/src/monitor.rs  State::is_done / deep_enough_and_saw_node_    *)
(*                            forget, the part of apply_forward_change /    *)
(*                            apply_backward_change that is_done depends on *)
(*   vls-core/src/chain/tracker.rs  add_block / remove_block (height, the   *)
(*                            header window that bounds a reorg)            *)
(*   vls-protocol-signer handler: AddBlock / RemoveBlock persist the tracker*)
(*                                                                         *)
(* Written to be bound: the transition function is the pure operator        *)
(*      Step(K, s, req) -> [rc, s]                                          *)
(* mirroring the code's order of checks.  The environment (the block chain  *)
(* itself) is part of s: s.ev is the sparse list of non-empty blocks on the *)
(* current best chain.  Ghost(K, g, req, rc, pre, post) is the history the  *)
(* property needs, computed from OBSERVATIONS only (requests, return codes, *)
(* which channels exist before / after, the chain height); Inv_C15a / b     *)
(* are the property.                                                        *)
(*                                                                         *)
(* Configuration record K (constant during a run)                           *)
(*   D     MIN_DEPTH (monitor.rs): confirmations that bury an event         *)
(*   S     a stub is pruned iff height - stub.blockheight > S               *)
(*         (CHANNEL_STUB_PRUNE_BLOCKS = 6, + 100 on regtest)                *)
(*   W     ChainTracker::MAX_REORG_SIZE, the header window                  *)
(*   maxd  node-assigned ids (dbid) are 1..maxd                             *)
(*   cd    ids whose channel has on-chain transactions in this run          *)
(*   kinds transaction kinds in the catalogue                               *)
(*   pairs "none" | "dep" | "all": two-transaction blocks in the alphabet   *)
(*   bury  sizes k of the macro requests Bury(k) / Unbury(k)                *)
(*   rev   monitor applies backward changes in reverse order (was FALSE at  *)
(*         the pinned commit: disconnecting a block that holds a closing    *)
(*         transaction and a spend of one of its outputs aborted - C14;     *)
(*         TRUE since /repo 9860e01).  Read from spec/monitor_switches.json *)
(*   mir   backward HTLC changes mirror the forward watches (was FALSE;     *)
(*         TRUE since /repo 3e8fbb8); only used to decide which blocks the  *)
(*         compact-proof runs may disconnect                                *)
(*   mode  "compact" | "streamed"                                           *)
(*   empty the alphabet contains the single empty block                     *)
(*   DX    MAX_CLOSING_DEPTH (monitor.rs, 2016): the second depth constant   *)
(*         the monitor knows.  Only diagnostic() reads it ("AGING_OUR_OUTPUT_*)
(*         SWEPT at h until h + MAX_CLOSING_DEPTH", with h = our_output_     *)
(*         swept_height, the channel field oosh below); is_done does not:    *)
(*         a unilateral close whose main output is swept while an HTLC /     *)
(*         second-level output is not stays "merely closing" however deeply  *)
(*         it is buried.                                                     *)
(*   around  VERY DEEP BURIAL: offsets o; for every depth constant c the     *)
(*         monitor knows (DepthConsts: D and DX) the alphabet also contains  *)
(*         Bury(c - 1 + o) / Unbury(c - 1 + o): o = 0 gives the event in the *)
(*         top block exactly c confirmations.  Every event that is NOT       *)
(*         sufficient for discarding a channel (funding confirmed only, a    *)
(*         unilateral close seen only, a close with only some of the node's  *)
(*         outputs swept - asked to forget or not) must keep the channel     *)
(*         alive at every one of these depths; RefDone below knows D only.   *)
(***************************************************************************)
EXTENDS Integers, Sequences, FiniteSets, SequencesExt, TLC

SeqToSet(q) == {q[i] : i \in DOMAIN q}
Max2(a, b) == IF a >= b THEN a ELSE b
Min2(a, b) == IF a <= b THEN a ELSE b

(***************************************************************************)
(* Transactions of channel d.  Kinds:                                       *)
(*   F funding transaction (spends the funder's inputs 1 and 2)             *)
(*   X double-spend of funding input 1                                      *)
(*   M mutual close            (spends the funding output)                  *)
(*   U unilateral close by the counterparty: holder output + one HTLC the   *)
(*     holder can claim + counterparty output; S alone (or H, H L alone)    *)
(*     leaves it partly swept: "merely closing"                             *)
(*   V unilateral close by the counterparty paying nothing to the holder    *)
(*   S sweep of the holder output of U                                      *)
(*   H spend of the HTLC output of U  (creates a second-level output)       *)
(*   L spend of the second-level output of H                                *)
(***************************************************************************)
TxId(k, d) == k \o ToString(d)

NeedsK(k) == CASE k \in {"F", "X"}      -> {}
               [] k \in {"M", "U", "V"} -> {"F"}
               [] k \in {"S", "H"}      -> {"U"}
               [] k = "L"               -> {"H"}
ConflK(k) == CASE k = "F" -> {"X"}
               [] k = "X" -> {"F"}
               [] k = "M" -> {"U", "V"}
               [] k = "U" -> {"M", "V"}
               [] k = "V" -> {"M", "U"}
               [] OTHER   -> {}

AllKinds == <<"F", "X", "M", "U", "V", "S", "H", "L">>

TxRec(K, k, d) ==
  [ id |-> TxId(k, d), k |-> k, d |-> d,
    needs     |-> {TxId(n, d) : n \in NeedsK(k) \cap K.kinds},
    conflicts |-> {TxId(n, d) : n \in ConflK(k) \cap K.kinds},
    setup     |-> k \in {"F", "X"},                 \* only after setup_channel(d) created the monitor
    \* a compact-proof run does not disconnect H / L blocks while the backward watches are swapped
    nodisc    |-> K.mode = "compact" /\ ~K.mir /\ k \in {"H", "L"} ]

TxIds(K) == {TxId(k, d) : k \in K.kinds, d \in K.cd}
TxOf(K)  == [id \in TxIds(K) |->
               LET p == CHOOSE p \in K.kinds \X K.cd : TxId(p[1], p[2]) = id IN TxRec(K, p[1], p[2])]

MkK(D, S, W, maxd, cd, kinds, pairs, bury, rev, mir, mode, empty) ==
  LET K0 == [D |-> D, S |-> S, W |-> W, maxd |-> maxd, cd |-> cd, kinds |-> kinds, pairs |-> pairs,
             bury |-> bury, rev |-> rev, mir |-> mir, mode |-> mode, empty |-> empty] IN
  [D |-> D, S |-> S, W |-> W, maxd |-> maxd, cd |-> cd, kinds |-> kinds, pairs |-> pairs,
   bury |-> bury, rev |-> rev, mir |-> mir, mode |-> mode, empty |-> empty, crash |-> FALSE,
   markFirst |-> TRUE, dropOrphans |-> TRUE, DX |-> D, around |-> {}, tx |-> TxOf(K0)]
\* the alphabet also contains the crash points inside new / setup / forget requests
WithCrash(K0, c) == [f \in DOMAIN K0 |-> IF f = "crash" THEN c ELSE K0[f]]
\* behaviour switches of the crash windows (spec/lifecycle_switches.json):
\*   markFirst    forget_channel raises and persists the id mark BEFORE the forget flag (since /repo 773db50;
\*                before: channel, tracker (flag), node (mark))
\*   dropOrphans  a restore drops tracker listeners without a channel entry (since /repo a13aab7; before it
\*                panicked, so that a setup_channel interrupted between its two writes left no signer)
WithSwitches(K0, mf, dro) == [f \in DOMAIN K0 |-> IF f = "markFirst" THEN mf
                                                  ELSE IF f = "dropOrphans" THEN dro ELSE K0[f]]

\* very deep burial: the second depth constant (MAX_CLOSING_DEPTH) and the offsets around every depth constant
WithDeep(K0, dx, around) == [f \in DOMAIN K0 |-> IF f = "DX" THEN dx ELSE IF f = "around" THEN around ELSE K0[f]]
\* every depth constant of monitor.rs
DepthConsts(K) == {K.D, K.DX}
\* sizes of the Bury / Unbury macro requests: the plan's own and those around every depth constant (k empty
\* blocks on top of the block of an event give the event k + 1 confirmations)
BurySet(K) == K.bury \cup {k \in {c - 1 + o : c \in DepthConsts(K), o \in K.around} : k >= 1}

\* block alphabet: single transactions, and pairs (creator first)
Coherent(K, b) ==
  /\ \A i, j \in DOMAIN b : i # j => b[i] # b[j] /\ b[j] \notin K.tx[b[i]].conflicts
  /\ \A i, j \in DOMAIN b : b[j] \in K.tx[b[i]].needs => j < i
Dependent(K, b) == \E i, j \in DOMAIN b : i < j /\ b[i] \in K.tx[b[j]].needs
Blocks(K) ==
  LET ids == DOMAIN K.tx
      one == {<<x>> : x \in ids}
      two == {<<x, y>> : x \in ids, y \in ids}
      ok2 == {b \in two : Coherent(K, b) /\
                (K.pairs = "all" \/ (K.pairs = "dep" /\ Dependent(K, b)))} IN
  one \cup (IF K.pairs = "none" THEN {} ELSE ok2)

(***************************************************************************)
(* State                                                                   *)
(***************************************************************************)
NoChan == [ph |-> "none", bh |-> -1, fg |-> FALSE, fh |-> -1, dsh |-> -1, mch |-> -1, uch |-> -1,
           ct |-> "none", our |-> "na", ht |-> "na", sl |-> "na", csh |-> -1, oosh |-> -1]
Stub(bh)   == [NoChan EXCEPT !.ph = "stub", !.bh = bh]
FreshReady == [NoChan EXCEPT !.ph = "ready"]

InitState(K) ==
  [ h |-> 0, hw |-> 0,          \* tracker height; number of previous headers the tracker remembers
    ev |-> <<>>,                \* non-empty blocks on the best chain: <<[h, b]>>, ascending heights
    mark |-> 0,                 \* NodeState.dbid_high_water_mark
    su |-> {},                  \* ids whose setup_channel created a channel (history; enables F / X)
    chans |-> [d \in 1..K.maxd |-> NoChan] ]

\* ClosingOutpoints::is_all_spent
Swept(c) == c.ct # "none" /\ c.our \in {"na", "s"} /\ c.ht \in {"na", "s"} /\ c.sl \in {"na", "s"}

\* State::is_our_output_swept: the closing transaction's output to the node is spent, or does not exist
OurSwept(c) == c.ct # "none" /\ c.our \in {"na", "s"}

\* State::depth_of / deep_enough_and_saw_node_forget / is_done.  The three events below, each with MIN_DEPTH,
\* are the only ones: our_output_swept_height (oosh) and MAX_CLOSING_DEPTH (K.DX) feed diagnostic() only, so
\* no depth of a partly swept close (or of the funding / the close alone) makes a channel done.
DepthOf(h, e) == IF e = -1 THEN 0 ELSE Max2(h + 1 - e, 0)
IsDone(K, c, h) ==
  \/ DepthOf(h, c.dsh) >= K.D /\ c.fg
  \/ DepthOf(h, c.mch) >= K.D /\ c.fg
  \/ DepthOf(h, c.csh) >= K.D /\ c.fg

(***************************************************************************)
(* Monitor: forward / backward change of one transaction kind at height n   *)
(***************************************************************************)
FwdTok(c, k, n) ==
  CASE k = "F" -> [c EXCEPT !.fh = n, !.dsh = -1]            \* FundingInputSpent.., FundingConfirmed
    [] k = "X" -> [c EXCEPT !.dsh = IF @ = -1 THEN n ELSE @]
    [] k = "M" -> [c EXCEPT !.mch = n]
    [] k = "U" -> [c EXCEPT !.uch = n, !.ct = "U", !.our = "u", !.ht = "u", !.sl = "na"]
    [] k = "V" -> [c EXCEPT !.uch = n, !.ct = "V", !.our = "na", !.ht = "na", !.sl = "na"]
    [] k = "S" -> [c EXCEPT !.our = "s"]
    [] k = "H" -> [c EXCEPT !.ht = "s", !.sl = "u"]
    [] k = "L" -> [c EXCEPT !.sl = "s"]

BwdTok(c, k, n) ==
  CASE k = "F" -> [c EXCEPT !.fh = -1]
    [] k = "X" -> [c EXCEPT !.dsh = IF @ = n THEN -1 ELSE @]
    [] k = "M" -> [c EXCEPT !.mch = -1]
    [] k \in {"U", "V"} -> [c EXCEPT !.uch = -1, !.ct = "none", !.our = "na", !.ht = "na", !.sl = "na"]
    [] k = "S" -> [c EXCEPT !.our = "u"]
    [] k = "H" -> [c EXCEPT !.ht = "u", !.sl = "na"]
    [] k = "L" -> [c EXCEPT !.sl = "u"]

ToksOf(K, b, d) == SelectSeq(b, LAMBDA id : K.tx[id].d = d)

\* on_add_block_end for the monitor of channel d (only a ready channel has a listener)
ConnectChan(K, c, d, b, n) ==
  IF c.ph # "ready" THEN c
  ELSE LET c1 == FoldLeft(LAMBDA a, id : FwdTok(a, K.tx[id].k, n), c, ToksOf(K, b, d))
           c2 == IF ~Swept(c) /\ Swept(c1) THEN [c1 EXCEPT !.csh = n] ELSE c1 IN
       IF ~OurSwept(c) /\ OurSwept(c1) THEN [c2 EXCEPT !.oosh = n] ELSE c2

\* on_remove_block_end: the change list re-derived from the post-block state is applied with the
\* backward rules in forward order unless K.rev; the backward rule of a spend of a closing output
\* (S, H) / second-level output (L) applied after the removal of the transaction that created it
\* finds no closing outpoints / second-level outpoint -> abort (unwrap / expect)
SpendsInBlock(K, toks) == \E i, j \in DOMAIN toks :
                            i < j /\ toks[i] \in K.tx[toks[j]].needs /\ K.tx[toks[j]].k \in {"S", "H", "L"}
DisconnectAborts(K, c, d, b) == c.ph = "ready" /\ ~K.rev /\ SpendsInBlock(K, ToksOf(K, b, d))
DisconnectChan(K, c, d, b, n) ==
  IF c.ph # "ready" THEN c
  ELSE LET toks == IF K.rev THEN Reverse(ToksOf(K, b, d)) ELSE ToksOf(K, b, d)
           c1 == FoldLeft(LAMBDA a, id : BwdTok(a, K.tx[id].k, n), c, toks)
           c2 == IF Swept(c) /\ ~Swept(c1) THEN [c1 EXCEPT !.csh = -1] ELSE c1 IN
       IF OurSwept(c) /\ ~OurSwept(c1) THEN [c2 EXCEPT !.oosh = -1] ELSE c2

(***************************************************************************)
(* Environment: which blocks can be mined on the current chain              *)
(***************************************************************************)
Present(s) == UNION {SeqToSet(s.ev[i].b) : i \in DOMAIN s.ev}
EnabledBlock(K, s, b) ==
  FoldLeft(LAMBDA acc, id :
             LET t == K.tx[id] IN
             IF acc.ok /\ id \notin acc.p /\ t.needs \subseteq acc.p /\ t.conflicts \cap acc.p = {}
                /\ (t.setup => t.d \in s.su)
             THEN [ok |-> TRUE, p |-> acc.p \cup {id}] ELSE [ok |-> FALSE, p |-> acc.p],
           [ok |-> TRUE, p |-> Present(s)], b).ok

(***************************************************************************)
(* Requests  [op, d, b, k]                                                  *)
(***************************************************************************)
Req(op, d, b, k) == [op |-> op, d |-> d, b |-> b, k |-> k]
Requests(K) ==
       {Req(op, d, <<>>, 0) : op \in {"New", "Setup", "Forget"}, d \in 1..K.maxd}
  \cup {Req("Heartbeat", 0, <<>>, 0), Req("Restart", 0, <<>>, 0), Req("Disconnect", 0, <<>>, 0)}
  \cup {Req("Connect", 0, b, 0) : b \in (IF K.empty THEN {<<>>} ELSE {}) \cup Blocks(K)}
  \cup {Req(op, 0, <<>>, k) : op \in {"Bury", "Unbury"}, k \in BurySet(K)}
  \cup (IF K.crash
        THEN \* (k = 0 is a plain Restart: nothing of the request is durable)
                  {Req("NewCrash", d, <<>>, 1) : d \in 1..K.maxd}
             \cup {Req("SetupCrash", d, <<>>, 1) : d \in 1..K.maxd}
             \cup {Req("ForgetCrash", d, <<>>, k) : d \in 1..K.maxd, k \in 1..3}
        ELSE {})

R(rc, s) == [rc |-> rc, s |-> s]

\* Node::new_channel -> find_or_create_channel
New(K, s, d) ==
  IF s.mark >= d THEN R("err", s)                      \* policy-channel-original-channel-id-reuse
  ELSE IF s.chans[d].ph # "none" THEN R("ok", s)       \* existing slot returned
  ELSE R("ok", [s EXCEPT !.chans[d] = Stub(s.h)])      \* stub remembers the chain height

\* Node::setup_channel (+ what sign_onchain_tx does for the funder: watch the funding inputs)
Setup(K, s, d) ==
  IF s.chans[d].ph = "none" THEN R("err", s)           \* channel does not exist
  ELSE IF s.chans[d].ph = "ready" THEN R("ok", s)      \* same setup again: accepted, no change
  ELSE R("ok", [s EXCEPT !.chans[d] = FreshReady, !.su = @ \cup {d}])

\* Node::forget_channel
Forget(K, s, d) ==
  LET m == Max2(s.mark, d) IN
  CASE s.chans[d].ph = "none"  -> R("ok", s)
    [] s.chans[d].ph = "stub"  -> R("ok", [s EXCEPT !.chans[d] = NoChan, !.mark = m])
    [] s.chans[d].ph = "ready" -> R("ok", [s EXCEPT !.chans[d].fg = TRUE, !.mark = m])

\* Node::get_heartbeat -> prune_channels
Prunable(K, s, d) ==
  LET c == s.chans[d] IN
  \/ c.ph = "ready" /\ IsDone(K, c, s.h)
  \/ c.ph = "stub" /\ s.h - c.bh > K.S
Heartbeat(K, s) ==
  R("ok", [s EXCEPT !.chans = [d \in DOMAIN @ |-> IF Prunable(K, s, d) THEN NoChan ELSE @[d]]])

\* ChainTracker::add_block (+ listeners), handler persists the tracker
Connect(K, s, b) ==
  LET n == s.h + 1 IN
  R("ok", [s EXCEPT !.h = n, !.hw = Min2(@ + 1, K.W),
                    !.ev = IF b = <<>> THEN @ ELSE Append(@, [h |-> n, b |-> b]),
                    !.chans = [d \in DOMAIN @ |-> ConnectChan(K, @[d], d, b, n)]])

TopBlock(s) == IF s.ev # <<>> /\ s.ev[Len(s.ev)].h = s.h THEN s.ev[Len(s.ev)].b ELSE <<>>
\* ChainTracker::remove_block
Disconnect(K, s) ==
  LET b == TopBlock(s) IN
  IF s.hw = 0 THEN R("err", s)                                        \* ReorgTooDeep
  ELSE IF \E d \in DOMAIN s.chans : DisconnectAborts(K, s.chans[d], d, b) THEN R("panic", s)
  ELSE R("ok", [s EXCEPT !.h = @ - 1, !.hw = @ - 1,
                         !.ev = IF b = <<>> THEN @ ELSE SubSeq(@, 1, Len(@) - 1),
                         !.chans = [d \in DOMAIN @ |-> DisconnectChan(K, @[d], d, b, s.h)]])

RECURSIVE Repeat(_, _, _, _)
\* k-fold application, stopping at the first request that is not "ok"
Repeat(K, s, req, k) ==
  IF k = 0 THEN R("ok", s)
  ELSE LET o == IF req = "C" THEN Connect(K, s, <<>>) ELSE Disconnect(K, s) IN
       IF o.rc # "ok" THEN o ELSE Repeat(K, o.s, req, k - 1)

\* Bury(k) in closed form (k may be MAX_CLOSING_DEPTH and more): an empty block changes no monitor and is
\* never refused, so k of them only move the height and fill the header window.  MC_Lifecycle checks
\* BuryK = Repeat(.., "C", k) in every reachable model state (BuryLemma).
BuryK(K, s, k) == R("ok", [s EXCEPT !.h = @ + k, !.hw = Min2(@ + k, K.W)])

(***************************************************************************)
(* Crash points inside a request (plain, non-transactional store): the      *)
(* request runs until k store writes are durable, then the signer stops; a  *)
(* signer is restored from the store as it is; the request is never         *)
(* answered.  Write order of the code:                                      *)
(*   new_channel           w1 new_channel (the stub)                        *)
(*   setup_channel (stub)  w1 update_tracker (the new listener)             *)
(*                         w2 update_channel (the entry becomes a channel)  *)
(*     ~K.dropOrphans: a store with the listener but without the channel    *)
(*     cannot be restored: rc "err", no signer afterwards; K.dropOrphans:   *)
(*     the restore drops the listener, the stub is still there              *)
(*   forget_channel (ready) K.markFirst: w1 update_node (the mark, only     *)
(*                         when it is raised), then update_channel,         *)
(*                         update_tracker (the forget flag);                *)
(*                         ~K.markFirst: channel, tracker, node             *)
(*   forget_channel (stub)  w1 update_node (the mark, only when raised),    *)
(*                         then delete_channel                              *)
(***************************************************************************)
NewCrash(K, s, d, k) == IF k = 0 THEN R("ok", s) ELSE R("ok", New(K, s, d).s)
SetupCrash(K, s, d, k) ==
  IF s.chans[d].ph = "stub" /\ k = 1 /\ ~K.dropOrphans THEN R("err", s) ELSE R("ok", s)
ForgetCrash(K, s, d, k) ==
  LET c == s.chans[d]
      m == Max2(s.mark, d)
      raise == d > s.mark
      \* number of durable writes after which the flag / the mark is durable
      kflag == IF K.markFirst /\ raise THEN 3 ELSE 2
      kmark == IF K.markFirst THEN 1 ELSE 3 IN
  CASE c.ph = "none"  -> R("ok", s)
    [] c.ph = "ready" -> R("ok", [s EXCEPT !.chans[d].fg = IF k >= kflag THEN TRUE ELSE @,
                                           !.mark = IF raise /\ k >= kmark THEN m ELSE @])
    [] c.ph = "stub"  -> IF raise
                         THEN R("ok", [s EXCEPT !.mark = IF k >= 1 THEN m ELSE @,
                                                !.chans[d] = IF k >= 2 THEN NoChan ELSE @])
                         ELSE R("ok", [s EXCEPT !.chans[d] = IF k >= 1 THEN NoChan ELSE @])

Step(K, s, r) ==
  CASE r.op = "New"        -> New(K, s, r.d)
    [] r.op = "NewCrash"    -> NewCrash(K, s, r.d, r.k)
    [] r.op = "SetupCrash"  -> SetupCrash(K, s, r.d, r.k)
    [] r.op = "ForgetCrash" -> ForgetCrash(K, s, r.d, r.k)
    [] r.op = "Setup"      -> Setup(K, s, r.d)
    [] r.op = "Forget"     -> Forget(K, s, r.d)
    [] r.op = "Heartbeat"  -> Heartbeat(K, s)
    [] r.op = "Restart"    -> R("ok", s)                \* everything above is durable
    [] r.op = "Connect"    -> Connect(K, s, r.b)
    [] r.op = "Disconnect" -> Disconnect(K, s)
    [] r.op = "Bury"       -> BuryK(K, s, r.k)
    [] r.op = "Unbury"     -> LET o == Repeat(K, s, "D", r.k) IN     \* an abort leaves no signer
                              IF o.rc = "panic" THEN R("panic", s) ELSE o

\* requests the environment can issue in s (a block must be minable; a removal needs a block)
Enabled(K, s, r) ==
  CASE r.op = "Connect"    -> EnabledBlock(K, s, r.b)
    [] r.op \in {"Disconnect", "Unbury"} -> s.h > 0
    [] OTHER -> TRUE

(***************************************************************************)
(* The property.  Ghost state, from observations only:                      *)
(*   h      chain height the signer reports                                 *)
(*   ev     the non-empty blocks the environment connected and has not      *)
(*          disconnected (the current best chain)                           *)
(*   asked  ids for which forget_channel returned Ok while the channel was  *)
(*          ready                                                           *)
(*   fmax   largest id for which forget_channel returned Ok while a channel *)
(*          (stub or ready) existed                                         *)
(*   lost   ready channels that disappeared while the reference says keep   *)
(*   reused channels that appeared with an id <= fmax                       *)
(* pre / post: [h, ph] with ph : id -> "none" | "stub" | "ready"; a restart *)
(* that fails is observed as a post state without channels.                 *)
(***************************************************************************)
InitGhost == [h |-> 0, ev |-> <<>>, asked |-> {}, fmax |-> 0, lost |-> {}, reused |-> {},
              pmax |-> 0, reusedc |-> {}]

At(ev, id) == LET I == {i \in DOMAIN ev : id \in SeqToSet(ev[i].b)} IN
              IF I = {} THEN -1 ELSE ev[CHOOSE i \in I : TRUE].h
Buried(K, h, e) == e # -1 /\ h + 1 - e >= K.D

\* reference: a funding double-spend, a mutual close, or a unilateral close with every output of
\* the node swept is buried by D blocks on the current best chain.  Nothing else, at no depth: the
\* reference does not mention K.DX, so a confirmed funding, a unilateral close seen, a close with only
\* some of the node's outputs swept keep the channel however long ago they happened (the very-deep-
\* burial requests Bury(K.DX - 1 + o) exist to put exactly that to the implementation)
RefDone(K, ev, h, d) ==
  LET at(k) == At(ev, TxId(k, d)) IN
  \/ at("F") = -1 /\ Buried(K, h, at("X"))
  \/ Buried(K, h, at("M"))
  \/ at("V") # -1 /\ Buried(K, h, at("V"))
  \/ /\ at("U") # -1 /\ at("S") # -1 /\ at("H") # -1 /\ at("L") # -1
     /\ Buried(K, h, Max2(Max2(at("U"), at("S")), Max2(at("H"), at("L"))))

Ghost(K, g, r, rc, pre, post) ==
  LET ok  == rc = "ok"
      ev1 == CASE r.op = "Connect" /\ ok /\ r.b # <<>> -> Append(g.ev, [h |-> post.h, b |-> r.b])
               [] r.op \in {"Disconnect", "Unbury"}    -> SelectSeq(g.ev, LAMBDA e : e.h <= post.h)
               [] OTHER -> g.ev
      \* an interrupted forget request was asked, although it was never answered
      asked1 == IF r.op \in {"Forget", "ForgetCrash"} /\ ok /\ pre.ph[r.d] = "ready"
                THEN g.asked \cup {r.d} ELSE g.asked
      gone   == {d \in DOMAIN pre.ph : pre.ph[d] = "ready" /\ post.ph[d] # "ready"}
      fresh  == {d \in DOMAIN pre.ph : pre.ph[d] = "none" /\ post.ph[d] # "none"}
  IN [ h |-> post.h, ev |-> ev1, asked |-> asked1,
       fmax   |-> IF r.op = "Forget" /\ ok /\ pre.ph[r.d] # "none" THEN Max2(g.fmax, r.d) ELSE g.fmax,
       lost   |-> g.lost \cup {d \in gone : ~(d \in asked1 /\ RefDone(K, ev1, post.h, d))},
       reused |-> g.reused \cup {d \in fresh : d <= g.fmax},
       \* pmax: largest id of a channel the SIGNER has forgotten on the node's request - a ready channel
       \* it discarded (asked + buried), a stub it removed during a forget request - whether or not a
       \* forget request for it was ever answered (crash windows)
       pmax |-> LET P == {d \in gone : d \in asked1 /\ RefDone(K, ev1, post.h, d)}
                         \cup (IF r.op \in {"Forget", "ForgetCrash"} /\ pre.ph[r.d] = "stub" /\ post.ph[r.d] = "none"
                               THEN {r.d} ELSE {})
                IN IF P = {} THEN g.pmax ELSE Max2(g.pmax, CHOOSE x \in P : \A y \in P : y <= x),
       reusedc |-> g.reusedc \cup {d \in fresh : d <= g.pmax /\ d > g.fmax} ]

Obs(s) == [h |-> s.h, ph |-> [d \in DOMAIN s.chans |-> s.chans[d].ph]]

Inv_C15a(g) == g.lost = {}
Inv_C15b(g) == g.reused = {}
\* C15c: like C15b, for channels the signer forgot without ever answering a forget request for them
Inv_C15c(g) == g.reusedc = {}
=============================================================================
